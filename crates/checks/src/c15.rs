//! C15 — io::Read / io::Write helpers under short transfers, EINTR and errors.
//! The traits are the seam: a scripted reader/writer driven by the decision stream, no kernel.

use serde_json::{json, Value};
use simk::dec::{Dec, K};
use simk::runner::{Check, RunOpts, RunOut, Tier};
use simk::sched::Violation;
use simk::trace::Trace;
use tiny_std::io::{Read, Write};
use tiny_std::{Errno, Error};

/// a 448-byte string literal (a literal argument is folded into the format string by rustc)
macro_rules! LONG_LITERAL {
    () => {
        concat!(
            "0123456789abcdef0123456789abcdef0123456789abcdef0123456789abcdef", "ghijklmnopqrstuvghijklmnopqrstuvghijklmnopqrstuvghijklmnopqrstuv",
            "0123456789abcdef0123456789abcdef0123456789abcdef0123456789abcdef", "ghijklmnopqrstuvghijklmnopqrstuvghijklmnopqrstuvghijklmnopqrstuv",
            "0123456789abcdef0123456789abcdef0123456789abcdef0123456789abcdef", "ghijklmnopqrstuvghijklmnopqrstuvghijklmnopqrstuvghijklmnopqrstuv",
            "0123456789abcdef0123456789abcdef0123456789abcdef0123456789abcdef"
        )
    };
}

pub struct C15;

#[derive(Clone, Copy, PartialEq, Debug)]
enum Resp {
    Bytes(usize),
    Eof,
    Eintr,
    Err(i32),
}

struct Script<'a> {
    dec: &'a mut Dec,
    /// swarm knobs of this run
    p_eintr: u32,
    p_err: u32,
    p_early_eof: u32,
    short_mode: u32,
    eintr_left: u32,
    log: Vec<(usize, Resp)>,
    terminal: Option<i32>,
    calls_after_terminal: u32,
    eof_seen: bool,
}

impl Script<'_> {
    /// Decide the response to a call offering `len` bytes of room while `avail` bytes remain.
    fn next(&mut self, len: usize, avail: usize, is_write: bool) -> Resp {
        if self.terminal.is_some() {
            self.calls_after_terminal += 1;
            if self.calls_after_terminal > 5000 {
                // a helper that keeps calling a reader/writer that keeps failing never returns
                panic!("the helper called the reader/writer 5000 times after its terminal error");
            }
            let r = Resp::Err(self.terminal.unwrap());
            self.log.push((len, r));
            return r;
        }
        if self.eof_seen {
            self.log.push((len, Resp::Eof));
            return Resp::Eof;
        }
        let r = if self.eintr_left > 0 && self.dec.chance(K::Fault, self.p_eintr, 16) {
            self.eintr_left -= 1;
            Resp::Eintr
        } else if self.dec.chance(K::Fault, self.p_err, 64) {
            let e = *self.dec.pick(K::Fault, &[5, 9, 11, 28, 32, 104]);
            self.terminal = Some(e);
            Resp::Err(e)
        } else if len == 0 {
            Resp::Bytes(0)
        } else if !is_write && avail == 0 {
            Resp::Eof
        } else if self.dec.chance(K::Fault, self.p_early_eof, 64) {
            // reader: the stream ends here; writer: accepts nothing
            Resp::Eof
        } else {
            let max = if is_write { len } else { len.min(avail) };
            let k = match self.short_mode {
                0 => max,
                1 => 1,
                2 => 1 + self.dec.choose(K::Arg, max as u32) as usize,
                _ => match self.dec.choose(K::Arg, 4) {
                    0 => 1,
                    1 => max,
                    2 => (max / 2).max(1),
                    _ => 1 + self.dec.choose(K::Arg, max as u32) as usize,
                },
            };
            Resp::Bytes(k)
        };
        if r == Resp::Eof {
            self.eof_seen = true;
        }
        self.log.push((len, r));
        r
    }
}

struct SReader<'a> {
    data: &'a [u8],
    pos: usize,
    script: Script<'a>,
    max_offered: usize,
}

fn os_err(code: i32) -> Error {
    Error::Os { msg: "scripted", code: Errno::new(code) }
}

impl Read for SReader<'_> {
    fn read(&mut self, buf: &mut [u8]) -> tiny_std::Result<usize> {
        self.max_offered = self.max_offered.max(buf.len());
        let avail = self.data.len() - self.pos;
        match self.script.next(buf.len(), avail, false) {
            Resp::Bytes(k) => {
                // a reader may scribble over the whole buffer it was handed; only the first k count
                for b in buf.iter_mut() {
                    *b = 0xA5;
                }
                buf[..k].copy_from_slice(&self.data[self.pos..self.pos + k]);
                self.pos += k;
                Ok(k)
            }
            Resp::Eof => Ok(0),
            Resp::Eintr => Err(os_err(4)),
            Resp::Err(e) => Err(os_err(e)),
        }
    }
}

struct SWriter<'a> {
    accepted: Vec<u8>,
    script: Script<'a>,
    flushes: u32,
}

impl Write for SWriter<'_> {
    fn write(&mut self, buf: &[u8]) -> tiny_std::Result<usize> {
        match self.script.next(buf.len(), 0, true) {
            Resp::Bytes(k) => {
                self.accepted.extend_from_slice(&buf[..k]);
                Ok(k)
            }
            Resp::Eof => Ok(0),
            Resp::Eintr => Err(os_err(4)),
            Resp::Err(e) => Err(os_err(e)),
        }
    }
    fn flush(&mut self) -> tiny_std::Result<()> {
        self.flushes += 1;
        Ok(())
    }
}

/// write(2) on descriptor 1/2 answered by the script (the print path's "writer" is the kernel)
struct PrintKern<'a> {
    script: std::cell::RefCell<Script<'a>>,
    accepted: std::cell::RefCell<Vec<u8>>,
    fd: usize,
}

impl simk::sched::Kernel for PrintKern<'_> {
    fn syscall(&self, nr: usize, a: [usize; 6]) -> usize {
        if nr != sc::nr::WRITE || a[0] != self.fd {
            return simk::kern::neg(9);
        }
        match self.script.borrow_mut().next(a[2], 0, true) {
            Resp::Bytes(k) => {
                let b = unsafe { std::slice::from_raw_parts(a[1] as *const u8, k) };
                self.accepted.borrow_mut().extend_from_slice(b);
                k
            }
            Resp::Eof => 0,
            Resp::Eintr => simk::kern::neg(4),
            Resp::Err(e) => simk::kern::neg(e),
        }
    }
}

const SIZES: &[usize] = &[0, 1, 2, 15, 16, 17, 31, 32, 33, 34, 47, 48, 63, 64, 65, 95, 96, 97, 127, 128, 129, 200, 255, 256, 257, 1000, 4095, 4096, 4097, 10000];

fn gen_size(dec: &mut Dec) -> usize {
    match dec.choose(K::Arg, 3) {
        0 => *dec.pick(K::Arg, SIZES),
        1 => dec.choose(K::Arg, 100) as usize,
        _ => dec.choose(K::Arg, 300) as usize,
    }
}

const PIECES: &[&str] = &["a", "z", "é", "ß", "→", "€", "한", "😀", "𝄞", "\u{7f}", "\u{80}", "\u{7ff}", "\u{800}", "\u{ffff}", "\u{10000}", "\n", "0"];

fn gen_utf8(dec: &mut Dec, approx: usize) -> Vec<u8> {
    let mut s = Vec::new();
    let ascii_only = dec.chance(K::Arg, 1, 4);
    while s.len() < approx {
        let p = if ascii_only { "x" } else { *dec.pick(K::Arg, PIECES) };
        s.extend_from_slice(p.as_bytes());
    }
    s
}

fn gen_bytes(dec: &mut Dec, n: usize, salt: u8) -> Vec<u8> {
    let base = dec.choose(K::Arg, 251) as u8;
    (0..n).map(|i| (i as u8).wrapping_mul(7).wrapping_add(base).wrapping_add(salt)).collect()
}

fn mk_script(dec: &mut Dec) -> (u32, u32, u32, u32, u32) {
    // swarm: each knob drawn per run
    let mut p_eintr = *dec.pick(K::Cfg, &[0, 0, 2, 6, 12]);
    let p_err = *dec.pick(K::Cfg, &[0, 0, 0, 1, 4]);
    let p_eof = *dec.pick(K::Cfg, &[0, 0, 0, 1, 3]);
    let short_mode = dec.choose(K::Cfg, 4);
    let mut eintr_budget = dec.choose(K::Cfg, 12);
    if dec.chance(K::Cfg, 1, 16) {
        // a signal storm: long runs of consecutive interruptions ("interleaved with EINTR" has no bound)
        p_eintr = 16;
        eintr_budget = 17 + dec.choose(K::Cfg, 300);
    }
    (p_eintr, p_err, p_eof, short_mode, eintr_budget)
}

struct Outcome {
    viol: Option<Violation>,
    sample: Value,
    nontrivial: bool,
    trace: Trace,
    counters: Vec<(&'static str, u64)>,
}

fn v(sig: &str, detail: String) -> Option<Violation> {
    Some(Violation { sig: sig.to_string(), detail })
}

fn script_json(log: &[(usize, Resp)]) -> Value {
    Value::Array(log.iter().take(40).map(|(l, r)| json!(format!("len={l}->{r:?}"))).collect())
}

fn run_case(dec: &mut Dec, record: bool) -> Outcome {
    let mut trace = Trace::new(record);
    let op = dec.choose(K::Op, 6);
    let (p_eintr, p_err, p_eof, short_mode, eintr_left) = mk_script(dec);
    let mut counters: Vec<(&'static str, u64)> = Vec::new();
    let mk = |dec| Script { dec, p_eintr, p_err, p_early_eof: p_eof, short_mode, eintr_left, log: Vec::new(), terminal: None, calls_after_terminal: 0, eof_seen: false };
    let mut viol: Option<Violation> = None;
    let sample;
    let log_out: Vec<(usize, Resp)>;
    match op {
        0 | 1 => {
            // read_to_end / read_to_string
            let to_string = op == 1;
            let n = gen_size(dec);
            let old_n = match dec.choose(K::Arg, 4) { 0 => 0, 1 => dec.choose(K::Arg, 40) as usize, _ => *dec.pick(K::Arg, &[0usize, 1, 31, 32, 33, 64]) };
            let (data, old, valid_plan) = if to_string {
                let mut d = gen_utf8(dec, n);
                let old = gen_utf8(dec, old_n);
                let invalid = dec.chance(K::Arg, 1, 5);
                if invalid && !d.is_empty() {
                    let at = dec.choose(K::Arg, d.len() as u32) as usize;
                    d[at] = *dec.pick(K::Arg, &[0xffu8, 0xc0, 0x80, 0xf8, 0xed]);
                }
                (d, old, !invalid)
            } else {
                (gen_bytes(dec, n, 1), gen_bytes(dec, old_n, 99), true)
            };
            let _ = valid_plan;
            // initial capacity: exact fit for everything, exact for old, a little more, roomy
            let cap = match dec.choose(K::Arg, 6) {
                0 => old.len() + data.len(),
                1 => old.len(),
                2 => old.len() + 1,
                3 => old.len() + data.len() + 1,
                4 => old.len() + dec.choose(K::Arg, 70) as usize,
                _ => old.len() + data.len() + 32,
            };
            let mut buf: Vec<u8> = Vec::with_capacity(cap);
            buf.extend_from_slice(&old);
            let mut rd = SReader { data: &data, pos: 0, script: mk(dec), max_offered: 0 };
            let (res, after): (tiny_std::Result<usize>, Vec<u8>) = if to_string {
                let mut s = unsafe { String::from_utf8_unchecked(buf) };
                let r = rd.read_to_string(&mut s);
                if std::str::from_utf8(s.as_bytes()).is_err() {
                    viol = v("read_to_string|string-not-utf8", format!("String holds invalid UTF-8 after the call (len {})", s.len()));
                }
                (r, s.into_bytes())
            } else {
                let r = rd.read_to_end(&mut buf);
                (r, buf)
            };
            let delivered = &data[..rd.pos];
            let term = rd.script.terminal;
            let name = if to_string { "read_to_string" } else { "read_to_end" };
            let delivered_valid = std::str::from_utf8(delivered).is_ok();
            if viol.is_none() {
                match (&res, term) {
                    (Ok(nread), None) => {
                        if to_string && !delivered_valid {
                            viol = v("read_to_string|ok-on-invalid-utf8", format!("returned Ok({nread}) although the delivered bytes are not UTF-8"));
                        } else if !rd.script.eof_seen {
                            // "exactly the concatenated bytes": everything up to the end of the stream
                            viol = v(&format!("{name}|ok-before-end-of-stream"), format!("returned Ok({nread}) although the reader never reported the end of the stream ({} of {} bytes delivered so far)", rd.pos, data.len()));
                        } else if *nread != delivered.len() {
                            viol = v(&format!("{name}|wrong-count"), format!("returned Ok({nread}), reader delivered {} bytes", delivered.len()));
                        } else if after.len() != old.len() + delivered.len() || after[..old.len()] != old[..] || after[old.len()..] != *delivered {
                            viol = v(&format!("{name}|wrong-content"), format!("buffer is not old ++ delivered (old {} B, delivered {} B, buffer {} B)", old.len(), delivered.len(), after.len()));
                        }
                    }
                    (Ok(nread), Some(e)) => {
                        viol = v(&format!("{name}|error-swallowed"), format!("reader returned errno {e} but the call returned Ok({nread})"));
                    }
                    (Err(e), None) => {
                        if to_string && !delivered_valid {
                            if after != old {
                                viol = v("read_to_string|string-changed-on-invalid", format!("String changed although the data is not UTF-8 (len {} -> {})", old.len(), after.len()));
                            }
                        } else {
                            viol = v(&format!("{name}|spurious-error"), format!("returned {e:?} although the reader reported no error"));
                        }
                    }
                    (Err(e), Some(code)) => {
                        if !e.matches_errno(Errno::new(code)) && !(to_string && !delivered_valid) {
                            viol = v(&format!("{name}|wrong-error"), format!("reader failed with errno {code}, call returned {e:?}"));
                        } else if after.len() < old.len() || after[..old.len()] != old[..] {
                            viol = v(&format!("{name}|old-content-damaged"), "existing content changed".to_string());
                        } else if !delivered.starts_with(&after[old.len()..]) {
                            viol = v(&format!("{name}|wrong-content"), "after an error the appended part is not a prefix of the delivered bytes".to_string());
                        } else if to_string && !delivered_valid && after != old && std::str::from_utf8(&after[old.len()..]).is_err() {
                            viol = v("read_to_string|string-changed-on-invalid", "invalid bytes kept".to_string());
                        }
                    }
                }
            }
            if viol.is_none() && rd.script.calls_after_terminal > 0 {
                viol = v(&format!("{name}|call-after-error"), format!("{} read call(s) after the reader's terminal error", rd.script.calls_after_terminal));
            }
            sample = json!({"op": name, "data_len": data.len(), "old_len": old.len(), "capacity": cap, "result": format!("{res:?}"), "script": script_json(&rd.script.log)});
            counters.push(("probe.exact_fit_capacity", u64::from(cap == old.len() + data.len())));
            counters.push(("probe.invalid_utf8_case", u64::from(to_string && !delivered_valid)));
            log_out = std::mem::take(&mut rd.script.log);
        }
        2 => {
            // read_exact
            let n = gen_size(dec).min(5000);
            let extra = match dec.choose(K::Arg, 4) { 0 => 0usize, 1 => 1, _ => dec.choose(K::Arg, 40) as usize };
            let short_by = if dec.chance(K::Arg, 1, 4) { 1 + dec.choose(K::Arg, 8) as usize } else { 0 };
            let total = (n + extra).saturating_sub(if extra == 0 { short_by } else { 0 });
            let data = gen_bytes(dec, total, 3);
            let mut out = vec![0x5Au8; n];
            let mut rd = SReader { data: &data, pos: 0, script: mk(dec), max_offered: 0 };
            let res = rd.read_exact(&mut out);
            let term = rd.script.terminal;
            match (&res, term) {
                (Ok(()), Some(e)) if rd.pos < n => viol = v("read_exact|error-swallowed", format!("errno {e} swallowed")),
                (Ok(()), _) => {
                    if rd.pos != n {
                        viol = v("read_exact|wrong-consumption", format!("consumed {} bytes for a {n}-byte buffer", rd.pos));
                    } else if out[..] != data[..n] {
                        viol = v("read_exact|wrong-content", "buffer differs from the first n delivered bytes".to_string());
                    }
                }
                (Err(e), Some(code)) => {
                    if !e.matches_errno(Errno::new(code)) {
                        viol = v("read_exact|wrong-error", format!("reader failed with {code}, got {e:?}"));
                    }
                }
                (Err(e), None) => {
                    if !rd.script.eof_seen {
                        viol = v("read_exact|spurious-error", format!("returned {e:?} although the reader neither failed nor ended"));
                    } else if out[..rd.pos] != data[..rd.pos] {
                        viol = v("read_exact|wrong-content", "partial content wrong".to_string());
                    }
                }
            }
            if viol.is_none() && rd.max_offered > n {
                viol = v("read_exact|overlong-buffer", "reader was offered more room than the caller's buffer".to_string());
            }
            if viol.is_none() && rd.script.calls_after_terminal > 0 {
                viol = v("read_exact|call-after-error", "read after terminal error".to_string());
            }
            sample = json!({"op": "read_exact", "n": n, "available": total, "result": format!("{res:?}"), "script": script_json(&rd.script.log)});
            log_out = std::mem::take(&mut rd.script.log);
        }
        5 => {
            // the print!/eprintln! path: unix::print's writer loops over write(2) on fd 1/2 itself
            let n = gen_size(dec).min(3000);
            let text = String::from_utf8(gen_utf8(dec, n)).unwrap();
            let fd_is_err = dec.chance(K::Arg, 1, 2);
            let k = PrintKern { script: std::cell::RefCell::new(mk(dec)), accepted: std::cell::RefCell::new(Vec::new()), fd: if fd_is_err { 2 } else { 1 } };
            let expect = format!("<{text}|{:>6}>", 4242).into_bytes();
            let mut sim = simk::sched::Sim::new(Dec::from_list(Vec::new()), simk::sched::SimCfg::default());
            sim.set_kernel(&k);
            let res = simk::sched::with_installed(&mut sim, || {
                use core::fmt::Write as _;
                let mut w = if fd_is_err { tiny_std::unix::print::__STDERR_WRITER } else { tiny_std::unix::print::__STDOUT_WRITER };
                w.write_fmt(format_args!("<{text}|{:>6}>", 4242))
            });
            let script = k.script.into_inner();
            let accepted = k.accepted.into_inner();
            let failed = script.terminal.is_some() || script.log.iter().any(|(_, r)| matches!(r, Resp::Eintr | Resp::Eof));
            if !expect.starts_with(&accepted) {
                viol = v("print|wrong-bytes", format!("the descriptor received {} bytes that are not a prefix of the formatted text (duplicated, skipped or reordered)", accepted.len()));
            } else if res.is_ok() && !failed && accepted.len() != expect.len() {
                viol = v("print|bytes-dropped", format!("the writer reported success after delivering {} of {} bytes although every write(2) succeeded (short writes only)", accepted.len(), expect.len()));
            } else if res.is_err() && !failed {
                viol = v("print|spurious-error", "the writer reported an error although every write(2) succeeded".to_string());
            }
            sample = json!({"op": "print path (unix::print writer over write(2))", "bytes": expect.len(), "result": format!("{res:?}"), "script": script_json(&script.log)});
            log_out = script.log;
        }
        _ => {
            // write_all / write_fmt
            let use_fmt = op == 4;
            let n = gen_size(dec).min(5000);
            let input: Vec<u8> = if use_fmt { gen_utf8(dec, n) } else { gen_bytes(dec, n, 5) };
            let fmt_kind = dec.choose(K::Arg, 6);
            let mut w = SWriter { accepted: Vec::new(), script: mk(dec), flushes: 0 };
            let (res, expect): (tiny_std::Result<()>, Vec<u8>) = if use_fmt {
                let s = std::str::from_utf8(&input).unwrap();
                let cut = s.char_indices().map(|(i, _)| i).nth(s.chars().count() / 2).unwrap_or(0);
                let (a, b) = s.split_at(cut);
                let num = 1234567u32;
                // format strings without run-time arguments too (`Arguments::as_str()` is Some for
                // them: an implementation may take a different path)
                match fmt_kind {
                    0 => (w.write_fmt(format_args!("")), Vec::new()),
                    1 => (w.write_fmt(format_args!("x")), b"x".to_vec()),
                    2 => (w.write_fmt(format_args!("a literal of thirty-three bytes..")), b"a literal of thirty-three bytes..".to_vec()),
                    3 => (w.write_fmt(format_args!("{}", LONG_LITERAL!())), LONG_LITERAL!().as_bytes().to_vec()),
                    _ => (w.write_fmt(format_args!("{a}|{num:>9}|{b}{}", '!')), format!("{a}|{num:>9}|{b}!").into_bytes()),
                }
            } else {
                (w.write_all(&input), input.clone())
            };
            let term = w.script.terminal;
            let zero = w.script.eof_seen;
            let name = if use_fmt { "write_fmt" } else { "write_all" };
            if !expect.starts_with(&w.accepted) {
                viol = v(&format!("{name}|wrong-bytes"), format!("writer accepted {} bytes that are not a prefix of the input (duplicated, skipped or reordered)", w.accepted.len()));
            } else {
                match (&res, term) {
                    (Ok(()), Some(e)) => viol = v(&format!("{name}|error-swallowed"), format!("writer errno {e} swallowed")),
                    (Ok(()), None) => {
                        if w.accepted.len() != expect.len() {
                            viol = v(&format!("{name}|incomplete"), format!("Ok but only {} of {} bytes written", w.accepted.len(), expect.len()));
                        }
                    }
                    (Err(e), Some(code)) => {
                        if !e.matches_errno(Errno::new(code)) {
                            viol = v(&format!("{name}|wrong-error"), format!("writer failed with {code}, got {e:?}"));
                        }
                    }
                    (Err(e), None) => {
                        if !zero {
                            viol = v(&format!("{name}|spurious-error"), format!("returned {e:?} although the writer accepted everything offered"));
                        }
                    }
                }
            }
            if viol.is_none() && w.script.calls_after_terminal > 0 {
                viol = v(&format!("{name}|call-after-error"), format!("{} write call(s) after the writer's terminal error", w.script.calls_after_terminal));
            }
            sample = json!({"op": name, "input_len": expect.len(), "result": format!("{res:?}"), "script": script_json(&w.script.log)});
            log_out = std::mem::take(&mut w.script.log);
        }
    }
    let mut shorts = 0u64;
    let mut eintrs = 0u64;
    let mut errs = 0u64;
    let mut eofs = 0u64;
    trace.mix(u64::from(op), log_out.len() as u64);
    for (len, r) in &log_out {
        let code = match r {
            Resp::Bytes(k) => {
                if *k < *len {
                    shorts += 1;
                }
                *k as u64
            }
            Resp::Eof => {
                eofs += 1;
                1 << 40
            }
            Resp::Eintr => {
                eintrs += 1;
                2 << 40
            }
            Resp::Err(e) => {
                errs += 1;
                (3 << 40) | *e as u64
            }
        };
        trace.mix(*len as u64, code);
        trace.ev(|| format!("call(len={len}) -> {r:?}"));
    }
    counters.push(("fault.short_transfer", shorts));
    counters.push(("fault.eintr", eintrs));
    counters.push(("fault.terminal_error", errs));
    counters.push(("fault.zero_or_eof_before_end", eofs));
    counters.push(("calls", log_out.len() as u64));
    let nontrivial = log_out.len() >= 2 && (shorts + eintrs + errs) > 0;
    Outcome { viol, sample, nontrivial, trace, counters }
}

impl Check for C15 {
    fn id(&self) -> &'static str {
        "C15"
    }
    fn level(&self) -> &'static str {
        "exploration"
    }
    fn engine(&self) -> &'static str {
        "in-process scripted reader/writer (the io traits are the seam)"
    }
    fn cases(&self, tier: Tier) -> u64 {
        match tier {
            Tier::Quick => 2_000_000,
            Tier::Thorough => 200_000_000,
        }
    }
    fn rule(&self) -> String {
        "each case = one seeded script against one helper (read_to_end, read_to_string, read_exact, write_all, write_fmt, and the print!/eprintln! writer of unix::print whose write(2) calls on fd 1/2 are answered by the script at the sc seam): sizes drawn around the 32-byte growth/probe thresholds, initial Vec/String length and capacity incl. exact fit, UTF-8 data with multi-byte characters cut anywhere by short reads, optional invalid byte; every reader/writer call answers by decision with k bytes (1, all, half, random), EOF/0, EINTR (budgeted; one run in 16 is a storm of 17..316 consecutive interruptions) or a terminal errno; per-run swarm of fault rates. non-trivial = >=2 calls and at least one short transfer, EINTR or error; distinct = hash of (helper, sequence of (offered length, response))".into()
    }
    fn assumptions(&self) -> Vec<String> {
        vec![
            "after an error the buffer is required to be old ++ prefix(delivered) (never foreign bytes); the statement fixes the content only for success".into(),
            "exposure of uninitialised memory to the reader cannot be observed in a normal run; a sample of scripts runs under Miri for that (side_check in evidence)".into(),
        ]
    }
    fn components(&self) -> Value {
        json!({"real": ["tiny_std::io::{Read,Write} default methods", "io::read_buf::ReadBuf", "alloc Vec/String"], "stub": ["the reader and the writer (scripted by the decision stream)"]})
    }
    fn side_check(&self, tier: Tier, seed: u64) -> Option<simk::runner::SideResult> {
        // a sample of scripts under Miri: the reader inspects the buffer it is handed, so exposure
        // of uninitialised spare capacity (unobservable in an ordinary run) becomes an error
        let n = if tier == Tier::Thorough { 1500 } else { 48 };
        let t0 = std::time::Instant::now();
        let out = std::process::Command::new("cargo")
            .args(["+nightly", "miri", "run", "-q", "-p", "miri-c15", "--offline", "--", &seed.to_string(), &n.to_string()])
            .current_dir(simk::runner::verif_root())
            .env("MIRIFLAGS", "-Zmiri-disable-isolation")
            .output();
        let mut viol = Vec::new();
        let (status, text) = match out {
            Ok(o) => (o.status.success(), format!("{}{}", String::from_utf8_lossy(&o.stdout), String::from_utf8_lossy(&o.stderr))),
            Err(e) => (false, format!("cannot run cargo miri: {e}")),
        };
        let ok = status && text.contains("MIRI-C15 ok");
        if !ok {
            if text.contains("Undefined Behavior") {
                let line = text.lines().find(|l| l.contains("Undefined Behavior")).unwrap_or("").trim().to_string();
                let kind = if line.contains("uninitialized") { "uninitialized-memory-exposed-to-reader" } else { "other" };
                viol.push(Violation { sig: format!("miri|undefined-behavior|{kind}"), detail: format!("Miri, seed {seed}, {n} scripts: {line}") });
            } else if text.contains("panicked") {
                let line = text.lines().find(|l| l.contains("panicked")).unwrap_or("").trim().to_string();
                viol.push(Violation { sig: "miri|assertion-failed".into(), detail: format!("Miri run, seed {seed}: {line}") });
            } else {
                simk::runner::harness_error(&format!("the Miri sample could not be run: {}", text.lines().rev().take(6).collect::<Vec<_>>().join(" | ")));
            }
        }
        Some(simk::runner::SideResult {
            evidence: json!({"what": "crates/miri-c15 under cargo +nightly miri: scripted readers that read the buffer they are handed (read_to_end / read_to_string, short reads, EINTR, capacities around the growth thresholds)", "scripts": n, "seed": seed, "passed": ok, "wall_s": t0.elapsed().as_secs_f64()}),
            violations: viol,
        })
    }
    fn run(&self, _case: u64, mut dec: Dec, opts: &RunOpts) -> RunOut {
        let r = std::panic::catch_unwind(std::panic::AssertUnwindSafe(|| run_case(&mut dec, opts.record)));
        let mut out = RunOut::default();
        match r {
            Ok(mut o) => {
                out.violation = o.viol;
                out.hash = o.trace.hash;
                out.shape = o.trace.hash;
                out.nontrivial = o.nontrivial;
                out.events = o.trace.events.take().unwrap_or_default();
                out.sample = Some(o.sample);
                for (k, n) in o.counters {
                    *out.counters.entry(k).or_insert(0) += n;
                }
            }
            Err(_) => {
                let (msg, loc) = simk::sched::take_last_panic().unwrap_or_default();
                let loc = simk::sched::short_loc(&loc);
                out.violation = Some(Violation { sig: format!("panic|{loc}"), detail: format!("panic at {loc}: {msg}") });
            }
        }
        out.decisions = std::mem::take(&mut dec.log);
        out
    }
}
