//! C02 — RwLock: writer exclusion, reader sharing, visibility, no lost wake-up, try_* semantics.

use serde_json::{json, Value};
use simk::dec::{Dec, K};
use simk::kern;
use simk::runner::{Check, RunOpts, RunOut, Tier};
use simk::sched::{self, sim, Kernel, Sim, SimCfg};
use simk::vc::Tracked;
use std::cell::Cell;
use std::rc::Rc;
use tiny_std::sync::RwLock;

pub struct C02;

#[derive(Clone, Copy, Debug)]
enum Op {
    Read { m: usize, k: u32 },
    Write { m: usize, k: u32 },
    TryRead { m: usize, k: u32 },
    TryWrite { m: usize, k: u32 },
    Yield,
}

struct Shared {
    locks: Vec<RwLock<Tracked<u64>>>,
    readers: Vec<Cell<i32>>,
    writers: Vec<Cell<i32>>,
    model: Vec<Cell<u64>>,
}

const TAG_IN_TRY: u64 = 1;

struct Kern;

impl Kernel for Kern {
    fn syscall(&self, nr: usize, a: [usize; 6]) -> usize {
        if nr == sc::nr::FUTEX && (a[1] & 0x7f) == 0 {
            let s = sim().unwrap();
            if let Some(c) = s.cur {
                if s.threads[c].tag == TAG_IN_TRY {
                    sched::fail("try|parks", format!("t{c} entered FUTEX_WAIT inside try_read/try_write"));
                }
            }
        }
        kern::default_syscall(nr, a)
    }
}

fn read_section(sh: &Shared, m: usize, k: u32, cell: &Tracked<u64>) {
    sh.readers[m].set(sh.readers[m].get() + 1);
    if sh.writers[m].get() != 0 {
        sched::fail("exclusion|read-with-writer", format!("a read guard of lock {m} exists together with a write guard"));
    }
    if sh.readers[m].get() >= 2 {
        // reach: readers really share the lock
        sim().unwrap().count("probe.two_read_guards_at_once");
    }
    if k == 0 {
        // a section without accesses still lasts for a while: others may run inside it
        sched::yield_now();
        if sh.writers[m].get() != 0 {
            sched::fail("exclusion|read-with-writer", format!("a read guard of lock {m} exists together with a write guard"));
        }
    }
    for _ in 0..k {
        let v = cell.read();
        if sh.writers[m].get() != 0 {
            sched::fail("exclusion|read-with-writer", format!("a read guard of lock {m} exists together with a write guard"));
        }
        if v != sh.model[m].get() {
            sched::fail("visibility|stale-read", format!("reader of lock {m} saw {v}, latest write is {}", sh.model[m].get()));
        }
    }
    sh.readers[m].set(sh.readers[m].get() - 1);
}

fn write_section(sh: &Shared, m: usize, k: u32, tag: u64, cell: &Tracked<u64>) {
    sh.writers[m].set(sh.writers[m].get() + 1);
    let chk = |sh: &Shared| {
        if sh.writers[m].get() != 1 || sh.readers[m].get() != 0 {
            sched::fail(
                "exclusion|write-not-exclusive",
                format!("write guard of lock {m} coexists with {} other write guard(s) and {} read guard(s)", sh.writers[m].get() - 1, sh.readers[m].get()),
            );
        }
    };
    chk(sh);
    if k == 0 {
        sched::yield_now();
        chk(sh);
    }
    for i in 0..k {
        let v = cell.read();
        let nv = v.wrapping_mul(31).wrapping_add(tag * 8 + u64::from(i));
        cell.write(nv);
        sh.model[m].set(sh.model[m].get().wrapping_mul(31).wrapping_add(tag * 8 + u64::from(i)));
        chk(sh);
    }
    sh.writers[m].set(sh.writers[m].get() - 1);
}

fn ev(f: impl FnOnce() -> String) {
    if let Some(s) = sim() {
        s.trace.ev(f);
    }
}

fn thread_body(sh: Rc<Shared>, prog: Vec<Op>, tid_tag: u64) {
    for (i, op) in prog.iter().enumerate() {
        let tag = tid_tag * 16 + i as u64;
        let c = sched::cur_tid();
        match *op {
            Op::Yield => sched::yield_now(),
            Op::Read { m, k } => {
                ev(|| format!("t{c} read(l{m}) ..."));
                let g = sh.locks[m].read();
                ev(|| format!("t{c} holds read guard l{m}"));
                read_section(&sh, m, k, &g);
                drop(g);
                ev(|| format!("t{c} released read guard l{m}"));
            }
            Op::Write { m, k } => {
                ev(|| format!("t{c} write(l{m}) ..."));
                let g = sh.locks[m].write();
                ev(|| format!("t{c} holds write guard l{m}"));
                write_section(&sh, m, k, tag, &g);
                drop(g);
                ev(|| format!("t{c} released write guard l{m}"));
            }
            Op::TryRead { m, k } => {
                sim().unwrap().threads[c].tag = TAG_IN_TRY;
                let r = sh.locks[m].try_read();
                let s = sim().unwrap();
                s.threads[c].tag = 0;
                match r {
                    Some(g) => {
                        s.count("try_read.some");
                        ev(|| format!("t{c} try_read(l{m}) -> guard"));
                        read_section(&sh, m, k, &g);
                        drop(g);
                    }
                    None => {
                        s.count("try_read.none");
                        ev(|| format!("t{c} try_read(l{m}) -> None"));
                    }
                }
            }
            Op::TryWrite { m, k } => {
                sim().unwrap().threads[c].tag = TAG_IN_TRY;
                let r = sh.locks[m].try_write();
                let s = sim().unwrap();
                s.threads[c].tag = 0;
                match r {
                    Some(g) => {
                        s.count("try_write.some");
                        ev(|| format!("t{c} try_write(l{m}) -> guard"));
                        write_section(&sh, m, k, tag, &g);
                        drop(g);
                    }
                    None => {
                        s.count("try_write.none");
                        ev(|| format!("t{c} try_write(l{m}) -> None"));
                    }
                }
            }
        }
    }
}

/// The reader limit: the lock starts with all but `room` of its `MAX_READERS` read guards accounted
/// for (hook `verif_adjust_readers`: as if that many guards had been taken and forgotten), then
/// simulated threads call `try_read` and keep what they get.  "try_read succeeds only when the lock
/// state admits it": no more than `room` of the calls may succeed, `try_write` must fail meanwhile,
/// and after everything was given back the lock admits a writer and then a reader.
/// Only non-blocking calls are used, so a wrong lock cannot hang the run.
fn reader_limit_case(mut sim: Box<Sim>, opts: &RunOpts) -> RunOut {
    let room = sim.dec.choose(K::Cfg, 3);
    let nthreads = 1 + sim.dec.choose(K::Cfg, 3) as usize;
    let calls = 1 + sim.dec.choose(K::Cfg, 3) as usize;
    sim.cas_spurious_left = sim.dec.choose(K::Cfg, 5);
    sim.cas_spurious = [0, 4, 16][sim.dec.choose(K::Cfg, 3) as usize];
    sim.draw_strategy(nthreads);
    let lock: Rc<RwLock<Tracked<u64>>> = Rc::new(RwLock::new(Tracked::new(7, "rwlock-data")));
    let preload = RwLock::<Tracked<u64>>::VERIF_MAX_READERS - room;
    let granted = Rc::new(Cell::new(0u32));
    let kern = Kern;
    sim.set_kernel(&kern);
    lock.verif_adjust_readers(preload, true);
    for i in 0..nthreads {
        let (lock, granted) = (lock.clone(), granted.clone());
        sim.spawn(
            &format!("r{i}"),
            Box::new(move || {
                let c = sched::cur_tid();
                let mut guards = Vec::new();
                for _ in 0..calls {
                    sched::sim().unwrap().threads[c].tag = TAG_IN_TRY;
                    let r = lock.try_read();
                    sched::sim().unwrap().threads[c].tag = 0;
                    if let Some(g) = r {
                        granted.set(granted.get() + 1);
                        ev(|| format!("t{c} try_read at the limit -> guard ({} granted, room {room})", granted.get()));
                        if granted.get() > room {
                            sched::fail("try|read-granted-beyond-the-reader-limit", format!("{} read guards are accounted for (the limit is {}), try_read handed out one more", preload + granted.get() - 1, preload + room));
                        }
                        guards.push(g);
                    } else {
                        ev(|| format!("t{c} try_read at the limit -> None"));
                    }
                    sched::sim().unwrap().threads[c].tag = TAG_IN_TRY;
                    let w = lock.try_write();
                    sched::sim().unwrap().threads[c].tag = 0;
                    if w.is_some() {
                        sched::fail("try|write-granted-among-readers", format!("try_write succeeded while {} read guards are accounted for", preload));
                    }
                    sched::yield_now();
                }
                // guards are given back only after every thread made its calls
                while !guards.is_empty() {
                    let g = guards.pop();
                    granted.set(granted.get() - 1);
                    drop(g);
                }
            }),
        );
    }
    let t0 = sim.mono_ns;
    sched::run(&mut sim);
    if sim.violation.is_none() {
        lock.verif_adjust_readers(preload, false);
        if lock.try_write().is_none() {
            sim.violate("final|left-locked", "after the reader-limit run the lock does not admit a writer".to_string());
        } else if lock.try_read().is_none() {
            sim.violate("final|stale-waiting-state", "after the reader-limit run the lock does not admit a reader".to_string());
        }
    }
    let mut out = RunOut {
        violation: sim.violation.take(),
        hash: sim.trace.hash,
        shape: sim.trace.hash,
        nontrivial: sim.switches >= 1,
        sim_ns: sim.mono_ns - t0,
        steps: sim.steps,
        events: sim.trace.events.take().unwrap_or_default(),
        decisions: std::mem::take(&mut sim.dec.log),
        ..RunOut::default()
    };
    out.counters = std::mem::take(&mut sim.counters);
    out.counters.insert("probe.reader_limit_runs", 1);
    if opts.record {
        out.sample = Some(json!({"family": "reader limit", "threads": nthreads, "try_read_calls_per_thread": calls, "room_below_the_limit": room}));
    }
    out
}

fn describe(progs: &[Vec<Op>]) -> Value {
    Value::Array(
        progs
            .iter()
            .map(|p| Value::Array(p.iter().map(|o| json!(format!("{o:?}"))).collect()))
            .collect(),
    )
}

impl Check for C02 {
    fn id(&self) -> &'static str {
        "C02"
    }
    fn level(&self) -> &'static str {
        "exploration"
    }
    fn engine(&self) -> &'static str {
        "simk (engine A): coroutine scheduler + futex model + atomics seam"
    }
    fn cases(&self, tier: Tier) -> u64 {
        match tier {
            Tier::Quick => 2_000_000,
            Tier::Thorough => 200_000_000,
        }
    }
    fn rule(&self) -> String {
        "each case = one seeded run: 2..4 simulated threads with generated programs (<=6 ops of read/write/try_read/try_write/yield; mix drawn per run: all-readers-but-one, writers only, balanced, try-heavy) over 1..2 RwLocks; the decision stream picks scheduler strategy, the thread at every atomic op / futex call / tracked access, wake targets on both futex words, up to 3 spurious futex returns and EINTRs and up to 4 spurious weak-CAS failures; private and shared futex operations use separate wait queues. After the last guard is gone the lock must admit a writer and then a reader (try_write / try_read: a locked or waiting bit left behind would park the next blocking call for ever). One run in 32 is the reader-limit family: the lock starts with MAX_READERS - room (room 0..2) read guards accounted for through the guarded hook verif_adjust_readers (the state after that many forgotten guards), 1..3 threads make try_read/try_write calls: no more than room read guards may be granted, no write guard. Probe: two read guards at once. non-trivial = at least one thread parked in futex wait AND >=2 context switches; distinct = distinct hash of the full event sequence".into()
    }
    fn assumptions(&self) -> Vec<String> {
        vec![
            "interleavings are sequentially consistent; weakened orderings are detected as missing happens-before edges on the protected data".into(),
            "futex semantics are the simulator's model".into(),
            "a try_* call that returns None is never judged (the property only constrains success and blocking)".into(),
        ]
    }
    fn components(&self) -> Value {
        json!({"real": ["tiny_std::sync::RwLock and its guards", "tiny_std::sync::futex_wait_fast", "rusl::futex::{futex_wait,futex_wake}", "core atomic instructions"], "stub": ["kernel futex wait queue (simulator)", "threads (coroutines)", "thread scheduling (decision stream)"]})
    }

    fn run(&self, _case: u64, dec: Dec, opts: &RunOpts) -> RunOut {
        let mut sim = Sim::new(dec, SimCfg { record: opts.record, est_len: 250, ..SimCfg::default() });
        if sim.dec.chance(K::Cfg, 1, 32) {
            return reader_limit_case(sim, opts);
        }
        let nthreads = 2 + sim.dec.choose(K::Cfg, 3) as usize;
        let nm = 1 + sim.dec.choose(K::Cfg, 2) as usize;
        sim.spurious_futex_left = sim.dec.choose(K::Cfg, 4);
        sim.eintr_left = sim.dec.choose(K::Cfg, 4);
        sim.cas_spurious_left = sim.dec.choose(K::Cfg, 5);
        sim.cas_spurious = [0, 4, 16][sim.dec.choose(K::Cfg, 3) as usize];
        let mix = sim.dec.choose(K::Cfg, 4);
        let mut progs: Vec<Vec<Op>> = Vec::new();
        for t in 0..nthreads {
            let len = 1 + sim.dec.choose(K::Op, 6) as usize;
            let mut p = Vec::new();
            for _ in 0..len {
                let m = sim.dec.choose(K::Arg, nm as u32) as usize;
                let k = sim.dec.choose(K::Arg, 3);
                let r = sim.dec.choose(K::Op, 16);
                let op = match mix {
                    // one writer thread, the rest readers
                    0 => {
                        if t == 0 {
                            if r < 13 { Op::Write { m, k } } else { Op::TryWrite { m, k } }
                        } else if r < 12 {
                            Op::Read { m, k }
                        } else if r < 15 {
                            Op::TryRead { m, k }
                        } else {
                            Op::Yield
                        }
                    }
                    // writers only
                    1 => {
                        if r < 12 { Op::Write { m, k } } else if r < 15 { Op::TryWrite { m, k } } else { Op::Yield }
                    }
                    // balanced
                    2 => match r {
                        0..=5 => Op::Read { m, k },
                        6..=11 => Op::Write { m, k },
                        12 => Op::TryRead { m, k },
                        13 => Op::TryWrite { m, k },
                        _ => Op::Yield,
                    },
                    // try-heavy
                    _ => match r {
                        0..=2 => Op::Read { m, k },
                        3..=5 => Op::Write { m, k },
                        6..=10 => Op::TryRead { m, k },
                        _ => Op::TryWrite { m, k },
                    },
                };
                p.push(op);
            }
            progs.push(p);
        }
        sim.draw_strategy(nthreads);
        let sh = Rc::new(Shared {
            locks: (0..nm).map(|_| RwLock::new(Tracked::new(7, "rwlock-data"))).collect(),
            readers: (0..nm).map(|_| Cell::new(0)).collect(),
            writers: (0..nm).map(|_| Cell::new(0)).collect(),
            model: (0..nm).map(|_| Cell::new(7)).collect(),
        });
        let kern = Kern;
        sim.set_kernel(&kern);
        for (i, p) in progs.iter().enumerate() {
            let (sh, p) = (sh.clone(), p.clone());
            sim.spawn(&format!("w{i}"), Box::new(move || thread_body(sh, p, i as u64 + 1)));
        }
        let t0 = sim.mono_ns;
        sched::run(&mut sim);
        if sim.violation.is_none() {
            for m in 0..nm {
                // quiescence: every guard is gone, so the lock must admit a writer, and then a reader
                // (a locked or waiting bit left behind would park the next write()/read() for ever;
                // a blocking call here would hang the worker instead of reporting)
                let Some(w) = sh.locks[m].try_write() else {
                    sim.violate("final|left-locked", format!("lock {m} does not admit a writer after every thread has dropped its guards"));
                    break;
                };
                drop(w);
                let Some(g) = sh.locks[m].try_read() else {
                    sim.violate("final|stale-waiting-state", format!("lock {m} does not admit a reader although nobody holds or waits for it: the next read() would park for ever"));
                    break;
                };
                let got = g.peek();
                drop(g);
                if got != sh.model[m].get() {
                    sim.violate("visibility|final-value", format!("lock {m}: data {got} != model {}", sh.model[m].get()));
                }
            }
        }
        let parked = sim.counters.get("futex.parked").copied().unwrap_or(0);
        let mut out = RunOut {
            violation: sim.violation.take(),
            hash: sim.trace.hash,
            shape: sim.trace.hash,
            nontrivial: parked >= 1 && sim.switches >= 2,
            sim_ns: sim.mono_ns - t0,
            steps: sim.steps,
            events: sim.trace.events.take().unwrap_or_default(),
            decisions: std::mem::take(&mut sim.dec.log),
            ..RunOut::default()
        };
        out.counters = std::mem::take(&mut sim.counters);
        *out.counters.entry("probe.run_with_futex_park").or_insert(0) += u64::from(parked >= 1);
        if opts.record {
            out.sample = Some(json!({"threads": nthreads, "locks": nm, "mix": mix, "strategy": format!("{:?}", sim.strategy), "programs": describe(&progs)}));
        }
        out
    }
}
