//! C13 — Command::spawn returns only in the caller; the child is what was configured; failures
//! of every step (parent and child side) are reported with their errno and leave nothing running.
//! Real fork/execve/wait4 behind `simk::fdm::PassKernel`; exec target `probes/dumpenv`.

use rusl::platform::Fd;
use rusl::string::unix_str::UnixString;
use serde_json::{json, Value};
use simk::dec::{Dec, K};
use simk::fdm::{self, guard_child, plausible_errnos, shared, sys_name, PassKernel, Plan, Side};
use simk::runner::{Check, RunOpts, RunOut, Tier};
use simk::sched::{self, Sim, SimCfg, Violation};
use std::os::fd::AsRawFd;
use std::sync::OnceLock;
use tiny_std::process::{Command, Stdio};
use tiny_std::{Errno, Error};

pub struct C13;

#[derive(Clone, Copy, Debug, PartialEq)]
enum Io {
    Default,
    Inherit,
    Null,
    Pipe,
    Raw,
    /// one caller-supplied descriptor used for several streams (like `>log 2>&1`)
    RawShared,
    /// the caller's own standard output given as a raw descriptor (for stderr: `2>&1`)
    CallerStdout,
}

#[derive(Clone, Debug)]
struct Cmd {
    missing_bin: bool,
    args: Vec<Vec<u8>>,
    env: Option<Vec<Vec<u8>>>,
    cwd: bool,
    pgroup: bool,
    uid: Option<u32>,
    gid: Option<u32>,
    io: [Io; 3],
    /// pre_exec closures: None = succeeds, Some(e) = fails with errno e, Some(-1) = fails with an
    /// error that carries no errno (Error::Uncategorized)
    closures: Vec<Option<i32>>,
    /// the same Command is spawned twice (fault-free first time); the second spawn is judged
    twice: bool,
    /// the caller has its descriptor 0 closed when it spawns (the kernel then hands 0 out to the
    /// pipe or /dev/null that spawn opens for the child's stdin)
    stdin_closed: bool,
    /// the caller's real user id differs from its effective and saved one when it spawns
    /// (setresuid(65534, 0, 0), the state of a set-uid helper): a configured uid must still end up
    /// in all three ids of the child
    split_ids: bool,
    exit: i32,
}

fn dumpenv_path() -> String {
    let exe = std::env::current_exe().unwrap();
    let dir = exe.parent().unwrap();
    // the probe is built in release mode only; debug workers use it from the sibling directory
    let p = dir.join("dumpenv");
    if p.exists() {
        return p.to_string_lossy().to_string();
    }
    dir.parent().unwrap().join("release").join("dumpenv").to_string_lossy().to_string()
}

fn base_cmds() -> Vec<Cmd> {
    let c = |io: [Io; 3]| Cmd { missing_bin: false, args: vec![], env: None, cwd: false, pgroup: false, uid: None, gid: None, io, closures: vec![], twice: false, stdin_closed: false, split_ids: false, exit: 42 };
    let mut v = vec![
        c([Io::Default; 3]),
        c([Io::Null, Io::Null, Io::Null]),
        c([Io::Pipe, Io::Pipe, Io::Pipe]),
        c([Io::Inherit, Io::Raw, Io::Inherit]),
        c([Io::Null, Io::Pipe, Io::Raw]),
    ];
    let mut a = c([Io::Null, Io::Pipe, Io::Null]);
    a.args = vec![b"first".to_vec(), b"".to_vec(), vec![0xff, 0xfe, b'x'], b"exit=7".to_vec()];
    a.env = Some(vec![b"A=1".to_vec(), b"B=".to_vec(), b"A=2".to_vec(), b"C=x=y".to_vec()]);
    a.cwd = true;
    a.exit = 7;
    v.push(a);
    let mut b = c([Io::Null, Io::Null, Io::Null]);
    b.pgroup = true;
    b.uid = Some(0);
    b.gid = Some(0);
    b.cwd = true;
    b.closures = vec![None, None];
    v.push(b);
    let mut d = c([Io::Null, Io::Null, Io::Null]);
    d.closures = vec![None, Some(13)];
    v.push(d);
    let mut d2 = c([Io::Null, Io::Null, Io::Null]);
    d2.closures = vec![Some(-1)];
    v.push(d2);
    v.push(c([Io::Null, Io::RawShared, Io::RawShared]));
    let mut t2 = c([Io::Null, Io::Pipe, Io::Null]);
    t2.twice = true;
    t2.args = vec![b"again".to_vec()];
    v.push(t2);
    let mut z = c([Io::Pipe, Io::Pipe, Io::Null]);
    z.stdin_closed = true;
    v.push(z);
    let mut z2 = c([Io::Null, Io::Null, Io::Null]);
    z2.stdin_closed = true;
    v.push(z2);
    let mut sp = c([Io::Null, Io::Null, Io::Null]);
    sp.uid = Some(65534);
    sp.split_ids = true;
    v.push(sp);
    v.push(c([Io::Null, Io::Null, Io::CallerStdout]));
    v.push(c([Io::Null, Io::Pipe, Io::CallerStdout]));
    let mut e = c([Io::Pipe, Io::Null, Io::Pipe]);
    e.missing_bin = true;
    v.push(e);
    let mut f = c([Io::Null, Io::Null, Io::Null]);
    f.uid = Some(65534);
    v.push(f);
    let mut g = c([Io::Null, Io::Null, Io::Null]);
    g.gid = Some(65534);
    g.env = Some(vec![]);
    v.push(g);
    v
}

fn gen_cmd(dec: &mut Dec) -> Cmd {
    let pick_io = |dec: &mut Dec| match dec.choose(K::Arg, 6) {
        0 => Io::Default,
        1 => Io::Inherit,
        2 => Io::Null,
        3 => Io::Pipe,
        4 => Io::RawShared,
        _ => Io::Raw,
    };
    let nargs = dec.choose(K::Arg, 7) as usize;
    let mut args = Vec::new();
    for _ in 0..nargs {
        args.push(match dec.choose(K::Arg, 6) {
            0 => Vec::new(),
            1 => vec![0xc3, 0x28, 0xff],
            2 => vec![b'L'; 1 + dec.choose(K::Arg, 5000) as usize],
            3 => b"--flag=value with spaces".to_vec(),
            4 => "ünï©ødé".as_bytes().to_vec(),
            _ => format!("a{}", dec.choose(K::Arg, 100)).into_bytes(),
        });
    }
    let exit = [0, 1, 7, 42, 255][dec.choose(K::Arg, 5) as usize];
    args.push(format!("exit={exit}").into_bytes());
    let env = match dec.choose(K::Arg, 3) {
        0 => None,
        _ => {
            let n = dec.choose(K::Arg, 7) as usize;
            let mut e = Vec::new();
            for i in 0..n {
                e.push(match dec.choose(K::Arg, 5) {
                    0 => b"DUP=1".to_vec(),
                    1 => b"EMPTY=".to_vec(),
                    2 => b"EQ=a=b=c".to_vec(),
                    3 => vec![b'K', b'=', 0xff, 0x80],
                    _ => format!("V{i}=val{i}").into_bytes(),
                });
            }
            Some(e)
        }
    };
    let ncl = dec.choose(K::Arg, 3) as usize;
    let mut closures = vec![None; ncl];
    if ncl > 0 && dec.chance(K::Arg, 1, 4) {
        let i = dec.choose(K::Arg, ncl as u32) as usize;
        closures[i] = Some(*dec.pick(K::Arg, &[1, 13, 28, -1]));
    }
    let (uid, gid) = match dec.choose(K::Arg, 5) {
        0 => (Some(0), Some(0)),
        1 => (Some(65534), None),
        2 => (None, Some(65534)),
        _ => (None, None),
    };
    Cmd {
        missing_bin: dec.chance(K::Arg, 1, 8),
        args,
        env,
        cwd: dec.chance(K::Arg, 1, 2),
        pgroup: dec.chance(K::Arg, 1, 3),
        uid,
        gid,
        io: [pick_io(dec), pick_io(dec), pick_io(dec)],
        closures,
        twice: false,
        stdin_closed: false,
        split_ids: dec.chance(K::Arg, 1, 6),
        exit,
    }
}

fn stat_of(fd: i32) -> (u64, u64) {
    let mut st: libc::stat = unsafe { std::mem::zeroed() };
    unsafe { libc::fstat(fd, &mut st) };
    (st.st_dev, st.st_ino)
}

struct Dump {
    args: Vec<Vec<u8>>,
    env: Vec<Vec<u8>>,
    cwd: Vec<u8>,
    pid: i32,
    pgid: i32,
    uid: u32,
    gid: u32,
    /// effective and saved user id (u32::MAX: the dump has none)
    euid: u32,
    suid: u32,
    fds: [Option<(u64, u64, i32)>; 3],
    complete: bool,
}

fn unhex(s: &str) -> Vec<u8> {
    (0..s.len() / 2).map(|i| u8::from_str_radix(&s[2 * i..2 * i + 2], 16).unwrap_or(0)).collect()
}

fn parse_dump(s: &str) -> Dump {
    let mut d = Dump { args: vec![], env: vec![], cwd: vec![], pid: 0, pgid: 0, uid: 0, gid: 0, euid: u32::MAX, suid: u32::MAX, fds: [None; 3], complete: false };
    for l in s.lines() {
        let (k, v) = l.split_once(' ').unwrap_or((l, ""));
        match k {
            "arg" => d.args.push(unhex(v)),
            "env" => d.env.push(unhex(v)),
            "cwd" => d.cwd = unhex(v),
            "pid" => d.pid = v.parse().unwrap_or(0),
            "pgid" => d.pgid = v.parse().unwrap_or(0),
            "uid" => d.uid = v.parse().unwrap_or(0),
            "gid" => d.gid = v.parse().unwrap_or(0),
            "euid" => d.euid = v.parse().unwrap_or(u32::MAX),
            "suid" => d.suid = v.parse().unwrap_or(u32::MAX),
            "fd0" | "fd1" | "fd2" => {
                let i = (k.as_bytes()[2] - b'0') as usize;
                if v != "closed" {
                    let mut dev = 0;
                    let mut ino = 0;
                    let mut acc = 0;
                    for p in v.split(' ') {
                        if let Some(x) = p.strip_prefix("dev=") {
                            dev = x.parse().unwrap_or(0);
                        } else if let Some(x) = p.strip_prefix("ino=") {
                            ino = x.parse().unwrap_or(0);
                        } else if let Some(x) = p.strip_prefix("acc=") {
                            acc = x.parse().unwrap_or(0);
                        }
                    }
                    d.fds[i] = Some((dev, ino, acc));
                }
            }
            "end" => d.complete = true,
            _ => {}
        }
    }
    d
}

struct Outcome {
    violation: Option<Violation>,
    trace: Vec<usize>,
    child_trace: Vec<usize>,
    fired: bool,
    events: Vec<String>,
    spawned_ok: bool,
    spawn_calls: usize,
}

fn os_code(e: &Error) -> Option<i32> {
    match e {
        Error::Os { code, .. } => Some(code.raw()),
        _ => None,
    }
}

fn run_cmd(cmd: &Cmd, plan: Option<Plan>, dec: Dec, record: bool, slot: u64) -> (Outcome, Dec) {
    let dir = format!("/verif/work/c13.{}.{}", unsafe { libc::getpid() }, slot % 4);
    let _ = std::fs::remove_dir_all(&dir);
    std::fs::create_dir_all(format!("{dir}/cwd")).unwrap();
    unsafe {
        libc::chmod(std::ffi::CString::new(dir.clone()).unwrap().as_ptr(), 0o777);
        libc::chmod(std::ffi::CString::new(format!("{dir}/cwd")).unwrap().as_ptr(), 0o777);
    }
    // the dump channel: descriptor 200, inherited by the child across exec
    let dump_file = std::fs::OpenOptions::new().read(true).write(true).create(true).truncate(true).open(format!("{dir}/dump")).unwrap();
    unsafe {
        libc::fchmod(dump_file.as_raw_fd(), 0o666);
        libc::dup2(dump_file.as_raw_fd(), 200);
    }
    let raw_file = std::fs::OpenOptions::new().read(true).write(true).create(true).truncate(true).open(format!("{dir}/raw")).unwrap();
    let raw_stat = stat_of(raw_file.as_raw_fd());
    let null_stat = {
        let f = std::fs::File::open("/dev/null").unwrap();
        stat_of(f.as_raw_fd())
    };
    // commands that hand over the caller's own stdout run with a file of their own on descriptor 1
    let uses_caller_stdout = cmd.io.iter().any(|i| matches!(i, Io::CallerStdout));
    let saved_stdout = if uses_caller_stdout {
        let f = std::fs::OpenOptions::new().read(true).write(true).create(true).truncate(true).open(format!("{dir}/caller-stdout")).unwrap();
        unsafe {
            let saved = libc::fcntl(1, libc::F_DUPFD_CLOEXEC, 100);
            libc::dup2(f.as_raw_fd(), 1);
            saved
        }
    } else {
        -1
    };
    let inherit_stat = [stat_of(0), stat_of(1), stat_of(2)];
    let saved_stdin = if cmd.stdin_closed {
        unsafe {
            let saved = libc::fcntl(0, libc::F_DUPFD_CLOEXEC, 100);
            libc::close(0);
            saved
        }
    } else {
        -1
    };
    if cmd.split_ids {
        unsafe { libc::setresuid(65534, 0, 0) };
    }
    let my_pgid = unsafe { libc::getpgid(0) };
    let my_cwd = std::env::current_dir().unwrap();

    let bin = UnixString::try_from_string(if cmd.missing_bin { "/nonexistent/verif-dumpenv".to_string() } else { dumpenv_path() }).unwrap();
    let args: Vec<UnixString> = cmd.args.iter().map(|a| UnixString::try_from_bytes(a).unwrap()).collect();
    let cwd = UnixString::try_from_string(format!("{dir}/cwd")).unwrap();

    let k = PassKernel::new();
    k.plan.set(plan);
    let mut sim = Sim::new(dec, SimCfg { record, ..SimCfg::default() });
    sim.set_kernel(&k);
    let mut viol: Option<Violation> = None;
    let mut spawned_ok = false;
    let mut spawn_calls = 0usize;
    let mut raw_fds_to_close: Vec<i32> = Vec::new();
    let mut result: Option<Result<(i32, [Option<(u64, u64)>; 3], Option<i32>), Error>> = None;
    sched::with_installed(&mut sim, || {
        let mut c = Command::new(&bin).unwrap();
        for a in &args {
            c.arg(a);
        }
        if let Some(env) = &cmd.env {
            for e in env {
                c.env(UnixString::try_from_bytes(e).unwrap());
            }
        }
        if cmd.cwd {
            c.cwd(&cwd);
        }
        if cmd.pgroup {
            c.pgroup(0);
        }
        if let Some(u) = cmd.uid {
            c.uid(u);
        }
        if let Some(g) = cmd.gid {
            c.gid(g);
        }
        let mut shared_raw = -1;
        for (i, io) in cmd.io.iter().enumerate() {
            let st = match io {
                Io::Default => None,
                Io::Inherit => Some(Stdio::Inherit),
                Io::Null => Some(Stdio::Null),
                Io::Pipe => Some(Stdio::MakePipe),
                Io::Raw => {
                    let fd = unsafe { libc::dup(raw_file.as_raw_fd()) };
                    raw_fds_to_close.push(fd);
                    Some(Stdio::RawFd(Fd::try_new(fd).unwrap()))
                }
                Io::CallerStdout => Some(Stdio::RawFd(Fd::try_new(1).unwrap())),
                Io::RawShared => {
                    if shared_raw < 0 {
                        shared_raw = unsafe { libc::dup(raw_file.as_raw_fd()) };
                        raw_fds_to_close.push(shared_raw);
                    }
                    Some(Stdio::RawFd(Fd::try_new(shared_raw).unwrap()))
                }
            };
            if let Some(st) = st {
                match i {
                    0 => c.stdin(st),
                    1 => c.stdout(st),
                    _ => c.stderr(st),
                };
            }
        }
        for cl in &cmd.closures {
            let cl = *cl;
            unsafe {
                c.pre_exec(move || match cl {
                    None => Ok(()),
                    Some(-1) => Err(Error::Uncategorized("pre_exec closure (scripted, no errno)")),
                    Some(e) => Err(Error::Os { msg: "pre_exec closure (scripted)", code: Errno::new(e) }),
                });
            }
        }
        let mut r = c.spawn();
        if cmd.twice && plan.is_none() {
            // a Command is a reusable description: spawning it again gives the same child again
            if let Ok(mut first) = r {
                let _ = first.wait();
                drop(first);
                use std::io::Seek;
                let mut f = &dump_file;
                let _ = f.set_len(0);
                let _ = f.rewind();
                r = c.spawn();
            }
        }
        guard_child(k.harness_pid);
        // faults are for spawn's own calls only, not for the harness's wait below
        k.plan.set(None);
        spawn_calls = k.parent_calls.get() as usize;
        result = Some(match r {
            Ok(mut child) => {
                spawned_ok = true;
                let pid = child.get_pid();
                let pipes = [
                    child.stdin.as_ref().map(|p| stat_of(p.borrow_fd_raw())),
                    child.stdout.as_ref().map(|p| stat_of(p.borrow_fd_raw())),
                    child.stderr.as_ref().map(|p| stat_of(p.borrow_fd_raw())),
                ];
                let tw = child.try_wait();
                if tw.is_err() {
                    viol = Some(Violation { sig: "try_wait|error".into(), detail: format!("try_wait failed: {:?}", tw.err()) });
                }
                let st = child.wait().ok();
                drop(child);
                Ok((pid, pipes, st))
            }
            Err(e) => Err(e),
        });
    });
    guard_child(k.harness_pid);
    let (_reaped, killed_or_alive) = {
        // anything still alive now was left behind by spawn
        // a child that is on its way out (failed exec, exit(1)) gets a grace period; only a child
        // that keeps running counts as left behind
        let mut st = 0;
        let mut alive = false;
        for _ in 0..150 {
            let r = unsafe { libc::waitpid(-1, &mut st, libc::WNOHANG) };
            alive = r == 0;
            if !alive {
                break;
            }
            std::thread::sleep(std::time::Duration::from_millis(2));
        }
        let (a, b) = fdm::reap_children();
        (a, u32::from(alive) + b)
    };
    for fd in raw_fds_to_close {
        unsafe { libc::close(fd) };
    }
    if cmd.split_ids {
        unsafe { libc::setresuid(0, 0, 0) };
    }
    if saved_stdin >= 0 {
        unsafe {
            libc::dup2(saved_stdin, 0);
            libc::close(saved_stdin);
        }
    }
    if saved_stdout >= 0 {
        // Stdio::RawFd takes the descriptor over (spawn closes it in the caller): restore ours
        unsafe {
            libc::dup2(saved_stdout, 1);
            libc::close(saved_stdout);
        }
    }
    let sh = shared();
    let trace = k.trace.borrow().clone();
    let child_trace: Vec<usize> = sh.child_trace[..sh.child_trace_len as usize].iter().map(|&x| x as usize).collect();
    let fired = k.fault_fired.get() || sh.child_fault_fired != 0;
    let label = match plan {
        Some(p) if p.side == Side::Parent && (p.index as usize) < trace.len() => PassKernel::label_of(&trace, p.index as usize),
        Some(p) if p.side == Side::Child && (p.index as usize) < child_trace.len() => format!("child:{}", PassKernel::label_of(&child_trace, p.index as usize)),
        Some(_) | None => "no-fault".into(),
    };
    let failing_syscall = match plan {
        Some(p) if fired && p.side == Side::Parent => Some((Side::Parent, trace[p.index as usize], p.errno)),
        Some(p) if fired && p.side == Side::Child => Some((Side::Child, child_trace[p.index as usize], p.errno)),
        _ => None,
    };
    // which outcome does the property demand?
    let closure_fail = cmd.closures.iter().flatten().next().copied();
    let mut unjudged = false;
    let mut expect_err: Option<Option<i32>> = None; // Some(Some(e)) = Err with errno e, Some(None) = Err with any code
    if let Some((side, n, e)) = failing_syscall {
        let transparent = n == sc::nr::CLOSE || (n == sc::nr::READ && e == 4);
        if side == Side::Child && (n == sc::nr::WRITE || n == sc::nr::EXIT) {
            // the child could not report its exec failure: a second, unrelated failure; not judged
            unjudged = true;
        } else if !transparent {
            expect_err = Some(if n == sc::nr::READ || n == sc::nr::WAIT4 { None } else { Some(e) });
        }
    }
    if expect_err.is_none() {
        // no injected step failure that must surface: natural failures decide (closures run before exec)
        if let Some(e) = closure_fail {
            // a closure error without errno must still fail the spawn (with any error)
            expect_err = Some(if e == -1 { None } else { Some(e) });
        } else if cmd.missing_bin {
            expect_err = Some(Some(2));
        }
    }

    if viol.is_none() && sh.returned_in_child != 0 {
        viol = Some(Violation { sig: format!("returned-in-child|{label}"), detail: format!("with {label} failing, Command::spawn returned in the forked child as well: a second process ran the caller's code") });
    }
    if viol.is_none() && !unjudged {
        match (&result, expect_err) {
            (Some(Ok(_)), Some(e)) => {
                viol = Some(Violation { sig: format!("failure-reported-as-success|{label}"), detail: format!("step {label} failed (errno {e:?}, closure failure {closure_fail:?}, missing binary {}) but spawn returned Ok", cmd.missing_bin) });
            }
            (Some(Err(err)), Some(Some(e))) => {
                if os_code(err) != Some(e) {
                    viol = Some(Violation { sig: format!("wrong-errno|{label}"), detail: format!("step {label} failed with errno {e}; spawn returned {err:?}") });
                }
            }
            (Some(Err(_)), Some(None)) => {}
            (Some(Err(err)), None) if cmd.stdin_closed && os_code(err) == Some(22) => {
                // with descriptor 0 free, the pipe / null device opened for the child's stdin *is*
                // descriptor 0 and dup3(0, 0) fails with EINVAL: an error carrying that step's
                // errno, which is what the statement asks for.  (Ok with the right streams is fine too.)
            }
            (Some(Err(err)), None) => {
                viol = Some(Violation { sig: format!("spurious-error|{label}"), detail: format!("no step that must fail the spawn failed ({label}), yet spawn returned {err:?}") });
            }
            (Some(Ok((pid, pipes, status))), None) => {
                let mut s = String::new();
                use std::io::{Read, Seek};
                let mut f = &dump_file;
                let _ = f.rewind();
                let _ = f.read_to_string(&mut s);
                let d = parse_dump(&s);
                let mut exp_args: Vec<Vec<u8>> = vec![bin.as_slice()[..bin.as_slice().len() - 1].to_vec()];
                exp_args.extend(cmd.args.iter().cloned());
                let exp_env: Vec<Vec<u8>> = cmd.env.clone().unwrap_or_default();
                let mism = |what: &str, detail: String| Some(Violation { sig: format!("child-differs|{what}|{label}"), detail });
                if !d.complete {
                    viol = mism("no-dump", format!("spawn returned Ok but the program did not run to completion (dump: {} bytes)", s.len()));
                } else if d.pid != *pid {
                    viol = mism("pid", format!("Child::get_pid {} but the program ran as {}", pid, d.pid));
                } else if d.args != exp_args {
                    viol = mism("argv", format!("argv differs: configured {} arguments, program saw {}", exp_args.len(), d.args.len()));
                } else if d.env != exp_env {
                    viol = mism("env", format!("environment differs: configured {:?}, program saw {:?}", exp_env.iter().map(|e| String::from_utf8_lossy(e).to_string()).collect::<Vec<_>>(), d.env.iter().map(|e| String::from_utf8_lossy(e).to_string()).collect::<Vec<_>>()));
                } else if cmd.cwd && d.cwd != format!("{dir}/cwd").into_bytes() || !cmd.cwd && d.cwd != my_cwd.to_string_lossy().as_bytes() {
                    viol = mism("cwd", format!("cwd is {}", String::from_utf8_lossy(&d.cwd)));
                } else if cmd.pgroup && d.pgid != d.pid || !cmd.pgroup && d.pgid != my_pgid {
                    viol = mism("pgid", format!("pgid {} (pid {}, caller's pgid {my_pgid}, pgroup configured: {})", d.pgid, d.pid, cmd.pgroup));
                } else if d.uid != cmd.uid.unwrap_or(if cmd.split_ids { 65534 } else { 0 }) || d.gid != cmd.gid.unwrap_or(0) {
                    viol = mism("ids", format!("uid/gid {}/{} configured {:?}/{:?}", d.uid, d.gid, cmd.uid, cmd.gid));
                } else if d.euid != u32::MAX && (d.euid != cmd.uid.unwrap_or(0) || d.suid != cmd.uid.unwrap_or(0)) {
                    viol = mism("ids", format!("effective/saved uid {}/{} (real {}), configured {:?}, the caller's real/effective/saved uid were {}/0/0", d.euid, d.suid, d.uid, cmd.uid, if cmd.split_ids { 65534 } else { 0 }));
                } else {
                    for i in 0..3 {
                        let exp = match cmd.io[i] {
                            Io::Default | Io::Inherit => Some(inherit_stat[i]),
                            Io::Null => Some(null_stat),
                            Io::Raw | Io::RawShared => Some(raw_stat),
                            Io::CallerStdout => Some(inherit_stat[1]),
                            Io::Pipe => pipes[i],
                        };
                        let got = d.fds[i].map(|(a, b, _)| (a, b));
                        if got != exp {
                            viol = mism("stdio", format!("stream {i} configured {:?}: program's descriptor is {:?}, expected {:?}", cmd.io[i], d.fds[i], exp));
                            break;
                        }
                        // both ends of a pipe are one inode: the direction tells them apart
                        if matches!(cmd.io[i], Io::Null | Io::Pipe) {
                            let want_acc = u64::from(i != 0);
                            if let Some((_, _, acc)) = d.fds[i] {
                                if (acc & 3) as u64 != want_acc {
                                    viol = mism("stdio-direction", format!("stream {i} configured {:?}: the program's descriptor has access mode {acc}, expected {want_acc} (0 read, 1 write)", cmd.io[i]));
                                    break;
                                }
                            }
                        }
                    }
                }
                if viol.is_none() && *status != Some(cmd.exit << 8) {
                    viol = Some(Violation { sig: format!("wait-status|{label}"), detail: format!("program exited with code {}, wait reported {:?}", cmd.exit, status) });
                }
            }
            (None, _) => {}
        }
    }
    let before_exec_failed = (plan.is_none() || plan.is_some_and(|p| p.side == Side::Child)) && expect_err.is_some();
    if viol.is_none() && !unjudged && before_exec_failed && matches!(result, Some(Err(_))) {
        // a step before exec (or exec itself) failed in the child: then the program was never
        // executed (a parent-side failure after fork says nothing about that)
        let len = std::fs::metadata(format!("{dir}/dump")).map(|m| m.len()).unwrap_or(0);
        if len > 0 {
            viol = Some(Violation { sig: format!("program-ran-although-error|{label}"), detail: format!("spawn returned an error ({label}) but the requested program ran (it wrote {len} bytes of dump)") });
        }
    }
    if viol.is_none() && killed_or_alive > 0 && matches!(result, Some(Err(_))) {
        viol = Some(Violation { sig: format!("child-left-running|{label}"), detail: format!("spawn returned an error ({label}) but a child process was still alive afterwards") });
    }
    unsafe { libc::close(200) };
    let _ = std::fs::remove_dir_all(&dir);
    let events = sim.trace.events.take().unwrap_or_default();
    let dec = std::mem::replace(&mut sim.dec, Dec::from_list(Vec::new()));
    (Outcome { violation: viol, trace, child_trace, fired, events, spawned_ok, spawn_calls }, dec)
}

trait BorrowRaw {
    fn borrow_fd_raw(&self) -> i32;
}
impl BorrowRaw for tiny_std::process::AnonPipe {
    fn borrow_fd_raw(&self) -> i32 {
        use tiny_std::unix::fd::AsRawFd as _;
        self.borrow_fd().as_raw_fd().value()
    }
}

// ---------- the `start` build: no-libc probe with Environment::Inherit ----------

fn spawn_probe_path() -> String {
    let root = simk::runner::verif_root();
    root.join("target/probes/release/spawn-probe").to_string_lossy().to_string()
}

/// One case of the `start` build: the probe (tiny-std with `executable`) spawns dumpenv with the
/// default, inherited environment; one of the probe's own system calls may be failed from argv.
fn start_probe_case(dec: &mut Dec, record: bool, slot: u64) -> RunOut {
    use std::os::unix::ffi::OsStrExt;
    use std::os::unix::process::CommandExt;
    let mut out = RunOut::default();
    let dir = format!("/verif/work/c13s.{}.{}", unsafe { libc::getpid() }, slot % 4);
    let _ = std::fs::remove_dir_all(&dir);
    std::fs::create_dir_all(&dir).unwrap();
    // the environment the probe is started with = what its child must inherit
    let nenv = dec.choose(K::Arg, 7) as usize;
    let mut env: Vec<(Vec<u8>, Vec<u8>)> = Vec::new();
    for i in 0..nenv {
        let key = format!("K{i:02}").into_bytes();
        let val = match dec.choose(K::Arg, 5) {
            0 => Vec::new(),
            1 => b"a=b=c".to_vec(),
            2 => vec![0xff, 0x80, b'x'],
            3 => vec![b'v'; 1 + dec.choose(K::Arg, 3000) as usize],
            _ => format!("val{i}").into_bytes(),
        };
        env.push((key, val));
    }
    let nargs = dec.choose(K::Arg, 4) as usize;
    let exit = [0, 3, 42][dec.choose(K::Arg, 3) as usize];
    let mut args: Vec<Vec<u8>> = (0..nargs)
        .map(|i| match dec.choose(K::Arg, 3) {
            0 => Vec::new(),
            1 => vec![0xc3, 0x28],
            _ => format!("arg{i}").into_bytes(),
        })
        .collect();
    args.push(format!("exit={exit}").into_bytes());
    let stdio_null = dec.chance(K::Arg, 1, 2);
    // half of the cases replace the inherited environment by a provided one (Command::env)
    let provided: Vec<Vec<u8>> = if dec.chance(K::Arg, 1, 2) {
        (0..1 + dec.choose(K::Arg, 5)).map(|i| match dec.choose(K::Arg, 4) {
            0 => format!("P{i}=").into_bytes(),
            1 => b"DUP=1".to_vec(),
            2 => format!("P{i}=x=y").into_bytes(),
            _ => format!("P{i}=v{i}").into_bytes(),
        }).collect()
    } else {
        Vec::new()
    };
    let (side, index, errno) = if dec.chance(K::Fault, 2, 3) {
        (1 + dec.choose(K::Fault, 2), dec.choose(K::Fault, 14), *dec.pick(K::Fault, &[1, 2, 4, 5, 9, 11, 12, 13, 24]))
    } else {
        (0, 0, 0)
    };
    let dump = std::fs::OpenOptions::new().read(true).write(true).create(true).truncate(true).open(format!("{dir}/dump")).unwrap();
    let rep = std::fs::OpenOptions::new().read(true).write(true).create(true).truncate(true).open(format!("{dir}/report")).unwrap();
    let (dfd, rfd) = (dump.as_raw_fd(), rep.as_raw_fd());
    let mut c = std::process::Command::new(spawn_probe_path());
    c.arg(dumpenv_path()).arg(side.to_string()).arg(index.to_string()).arg(errno.to_string()).arg(if stdio_null { "1" } else { "0" });
    c.arg(provided.len().to_string());
    for e in &provided {
        c.arg(std::ffi::OsStr::from_bytes(e));
    }
    for a in &args {
        c.arg(std::ffi::OsStr::from_bytes(a));
    }
    c.env_clear();
    for (k, v) in &env {
        c.env(std::ffi::OsStr::from_bytes(k), std::ffi::OsStr::from_bytes(v));
    }
    c.stdin(std::process::Stdio::null()).stdout(std::process::Stdio::null()).stderr(std::process::Stdio::null());
    unsafe {
        c.pre_exec(move || {
            libc::dup2(dfd, 200);
            libc::dup2(rfd, 201);
            Ok(())
        });
    }
    let status = c.status();
    let report = std::fs::read_to_string(format!("{dir}/report")).unwrap_or_default();
    let dump_s = std::fs::read_to_string(format!("{dir}/dump")).unwrap_or_default();
    let _ = std::fs::remove_dir_all(&dir);
    let mut fired_nr: Option<(Side, usize)> = None;
    let mut spawn_ok = false;
    let mut err_code: Option<i32> = None;
    let mut wait_status: Option<i32> = None;
    let mut pid = 0;
    for l in report.lines() {
        if let Some(r) = l.strip_prefix("spawn ok pid=") {
            spawn_ok = true;
            pid = r.parse().unwrap_or(0);
        } else if let Some(r) = l.strip_prefix("spawn err code=") {
            err_code = r.parse().ok();
        } else if let Some(r) = l.strip_prefix("wait status=") {
            wait_status = r.parse().ok();
        } else if l.starts_with("calls ") {
            for part in l.split(' ') {
                if let Some(v) = part.strip_prefix("child_fired_nr=") {
                    let n: usize = v.parse().unwrap_or(0);
                    if n > 0 {
                        fired_nr = Some((Side::Child, n - 1));
                    }
                } else if let Some(v) = part.strip_prefix("parent_fired_nr=") {
                    let n: usize = v.parse().unwrap_or(0);
                    if n > 0 {
                        fired_nr = Some((Side::Parent, n - 1));
                    }
                }
            }
        }
    }
    let label = match fired_nr {
        Some((Side::Parent, n)) => format!("start-build|{}", sys_name(n)),
        Some((Side::Child, n)) => format!("start-build|child:{}", sys_name(n)),
        None => "start-build|no-fault".to_string(),
    };
    let mut viol: Option<Violation> = None;
    let complete = report.contains("end\n") || report.ends_with("end\n") || report.lines().any(|l| l == "end");
    if report.contains("returned-in-child") {
        viol = Some(Violation { sig: format!("returned-in-child|{label}"), detail: format!("{label}: spawn returned in the forked child as well") });
    } else if !complete {
        viol = Some(Violation { sig: format!("probe-died|{label}"), detail: format!("the probe did not finish (status {status:?}); report: {report:?}") });
    } else {
        let mut unjudged = false;
        let mut expect_err: Option<Option<i32>> = None;
        if let Some((sd, n)) = fired_nr {
            let transparent = n == sc::nr::CLOSE || (n == sc::nr::READ && errno == 4);
            if sd == Side::Child && (n == sc::nr::WRITE || n == sc::nr::EXIT) {
                unjudged = true;
            } else if !transparent {
                expect_err = Some(if n == sc::nr::READ || n == sc::nr::WAIT4 { None } else { Some(errno as i32) });
            }
        }
        if !unjudged {
            match (spawn_ok, expect_err) {
                (true, Some(e)) => viol = Some(Violation { sig: format!("failure-reported-as-success|{label}"), detail: format!("{label} failed (errno {e:?}) but spawn returned Ok") }),
                (false, Some(Some(e))) => {
                    if err_code != Some(e) {
                        viol = Some(Violation { sig: format!("wrong-errno|{label}"), detail: format!("{label} failed with errno {e}, spawn reported code {err_code:?}") });
                    }
                }
                (false, Some(None)) => {}
                (false, None) => viol = Some(Violation { sig: format!("spurious-error|{label}"), detail: format!("no step failed, spawn reported code {err_code:?}") }),
                (true, None) => {
                    let d = parse_dump(&dump_s);
                    let mut exp_args: Vec<Vec<u8>> = vec![dumpenv_path().into_bytes()];
                    exp_args.extend(args.iter().cloned());
                    let exp_env: Vec<Vec<u8>> = env.iter().map(|(k, v)| [k.as_slice(), b"=", v.as_slice()].concat()).collect();
                    let mut got_env = d.env.clone();
                    let mut want_env = if provided.is_empty() { exp_env.clone() } else { provided.clone() };
                    if provided.is_empty() {
                        got_env.sort();
                        want_env.sort();
                    }
                    if !d.complete {
                        viol = Some(Violation { sig: format!("child-differs|no-dump|{label}"), detail: "spawn returned Ok but the program did not run to completion".into() });
                    } else if d.pid != pid {
                        viol = Some(Violation { sig: format!("child-differs|pid|{label}"), detail: format!("Child::get_pid {pid}, program ran as {}", d.pid) });
                    } else if d.args != exp_args {
                        viol = Some(Violation { sig: format!("child-differs|argv|{label}"), detail: format!("argv differs: {} configured, {} seen", exp_args.len(), d.args.len()) });
                    } else if got_env != want_env {
                        viol = Some(Violation { sig: format!("child-differs|{}|{label}", if provided.is_empty() { "inherited-env" } else { "provided-env" }), detail: format!("environment differs: expected {} entries, program saw {}", want_env.len(), got_env.len()) });
                    } else if wait_status != Some(exit << 8) {
                        viol = Some(Violation { sig: format!("wait-status|{label}"), detail: format!("exit code {exit}, wait reported {wait_status:?}") });
                    }
                }
            }
        }
    }
    out.violation = viol;
    out.hash = simk::dec::mix(&[simk::dec::hash_str(&report.lines().filter(|l| !l.contains("pid=")).collect::<Vec<_>>().join("|")), u64::from(side), u64::from(index), errno as u64]);
    out.shape = out.hash;
    out.nontrivial = fired_nr.is_some();
    out.counters.insert("probe.start_build_cases", 1);
    out.counters.insert("fault.start_build_parent_side_fired", u64::from(matches!(fired_nr, Some((Side::Parent, _)))));
    out.counters.insert("fault.start_build_child_side_fired", u64::from(matches!(fired_nr, Some((Side::Child, _)))));
    if record {
        out.events = report.lines().map(String::from).collect();
        out.sample = Some(json!({"command": "start build (no-libc spawn-probe, Environment::Inherit)", "env_entries": nenv, "args": args.len(), "plan": format!("side {side} index {index} errno {errno}"), "report": report}));
    }
    out
}

struct Table {
    cases: Vec<(usize, Option<Plan>)>,
}
static TABLE: OnceLock<Table> = OnceLock::new();

fn table() -> &'static Table {
    TABLE.get_or_init(|| {
        let cmds = base_cmds();
        let mut cases = Vec::new();
        for (i, c) in cmds.iter().enumerate() {
            let (o, _) = run_cmd(c, None, Dec::from_list(Vec::new()), false, 0);
            cases.push((i, None));
            for (idx, n) in o.trace.iter().enumerate().take(o.spawn_calls) {
                for &e in plausible_errnos(*n) {
                    cases.push((i, Some(Plan { side: Side::Parent, index: idx as u32, errno: e })));
                }
            }
            for (idx, n) in o.child_trace.iter().enumerate() {
                if *n == sc::nr::EXIT || *n == sc::nr::WRITE {
                    continue;
                }
                for &e in plausible_errnos(*n) {
                    cases.push((i, Some(Plan { side: Side::Child, index: idx as u32, errno: e })));
                }
            }
        }
        Table { cases }
    })
}

impl Check for C13 {
    fn id(&self) -> &'static str {
        "C13"
    }
    fn level(&self) -> &'static str {
        "fault_enumeration"
    }
    fn engine(&self) -> &'static str {
        "simk (engine A): pass-through kernel with single-fault plans on both sides of a real fork/exec"
    }
    fn cases(&self, tier: Tier) -> u64 {
        table().cases.len() as u64 + if tier == Tier::Thorough { 300_000 } else { 3_000 }
    }
    fn workers(&self, _tier: Tier) -> usize {
        12
    }
    fn rule(&self) -> String {
        "enumeration part (complete): 18 base commands (every stdio mode per stream, args incl. empty and non-UTF-8, provided environment with duplicates/empty values/'=' in values, cwd, pgroup, uid/gid current and 65534, succeeding and failing pre_exec closures incl. one failing without an errno, missing binary, one Command spawned twice, two with the caller's descriptor 0 closed) x every system-call index of the recorded parent trace and of the child trace between fork and exec x every plausible errno. seeded part: generated commands (0..7 args incl. 5000-byte and invalid UTF-8, 0..6 env entries, all options) with no fault or one drawn single fault. Oracle: code placed right after spawn() compares pids (a forked copy that gets there reports through a shared page); Ok => the exec target's dump (argv, raw environment block, cwd, pgid, uid/gid, identity of descriptors 0-2) equals the configuration and wait() yields its exit status; a failing step => Err with that step's errno and no child left alive. non-trivial = a fault fired or a closure/exec failure was configured; distinct = hash of (command, trace, plan)".into()
    }
    fn assumptions(&self) -> Vec<String> {
        vec![
            "engine A links tiny-std without the `start` feature (Environment::Inherit does not exist there); the `start` build runs as a separate no-libc probe (probes/spawnprobe, a quarter of the seeded cases) that inherits a generated environment and can fail one of its own calls through the sc shim".into(),
            "faults on close, on an EINTR read of the sync pipe, and on the child's write/exit after a failed exec are treated as transparent (spawn may succeed)".into(),
            "parent and child really run concurrently; the CLOEXEC pipe makes the outcome schedule-independent".into(),
        ]
    }
    fn components(&self) -> Value {
        json!({"real": ["tiny_std::process::Command / do_spawn / Child", "rusl wrappers", "the kernel's fork, execve, wait4, pipes", "exec target probes/dumpenv"], "stub": ["the failing call on either side of fork (replaced by -errno at the sc seam)"]})
    }
    fn extra(&self, _tier: Tier) -> Value {
        json!({"single_fault_cases": table().cases.len(), "base_commands": base_cmds().len()})
    }
    fn run(&self, case: u64, mut dec: Dec, opts: &RunOpts) -> RunOut {
        let t = table();
        if (case as usize) >= t.cases.len() && case % 4 == 3 {
            let mut o = start_probe_case(&mut dec, opts.record, case);
            o.decisions = std::mem::take(&mut dec.log);
            return o;
        }
        let (cmd, plan, which) = if (case as usize) < t.cases.len() {
            let (i, p) = t.cases[case as usize];
            (base_cmds()[i].clone(), p, format!("base#{i}"))
        } else {
            let c = gen_cmd(&mut dec);
            // probe run to learn the trace, then maybe one fault
            let plan = if dec.chance(K::Fault, 1, 2) {
                let side = if dec.chance(K::Fault, 1, 2) { Side::Child } else { Side::Parent };
                let idx = dec.choose(K::Fault, 24);
                let e = *dec.pick(K::Fault, &[1, 2, 4, 5, 9, 11, 12, 13, 24]);
                Some(Plan { side, index: idx, errno: e })
            } else {
                None
            };
            (c, plan, "generated".to_string())
        };
        // a drawn plan may hit a call for which the errno is implausible or transparent; fine
        let plan = plan.filter(|p| !(p.side == Side::Child && which == "generated" && p.index == 0));
        let (o, mut dec) = run_cmd(&cmd, plan, dec, opts.record, case);
        let mut out = RunOut::default();
        let mut h = simk::dec::hash_str(&format!("{cmd:?}"));
        // only spawn's own calls: the harness's try_wait/wait afterwards race with the real child
        for n in o.trace.iter().take(o.spawn_calls).chain(o.child_trace.iter()) {
            h = simk::dec::mix(&[h, *n as u64]);
        }
        h = simk::dec::mix(&[h, plan.map_or(0, |p| u64::from(p.index) << 16 | p.errno as u64 | if p.side == Side::Child { 1 << 40 } else { 0 })]);
        if std::env::var("C13_DEBUG").is_ok() {
            eprintln!("trace={:?} child={:?} plan={plan:?} cmdhash={:x}", o.trace, o.child_trace, simk::dec::hash_str(&format!("{cmd:?}")));
        }
        out.violation = o.violation;
        out.hash = h;
        out.shape = h;
        out.nontrivial = o.fired || cmd.missing_bin || cmd.closures.iter().any(Option::is_some);
        out.events = o.events;
        out.decisions = std::mem::take(&mut dec.log);
        out.counters.insert("fault.parent_side_fired", u64::from(o.fired && plan.is_some_and(|p| p.side == Side::Parent)));
        out.counters.insert("fault.child_side_fired", u64::from(o.fired && plan.is_some_and(|p| p.side == Side::Child)));
        out.counters.insert("probe.spawn_ok_and_dump_compared", u64::from(o.spawned_ok));
        out.counters.insert("probe.plan_not_reached", u64::from(plan.is_some() && !o.fired));
        if opts.record {
            out.sample = Some(json!({"command": which, "cfg": format!("{cmd:?}").chars().take(400).collect::<String>(), "plan": plan.map(|p| format!("{:?} call {} -> errno {}", p.side, p.index, p.errno)), "parent_trace": o.trace.iter().map(|n| sys_name(*n)).collect::<Vec<_>>(), "child_trace": o.child_trace.iter().map(|n| sys_name(*n)).collect::<Vec<_>>()}));
        }
        out
    }
}
