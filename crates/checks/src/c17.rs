//! C17 — io_uring ring hand-over: exactly-once, in-order, across index wrap.
//! The unmodified `setup_io_uring` builds its `IoUring` over ring memory owned by a simulated
//! kernel actor (the ring stub); application calls and kernel steps interleave by decision.

use rusl::platform::{IoUringParamFlags, IoUringSubmissionQueueEntry};
use serde_json::{json, Value};
use simk::dec::{Dec, K};
use simk::kern::neg;
use simk::runner::{Check, RunOpts, RunOut, Tier};
use simk::sched::{self, Kernel, Sim, SimCfg, Violation};
use std::cell::{Cell, RefCell};
use std::collections::VecDeque;
use std::sync::atomic::{AtomicU32, Ordering};

pub struct C17;

const OFF_SQ_RING: usize = 0;
const OFF_CQ_RING: usize = 0x800_0000;
const OFF_SQES: usize = 0x1000_0000;
const FEAT_SINGLE_MMAP: u32 = 1;
const SETUP_SQE128: u32 = 1 << 10;
const SETUP_CQE32: u32 = 1 << 11;

/// Ring memory and the kernel side of the protocol.
pub struct RingStub {
    mem: Vec<u64>,
    pub sq_entries: u32,
    pub cq_entries: u32,
    pub single_mmap: bool,
    pub sqe_size: usize,
    pub cqe_size: usize,
    sq_ring: usize,
    cq_ring: usize,
    sqes: usize,
    pub sq_ring_len: usize,
    pub cq_ring_len: usize,
    pub sqes_len: usize,
    pub fd: Cell<i32>,
    pub start: u32,
    pub cq_start: u32,
    /// (addr, len) of munmap calls on stub memory, and close count
    pub unmaps: RefCell<Vec<(usize, usize)>>,
    pub maps: RefCell<Vec<(usize, usize)>>,
    pub closes: Cell<u32>,
    pub fail_setup: Cell<bool>,
    /// fail the k-th mmap of the ring (0-based) with ENOMEM, once
    pub fail_mmap_at: Cell<Option<u32>>,
    pub mmap_calls: Cell<u32>,
    pub mmap_failed: Cell<bool>,
}

// ring header layout used by the stub (any layout is legal: the offsets travel in io_uring_params)
const H_HEAD: usize = 0;
const H_TAIL: usize = 4;
const H_MASK: usize = 8;
const H_ENTRIES: usize = 12;
const H_FLAGS: usize = 16;
const H_DROPPED: usize = 20; // SQ: dropped, CQ: overflow
const H_ARRAY: usize = 64; // SQ: index array, CQ: cqes

impl RingStub {
    pub fn new(sq_entries: u32, cq_entries: u32, single_mmap: bool, sqe128: bool, cqe32: bool, start: u32, cq_start: u32) -> RingStub {
        let sqe_size = if sqe128 { 128 } else { 64 };
        let cqe_size = if cqe32 { 32 } else { 16 };
        let sq_ring_len = H_ARRAY + 4 * sq_entries as usize;
        let cq_ring_len = H_ARRAY + cqe_size * cq_entries as usize;
        let sqes_len = sqe_size * sq_entries as usize;
        // one allocation, page-separated regions so that a wrong munmap length is visible in the ledger
        let total = 3 * 8192 + sq_ring_len + cq_ring_len + sqes_len;
        let mem = vec![0u64; total / 8 + 8];
        let base = mem.as_ptr() as usize;
        let (sq_ring, cq_ring) = if single_mmap {
            // one mapping: CQ ring follows the SQ ring in the same region
            let sq = base;
            (sq, sq + ((sq_ring_len + 63) & !63))
        } else {
            (base, base + 8192 + ((sq_ring_len + 63) & !63))
        };
        let sqes = cq_ring + 8192 + ((cq_ring_len + 63) & !63);
        let s = RingStub {
            mem,
            sq_entries,
            cq_entries,
            single_mmap,
            sqe_size,
            cqe_size,
            sq_ring,
            cq_ring,
            sqes,
            sq_ring_len,
            cq_ring_len,
            sqes_len,
            fd: Cell::new(-1),
            start,
            cq_start,
            unmaps: RefCell::new(Vec::new()),
            maps: RefCell::new(Vec::new()),
            closes: Cell::new(0),
            fail_setup: Cell::new(false),
            fail_mmap_at: Cell::new(None),
            mmap_calls: Cell::new(0),
            mmap_failed: Cell::new(false),
        };
        s.a32(s.sq_ring + H_HEAD).store(start, Ordering::SeqCst);
        s.a32(s.sq_ring + H_TAIL).store(start, Ordering::SeqCst);
        s.a32(s.sq_ring + H_MASK).store(sq_entries - 1, Ordering::SeqCst);
        s.a32(s.sq_ring + H_ENTRIES).store(sq_entries, Ordering::SeqCst);
        s.a32(s.cq_ring + H_HEAD).store(cq_start, Ordering::SeqCst);
        s.a32(s.cq_ring + H_TAIL).store(cq_start, Ordering::SeqCst);
        s.a32(s.cq_ring + H_MASK).store(cq_entries - 1, Ordering::SeqCst);
        s.a32(s.cq_ring + H_ENTRIES).store(cq_entries, Ordering::SeqCst);
        let _ = &s.mem;
        s
    }

    fn a32(&self, addr: usize) -> &AtomicU32 {
        unsafe { &*(addr as *const AtomicU32) }
    }

    pub fn sq_head(&self) -> u32 {
        self.a32(self.sq_ring + H_HEAD).load(Ordering::SeqCst)
    }
    /// the kernel's flags word of the submission ring (IORING_SQ_NEED_WAKEUP = 1, CQ_OVERFLOW = 2, TASKRUN = 4)
    pub fn set_sq_flags(&self, v: u32) {
        self.a32(self.sq_ring + H_FLAGS).store(v, Ordering::SeqCst);
    }
    pub fn sq_tail(&self) -> u32 {
        self.a32(self.sq_ring + H_TAIL).load(Ordering::SeqCst)
    }
    pub fn cq_head(&self) -> u32 {
        self.a32(self.cq_ring + H_HEAD).load(Ordering::SeqCst)
    }
    pub fn cq_tail(&self) -> u32 {
        self.a32(self.cq_ring + H_TAIL).load(Ordering::SeqCst)
    }

    /// Kernel consumes one published submission; returns the user_data it found.
    pub fn consume_one(&self) -> Option<(u32, u64)> {
        let head = self.sq_head();
        let tail = self.a32(self.sq_ring + H_TAIL).load(Ordering::Acquire);
        if head == tail {
            return None;
        }
        let slot = head & (self.sq_entries - 1);
        let idx = self.a32(self.sq_ring + H_ARRAY + 4 * slot as usize).load(Ordering::Acquire);
        let sqe = self.sqes + self.sqe_size * (idx & (self.sq_entries - 1)) as usize;
        let ud = unsafe { *((sqe + 32) as *const u64) };
        self.a32(self.sq_ring + H_HEAD).store(head.wrapping_add(1), Ordering::Release);
        Some((idx, ud))
    }

    pub fn cq_space(&self) -> u32 {
        self.cq_entries - self.cq_tail().wrapping_sub(self.cq_head())
    }

    /// Kernel posts one completion (caller checked for space).
    pub fn post(&self, user_data: u64, res: i32) {
        let tail = self.cq_tail();
        let slot = (tail & (self.cq_entries - 1)) as usize;
        let cqe = self.cq_ring + H_ARRAY + self.cqe_size * slot;
        unsafe {
            *(cqe as *mut u64) = user_data;
            *((cqe + 8) as *mut i32) = res;
            *((cqe + 12) as *mut u32) = 0;
            if self.cqe_size == 32 {
                // the second half of a big completion carries data of its own
                *((cqe + 16) as *mut u64) = user_data ^ 0x5555_5555_5555_5555;
                *((cqe + 24) as *mut u64) = !user_data;
            }
        }
        self.a32(self.cq_ring + H_TAIL).store(tail.wrapping_add(1), Ordering::Release);
    }

    /// Which SQE slot does this pointer designate?
    pub fn sqe_index(&self, p: usize) -> Option<u32> {
        if p < self.sqes || p >= self.sqes + self.sqes_len || (p - self.sqes) % self.sqe_size != 0 {
            return None;
        }
        Some(((p - self.sqes) / self.sqe_size) as u32)
    }

    pub fn in_cq(&self, p: usize) -> bool {
        p >= self.cq_ring + H_ARRAY && p < self.cq_ring + self.cq_ring_len
    }
}

impl Kernel for RingStub {
    fn syscall(&self, nr: usize, a: [usize; 6]) -> usize {
        match nr {
            sc::nr::IO_URING_SETUP => {
                if self.fail_setup.get() {
                    return neg(12);
                }
                let p = a[1] as *mut u32;
                let flags = unsafe { *p.add(2) };
                unsafe {
                    *p.add(0) = self.sq_entries;
                    *p.add(1) = self.cq_entries;
                    *p.add(5) = if self.single_mmap { FEAT_SINGLE_MMAP } else { 0 };
                    let sq = p.add(10);
                    for (i, v) in [H_HEAD, H_TAIL, H_MASK, H_ENTRIES, H_FLAGS, H_DROPPED, H_ARRAY].iter().enumerate() {
                        *sq.add(i) = *v as u32;
                    }
                    let cq = p.add(20);
                    let cq_base = if self.single_mmap { (self.cq_ring - self.sq_ring) as u32 } else { 0 };
                    // cq_off: head, tail, ring_mask, ring_entries, overflow, cqes, flags
                    for (i, v) in [H_HEAD, H_TAIL, H_MASK, H_ENTRIES, H_DROPPED, H_ARRAY, H_FLAGS].iter().enumerate() {
                        *cq.add(i) = cq_base + *v as u32;
                    }
                    *p.add(2) = flags;
                }
                let fd = unsafe { libc::open(c"/dev/null".as_ptr(), libc::O_RDONLY | libc::O_CLOEXEC) };
                self.fd.set(fd);
                fd as usize
            }
            sc::nr::MMAP => {
                if a[4] as i32 != self.fd.get() {
                    return neg(9);
                }
                let k = self.mmap_calls.get();
                self.mmap_calls.set(k + 1);
                if self.fail_mmap_at.get() == Some(k) {
                    self.fail_mmap_at.set(None);
                    self.mmap_failed.set(true);
                    return neg(12);
                }
                let r = match a[5] {
                    OFF_SQ_RING => self.sq_ring,
                    OFF_CQ_RING => self.cq_ring,
                    OFF_SQES => self.sqes,
                    _ => return neg(22),
                };
                self.maps.borrow_mut().push((r, a[1]));
                r
            }
            sc::nr::MUNMAP => {
                self.unmaps.borrow_mut().push((a[0], a[1]));
                0
            }
            sc::nr::CLOSE => {
                if a[0] as i32 == self.fd.get() {
                    self.closes.set(self.closes.get() + 1);
                    if self.closes.get() == 1 {
                        unsafe { libc::close(a[0] as i32) };
                    }
                    0
                } else {
                    simk::kern::real(nr, a)
                }
            }
            _ => neg(38),
        }
    }
}

#[derive(Clone, Copy, PartialEq, Debug)]
enum Slot {
    Free,
    Handed(u64),
    Published(u64),
}

fn run_ring(dec: Dec, opts: &RunOpts) -> RunOut {
    let mut sim = Sim::new(dec, SimCfg { record: opts.record, ..SimCfg::default() });
    let d = &mut sim.dec;
    // the application may ask for any size; the kernel (stub) rounds it up to a power of two
    let requested = 1 + d.choose(K::Cfg, 8);
    let sq_entries = requested.next_power_of_two();
    let cq_entries = (sq_entries * 2).max(2) << d.choose(K::Cfg, 2).min(1);
    let single = d.chance(K::Cfg, 1, 2);
    let sqe128 = d.chance(K::Cfg, 1, 4);
    let cqe32 = d.chance(K::Cfg, 1, 4);
    // with a kernel-side poller the wrapper reads the head with acquire and publishes with release
    let sqpoll = d.chance(K::Cfg, 1, 4);
    let start = match d.choose(K::Cfg, 4) {
        0 => 0,
        1 => u32::MAX - d.choose(K::Cfg, 24),
        2 => u32::MAX / 2 - d.choose(K::Cfg, 8),
        _ => d.choose(K::Cfg, 1000),
    };
    let cq_start = match d.choose(K::Cfg, 4) {
        0 => start,
        1 => u32::MAX - d.choose(K::Cfg, 40),
        2 => 0,
        _ => d.choose(K::Cfg, 1000),
    };
    let nsteps = 10 + d.choose(K::Cfg, 190) as usize;
    let stub = RingStub::new(sq_entries, cq_entries, single, sqe128, cqe32, start, cq_start);
    sim.set_kernel(&stub);
    let mut viol: Option<Violation> = None;
    let mut counters: Vec<(&'static str, u64)> = Vec::new();
    let mut wrapped_sq = false;
    let mut wrapped_cq = false;
    let mut steps_done: Vec<String> = Vec::new();
    sched::with_installed(&mut sim, || {
        let r = std::panic::catch_unwind(std::panic::AssertUnwindSafe(|| -> Option<Violation> {
            let mut flags = IoUringParamFlags::empty();
            if sqe128 {
                flags = flags | IoUringParamFlags::IORING_SETUP_SQE128;
            }
            if cqe32 {
                flags = flags | IoUringParamFlags::IORING_SETUP_CQE32;
            }
            if sqpoll {
                flags = flags | IoUringParamFlags::IORING_SETUP_SQPOLL;
            }
            let mut ring = match rusl::io_uring::setup_io_uring(requested, flags, 0, 0) {
                Ok(r) => r,
                Err(e) => return Some(Violation { sig: "setup|failed-on-stub".into(), detail: format!("{e:?}") }),
            };
            ring.verif_set_sq_position(start);
            let s = sched::sim().unwrap();
            let mut slots = vec![Slot::Free; sq_entries as usize];
            let mut next_sub: u64 = 1; // sequence stamped by the application
            let mut flushed_upto: u64 = 0; // highest sequence published
            let mut next_consume: u64 = 1; // what the kernel must see next
            let mut to_complete: VecDeque<u64> = VecDeque::new();
            let mut next_post: u64 = 1;
            let mut next_reap: u64 = 1;
            let mut posted: VecDeque<u64> = VecDeque::new(); // posted, not yet returned to the app
            let mut held: Option<(usize, u64)> = None; // a completion reference the app still reads
            for _ in 0..nsteps {
                match s.dec.choose(K::Op, if sqpoll { 9 } else { 7 }) {
                    0 | 1 => {
                        // application: get a slot and fill it
                        let outstanding_before = slots.iter().filter(|x| **x != Slot::Free).count();
                        match ring.get_next_sqe_slot() {
                            Some(p) => {
                                let Some(idx) = stub.sqe_index(p as usize) else {
                                    return Some(Violation { sig: "sq|slot-pointer-outside-sqe-array".into(), detail: format!("get_next_sqe_slot returned {p:p}") });
                                };
                                if slots[idx as usize] != Slot::Free {
                                    return Some(Violation {
                                        sig: "sq|slot-handed-out-before-consumed".into(),
                                        detail: format!("slot {idx} handed out again while it still holds {:?} ({outstanding_before} of {sq_entries} slots outstanding, sq head {} tail {})", slots[idx as usize], stub.sq_head(), stub.sq_tail()),
                                    });
                                }
                                unsafe {
                                    std::ptr::write_bytes(p.cast::<u8>(), 0, stub.sqe_size);
                                    (*p.cast::<IoUringSubmissionQueueEntry>()).0.user_data = next_sub;
                                }
                                slots[idx as usize] = Slot::Handed(next_sub);
                                steps_done.push(format!("app: slot {idx} <- #{next_sub}"));
                                next_sub += 1;
                            }
                            None => {
                                steps_done.push("app: no slot".into());
                                counters.push(("probe.sq_full_reported", 1));
                                if outstanding_before < sq_entries as usize {
                                    // not a violation of the statement (nothing is lost or duplicated), reported as reach
                                    counters.push(("probe.sq_no_slot_although_one_is_free", 1));
                                }
                            }
                        }
                    }
                    2 => {
                        let _ = ring.flush_submission_queue();
                        for sl in &mut slots {
                            if let Slot::Handed(q) = *sl {
                                *sl = Slot::Published(q);
                                flushed_upto = flushed_upto.max(q);
                            }
                        }
                        steps_done.push(format!("app: flush (published up to #{flushed_upto})"));
                    }
                    3 => {
                        // kernel: consume up to j published submissions
                        let j = 1 + s.dec.choose(K::Arg, sq_entries);
                        for _ in 0..j {
                            let before = stub.sq_head();
                            let Some((idx, ud)) = stub.consume_one() else { break };
                            if before == u32::MAX {
                                wrapped_sq = true;
                            }
                            if ud != next_consume {
                                return Some(Violation { sig: "sq|consumed-out-of-order-or-twice".into(), detail: format!("kernel expected submission #{next_consume}, slot {idx} holds #{ud} (sq head {before})") });
                            }
                            if ud > flushed_upto {
                                return Some(Violation { sig: "sq|consumed-unpublished".into(), detail: format!("kernel saw #{ud} which the application has not flushed") });
                            }
                            match slots[idx as usize & (sq_entries as usize - 1)] {
                                Slot::Published(q) if q == ud => slots[idx as usize] = Slot::Free,
                                other => return Some(Violation { sig: "sq|slot-state".into(), detail: format!("kernel consumed slot {idx} in state {other:?}") }),
                            }
                            next_consume += 1;
                            to_complete.push_back(ud);
                            steps_done.push(format!("kernel: consumed #{ud}"));
                        }
                    }
                    4 => {
                        // kernel: post completions while there is room
                        let j = 1 + s.dec.choose(K::Arg, cq_entries);
                        for _ in 0..j {
                            if stub.cq_space() == 0 {
                                counters.push(("probe.cq_full", 1));
                                break;
                            }
                            // completions for consumed submissions, or unsolicited ones (multishot-style)
                            let ud = to_complete.pop_front().map_or(1_000_000 + next_post, |u| u);
                            if stub.cq_tail() == u32::MAX {
                                wrapped_cq = true;
                            }
                            let stamp = next_post << 32 | (ud & 0xffff_ffff);
                            stub.post(stamp, next_post as i32);
                            posted.push_back(stamp);
                            next_post += 1;
                            steps_done.push(format!("kernel: posted completion {}", next_post - 1));
                        }
                    }
                    5 => {
                        // application: reap one completion; a reference from an earlier call cannot
                        // outlive this call (it borrows the ring)
                        held = None;
                        match ring.get_next_cqe() {
                            Some(c) => {
                                let p = std::ptr::from_ref(c) as usize;
                                // the property fixes what the reference shows, not where it points:
                                // an implementation may hand out a copy of the entry
                                if !stub.in_cq(p) {
                                    counters.push(("probe.cqe_reference_outside_the_ring_memory", 1));
                                }
                                let ud = c.0.user_data;
                                let Some(want) = posted.pop_front() else {
                                    return Some(Violation { sig: "cq|completion-from-nowhere".into(), detail: format!("get_next_cqe returned user_data {ud:#x} although nothing is pending (cq head {} tail {})", stub.cq_head(), stub.cq_tail()) });
                                };
                                if cqe32 && ud == want {
                                    // the reference covers the whole 32-byte entry
                                    let (w2, w3) = unsafe { (*(p as *const u64).add(2), *(p as *const u64).add(3)) };
                                    if w2 != want ^ 0x5555_5555_5555_5555 || w3 != !want {
                                        return Some(Violation { sig: "cq|big-completion-content".into(), detail: format!("completion {} of a CQE32 ring: the second half of the entry reads {w2:#x} {w3:#x}, the kernel wrote {:#x} {:#x}", want >> 32, want ^ 0x5555_5555_5555_5555, !want) });
                                    }
                                }
                                if ud != want {
                                    return Some(Violation { sig: "cq|out-of-order-or-duplicate".into(), detail: format!("expected completion {} got {} (cq head {} tail {})", want >> 32, ud >> 32, stub.cq_head(), stub.cq_tail()) });
                                }
                                if (want >> 32) != next_reap {
                                    return Some(Violation { sig: "cq|sequence".into(), detail: format!("expected #{next_reap}") });
                                }
                                next_reap += 1;
                                held = Some((p, want));
                                steps_done.push(format!("app: reaped completion {}", want >> 32));
                            }
                            None => {
                                if !posted.is_empty() {
                                    counters.push(("probe.none_while_pending", 1));
                                    // not yet a violation: judged at the end (a completion must be returned eventually)
                                }
                                steps_done.push("app: nothing to reap".into());
                            }
                        }
                    }
                    7 | 8 => {
                        // kernel-side poller (SQPOLL rings only): it goes idle or comes back, and the
                        // flags word may carry further bits of the kernel at the same time; the
                        // application then asks whether it has to wake the poller.  A "no" while the
                        // poller is idle leaves every flushed entry unconsumed for ever.
                        let idle = s.dec.chance(K::Arg, 2, 3);
                        let other = *s.dec.pick(K::Arg, &[0u32, 0, 2, 4, 6]);
                        stub.set_sq_flags(u32::from(idle) | other);
                        let says = ring.needs_wakeup();
                        steps_done.push(format!("kernel: sq flags {:#x}; app: needs_wakeup -> {says}", u32::from(idle) | other));
                        counters.push(("probe.needs_wakeup_asked", 1));
                        if idle && other != 0 {
                            counters.push(("probe.needs_wakeup_with_other_flag_bits", 1));
                        }
                        if idle && !says {
                            return Some(Violation {
                                sig: "sq|poller-idle-but-no-wakeup-wanted".into(),
                                detail: format!("the kernel's submission-ring flags are {:#x} (IORING_SQ_NEED_WAKEUP set: the poller sleeps), needs_wakeup() returned false: flushed entries would never be consumed", u32::from(idle) | other),
                            });
                        }
                        stub.set_sq_flags(0);
                    }
                    _ => {
                        // application reads the fields of the completion it was handed earlier
                        if let Some((p, want)) = held {
                            let ud = unsafe { *(p as *const u64) };
                            if ud != want {
                                return Some(Violation {
                                    sig: "cq|content-after-release".into(),
                                    detail: format!("the completion reference returned for #{} now reads #{}: get_next_cqe released the slot (advanced the head) before handing out the reference, and the kernel reused it", want >> 32, ud >> 32),
                                });
                            }
                        }
                    }
                }
            }
            // quiescence: the kernel consumes and posts everything, the application reaps everything
            let _ = ring.flush_submission_queue();
            for sl in &mut slots {
                if let Slot::Handed(q) = *sl {
                    *sl = Slot::Published(q);
                    flushed_upto = flushed_upto.max(q);
                }
            }
            while let Some((idx, ud)) = stub.consume_one() {
                if ud != next_consume {
                    return Some(Violation { sig: "sq|consumed-out-of-order-or-twice".into(), detail: format!("at quiescence kernel expected #{next_consume}, slot {idx} holds #{ud}") });
                }
                next_consume += 1;
            }
            if next_consume - 1 != flushed_upto {
                return Some(Violation { sig: "sq|published-entries-lost".into(), detail: format!("application flushed up to #{flushed_upto}, kernel could consume only up to #{}", next_consume - 1) });
            }
            let mut guard = 0;
            while !posted.is_empty() {
                match ring.get_next_cqe() {
                    Some(c) => {
                        let want = posted.pop_front().unwrap();
                        if c.0.user_data != want {
                            return Some(Violation { sig: "cq|out-of-order-or-duplicate".into(), detail: format!("at quiescence expected completion {} got {}", want >> 32, c.0.user_data >> 32) });
                        }
                    }
                    None => {
                        return Some(Violation {
                            sig: "cq|posted-completions-never-returned".into(),
                            detail: format!("{} completions are posted (cq head {} tail {}, {} entries) but get_next_cqe returns None", posted.len(), stub.cq_head(), stub.cq_tail(), cq_entries),
                        });
                    }
                }
                guard += 1;
                if guard > 10_000 {
                    break;
                }
            }
            if ring.get_next_cqe().is_some() {
                return Some(Violation { sig: "cq|completion-from-nowhere".into(), detail: "a completion was returned after everything had been reaped".into() });
            }
            drop(ring);
            None
        }));
        viol = match r {
            Ok(v) => v,
            Err(_) => {
                let (msg, loc) = sched::take_last_panic().unwrap_or_default();
                let loc = sched::short_loc(&loc);
                let head: String = msg.chars().take(40).collect();
                Some(Violation { sig: format!("panic|{loc}|{head}"), detail: format!("panic at {loc}: {msg} (sq head {} tail {}, cq head {} tail {})", stub.sq_head(), stub.sq_tail(), stub.cq_head(), stub.cq_tail()) })
            }
        };
    });
    let mut out = RunOut::default();
    out.violation = viol;
    let mut h = simk::dec::mix(&[u64::from(requested), u64::from(sq_entries), u64::from(cq_entries), u64::from(start), u64::from(cq_start), u64::from(single) | u64::from(sqe128) << 1 | u64::from(cqe32) << 2]);
    for s in &steps_done {
        h = simk::dec::mix(&[h, simk::dec::hash_str(s)]);
    }
    out.hash = h;
    out.shape = h;
    out.nontrivial = wrapped_sq || wrapped_cq;
    out.counters.insert("probe.sq_index_wrapped", u64::from(wrapped_sq));
    out.counters.insert("probe.cq_index_wrapped", u64::from(wrapped_cq));
    out.counters.insert("probe.single_mmap_layout", u64::from(single));
    out.counters.insert("steps", steps_done.len() as u64);
    for (k, n) in counters {
        *out.counters.entry(k).or_insert(0) += n;
    }
    if opts.record {
        out.events = steps_done.clone();
        out.sample = Some(json!({"requested_entries": requested, "sq_entries": sq_entries, "cq_entries": cq_entries, "single_mmap": single, "sqe128": sqe128, "cqe32": cqe32, "sq_start": start, "cq_start": cq_start, "steps": steps_done.len(), "profile": if cfg!(debug_assertions) { "debug (overflow checks on)" } else { "release" }}));
    }
    out.decisions = std::mem::take(&mut sim.dec.log);
    out
}

impl Check for C17 {
    fn id(&self) -> &'static str {
        "C17"
    }
    fn level(&self) -> &'static str {
        "exploration"
    }
    fn engine(&self) -> &'static str {
        "simk (engine A): io_uring ring kernel stub (simulated kernel actor over ring memory)"
    }
    fn cases(&self, tier: Tier) -> u64 {
        match tier {
            Tier::Quick => 1_000_000,
            Tier::Thorough => 100_000_000,
        }
    }
    fn worker_profile(&self, k: usize) -> &'static str {
        if k % 2 == 1 {
            "debug"
        } else {
            "release"
        }
    }
    fn rule(&self) -> String {
        "each case = one seeded run of 10..200 steps on a ring built by the unmodified setup_io_uring over stub memory: requested SQ sizes 1..8 (rounded up to 1,2,4,8 by the stub as the kernel does), CQ sizes 2..32, single- and two-mmap layouts, SQE128/CQE32 on or off, head/tail counters of both rings starting at 0, small values, u32::MAX/2-k or u32::MAX-k; steps by decision: application {get slot + stamp user_data, flush, reap one completion, re-read the completion reference handed out earlier}, kernel {consume 1..n published submissions, post 1..m completions incl. unsolicited ones while there is room}; followed by a quiescence phase. Oracle: per-slot ownership map (no slot handed out before consumed), kernel sees submissions #1,#2,... each once in order and only published ones, every posted completion is returned once in order with the content posted, posted completions are eventually returned, the fields read later through a returned reference still equal what was posted for it; panics are violations; odd workers run a debug build (overflow checks on). non-trivial = a ring index crossed u32::MAX during the run; distinct = hash of configuration and step outcomes".into()
    }
    fn assumptions(&self) -> Vec<String> {
        vec![
            "interleaving is at call granularity (one thread alternates between the two actors), as the property states".into(),
            "the kernel actor follows the io_uring ring protocol: it may reuse a completion slot as soon as the head counter has released it".into(),
        ]
    }
    fn components(&self) -> Value {
        json!({"real": ["rusl::io_uring::setup_io_uring", "IoUring::{get_next_sqe_slot, flush_submission_queue, get_next_cqe}, Drop"], "stub": ["the kernel side of the rings (io_uring_setup, the three mmaps, consumption and posting)"], "hook": "IoUring::verif_set_sq_position (cfg(tiny_std_verif))"})
    }
    fn run(&self, _case: u64, dec: Dec, opts: &RunOpts) -> RunOut {
        run_ring(dec, opts)
    }
}
