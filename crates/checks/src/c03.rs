//! C03 — allocator safety (alignment, disjointness, integrity, OOM) and
//! C04 — allocator footprint, both on the simulated address space of `simk::mem`.

use serde_json::{json, Value};
use simk::dec::{Dec, K};
use simk::kern::{self, neg, ENOMEM};
use simk::mem::Provider;
use simk::runner::{Check, RunOpts, RunOut, Tier};
use simk::sched::{self, sim, Kernel, Sim, SimCfg, Violation};
use std::cell::{Cell, RefCell};
use std::rc::Rc;
use tiny_std::allocator::dlmalloc::Dlmalloc;
use tiny_std::sync::Mutex;

pub struct C03;
pub struct C04;

const ARENA: usize = 4 << 30;

thread_local! {
    static PROV: RefCell<Option<Provider>> = const { RefCell::new(None) };
}

fn with_prov<R>(f: impl FnOnce(&mut Provider) -> R) -> R {
    PROV.with(|p| {
        let mut p = p.borrow_mut();
        if p.is_none() {
            *p = Some(Provider::new(ARENA));
        }
        f(p.as_mut().unwrap())
    })
}

#[derive(Clone, Copy, Default)]
struct FaultCfg {
    /// refuse an mmap with chance n/16 while `active`
    mmap_p: u32,
    mremap_p: u32,
    munmap_p: u32,
    /// refuse every mmap in [from, to) (call index)
    burst_from: u64,
    burst_to: u64,
}

#[derive(Clone, Copy)]
struct Block {
    addr: usize,
    size: usize,
    align: usize,
    seed: u8,
    owner: usize,
}

struct MemKern {
    cfg: Cell<FaultCfg>,
    faults_active: Cell<bool>,
    refused_in_call: Cell<bool>,
    mmap_calls: Cell<u64>,
    live: RefCell<Vec<Block>>,
    n_refused_mmap: Cell<u64>,
    n_refused_mremap: Cell<u64>,
    n_refused_munmap: Cell<u64>,
    viol: RefCell<Option<Violation>>,
    /// serve futex/clock from the simulator (multi-threaded variant)
    threaded: bool,
}

impl MemKern {
    fn new(cfg: FaultCfg, threaded: bool) -> Self {
        MemKern {
            cfg: Cell::new(cfg),
            faults_active: Cell::new(true),
            refused_in_call: Cell::new(false),
            mmap_calls: Cell::new(0),
            live: RefCell::new(Vec::new()),
            n_refused_mmap: Cell::new(0),
            n_refused_mremap: Cell::new(0),
            n_refused_munmap: Cell::new(0),
            viol: RefCell::new(None),
            threaded,
        }
    }
    fn violate(&self, sig: &str, detail: String) {
        let mut v = self.viol.borrow_mut();
        if v.is_none() {
            *v = Some(Violation { sig: sig.to_string(), detail });
        }
    }
    fn live_hit(&self, addr: usize, len: usize) -> Option<Block> {
        self.live.borrow().iter().copied().find(|b| b.addr < addr + len && addr < b.addr + b.size.max(1))
    }
}

impl Kernel for MemKern {
    fn syscall(&self, nr: usize, a: [usize; 6]) -> usize {
        let s = sim().unwrap();
        let cfg = self.cfg.get();
        let active = self.faults_active.get() && s.faults_on;
        match nr {
            sc::nr::MMAP => {
                let idx = self.mmap_calls.get();
                self.mmap_calls.set(idx + 1);
                let burst = idx >= cfg.burst_from && idx < cfg.burst_to;
                if active && (burst || s.dec.chance(K::Fault, cfg.mmap_p, 16)) {
                    self.refused_in_call.set(true);
                    self.n_refused_mmap.set(self.n_refused_mmap.get() + 1);
                    s.trace.ev(|| format!("fault: mmap({}) refused (ENOMEM)", a[1]));
                    return neg(ENOMEM);
                }
                let r = with_prov(|p| p.mmap(a[1], &mut s.dec));
                if kern::is_err(r) {
                    self.refused_in_call.set(true);
                }
                s.trace.ev(|| format!("mmap({}) -> arena+{:#x}", a[1], r.wrapping_sub(with_prov(|p| p.base))));
                r
            }
            sc::nr::MREMAP => {
                let shrinking = a[2] < a[1];
                if shrinking {
                    // the part that would disappear must not hold a live block
                    if let Some(b) = self.live_hit(a[0] + a[2], a[1] - a[2]) {
                        self.violate("live-block-unmapped|mremap", format!("mremap shrink {}->{} releases bytes of a live block (size {}, align {})", a[1], a[2], b.size, b.align));
                        return a[0];
                    }
                }
                if active && s.dec.chance(K::Fault, cfg.mremap_p, 16) {
                    self.refused_in_call.set(true);
                    self.n_refused_mremap.set(self.n_refused_mremap.get() + 1);
                    s.trace.ev(|| format!("fault: mremap({}->{}) refused", a[1], a[2]));
                    return neg(ENOMEM);
                }
                let r = with_prov(|p| p.mremap(a[0], a[1], a[2], a[3], &mut s.dec));
                if kern::is_err(r) {
                    self.refused_in_call.set(true);
                }
                s.trace.ev(|| format!("mremap({}->{}) -> {}", a[1], a[2], if kern::is_err(r) { "error" } else { "ok" }));
                r
            }
            sc::nr::MUNMAP => {
                if let Some(b) = self.live_hit(a[0], a[1]) {
                    self.violate("live-block-unmapped|munmap", format!("munmap of {} bytes releases bytes of a live block (size {}, align {})", a[1], b.size, b.align));
                    return 0;
                }
                let (inside, mapped) = with_prov(|p| (p.in_arena(a[0], a[1]), p.is_mapped(a[0], a[1])));
                if !inside || !mapped {
                    self.violate("munmap-foreign-range", format!("munmap({:#x}, {}) covers memory the allocator was never given", a[0], a[1]));
                    return 0;
                }
                if active && s.dec.chance(K::Fault, cfg.munmap_p, 16) {
                    self.n_refused_munmap.set(self.n_refused_munmap.get() + 1);
                    s.trace.ev(|| format!("fault: munmap({}) refused", a[1]));
                    return neg(ENOMEM);
                }
                s.trace.ev(|| format!("munmap({})", a[1]));
                with_prov(|p| p.munmap(a[0], a[1]))
            }
            _ if self.threaded => kern::default_syscall(nr, a),
            _ => neg(kern::ENOSYS),
        }
    }
}

// ---------- patterns ----------

const FULL_LIMIT: usize = 64 * 1024;

#[inline]
fn pat(seed: u8, off: usize) -> u8 {
    (off as u8).wrapping_mul(31).wrapping_add(seed) ^ ((off >> 8) as u8)
}

fn offsets(size: usize, mut f: impl FnMut(usize) -> bool) -> bool {
    if size <= FULL_LIMIT {
        for o in 0..size {
            if !f(o) {
                return false;
            }
        }
    } else {
        for o in 0..256 {
            if !f(o) {
                return false;
            }
        }
        for o in size - 256..size {
            if !f(o) {
                return false;
            }
        }
        let mut o = 4096;
        while o < size - 256 {
            if !f(o) {
                return false;
            }
            o += 4096;
        }
    }
    true
}

unsafe fn fill(addr: usize, size: usize, seed: u8) {
    offsets(size, |o| {
        *(addr as *mut u8).add(o) = pat(seed, o);
        true
    });
}

unsafe fn verify(addr: usize, size: usize, seed: u8) -> Option<usize> {
    let mut bad = None;
    offsets(size, |o| {
        if *(addr as *const u8).add(o) != pat(seed, o) {
            bad = Some(o);
            false
        } else {
            true
        }
    });
    bad
}

unsafe fn all_zero(addr: usize, size: usize) -> Option<usize> {
    let mut bad = None;
    offsets(size, |o| {
        if *(addr as *const u8).add(o) != 0 {
            bad = Some(o);
            false
        } else {
            true
        }
    });
    bad
}

// ---------- size generation ----------

fn gen_size(dec: &mut Dec, profile: u32) -> usize {
    let near = |dec: &mut Dec, c: usize, w: usize| -> usize { (c + dec.choose(K::Arg, (2 * w + 1) as u32) as usize).saturating_sub(w).max(1) };
    match profile {
        0 => 1 + dec.choose(K::Arg, 300) as usize,
        1 => {
            // small-bin and tree-bin boundaries
            let k = dec.choose(K::Arg, 24) as usize;
            let c = if k < 8 { 8 * (1 + dec.choose(K::Arg, 40) as usize) } else { (256usize << (k - 8).min(14)) + if dec.chance(K::Arg, 1, 2) { 128usize << (k - 8).min(14) } else { 0 } };
            near(dec, c, 17)
        }
        2 => {
            let m = 1 + dec.choose(K::Arg, 3) as usize;
            near(dec, 64 * 1024 * m, 40)
        }
        3 => near(dec, 2 * 1024 * 1024, 64 * 1024),
        4 => (1usize << (10 + dec.choose(K::Arg, 15))) + dec.choose(K::Arg, 4096) as usize,
        // the open-ended last tree bin: chunks of 12 MiB and more, small separators between them
        7 => {
            if dec.chance(K::Arg, 1, 3) {
                16 + dec.choose(K::Arg, 2000) as usize
            } else {
                ((6 + dec.choose(K::Arg, 36) as usize) << 20) + 4096 * dec.choose(K::Arg, 512) as usize - dec.choose(K::Arg, 2) as usize * 4096
            }
        }
        _ => match dec.choose(K::Arg, 8) {
            0 => 1 + dec.choose(K::Arg, 24) as usize,
            1..=3 => 1 + dec.choose(K::Arg, 600) as usize,
            4 => near(dec, 65536, 64),
            5 => 1 + dec.choose(K::Arg, 200_000) as usize,
            6 => near(dec, 2 << 20, 70_000),
            _ => 1 + dec.choose(K::Arg, 4 << 20) as usize,
        },
    }
}

fn gen_align(dec: &mut Dec) -> usize {
    match dec.choose(K::Arg, 8) {
        0..=3 => 1usize << dec.choose(K::Arg, 5),
        4 | 5 => 1usize << (5 + dec.choose(K::Arg, 4)),
        _ => 1usize << (9 + dec.choose(K::Arg, 5)),
    }
}

#[derive(Clone, Copy, Debug)]
enum Op {
    Malloc(usize, usize),
    Calloc(usize, usize),
    Realloc(u32, usize),
    Free(u32),
    VerifyAll,
    /// 4100 x { malloc 300, malloc 24, free the first (a tree-sized chunk that cannot merge), free the second }
    Pump,
}

struct Hist {
    ops: Vec<Op>,
    faults_stop_at: usize,
}

fn gen_hist(dec: &mut Dec, max_ops: usize) -> Hist {
    let n = 1 + dec.choose(K::Op, max_ops as u32) as usize;
    let profile = dec.choose(K::Cfg, 8);
    let big_budget = 12usize;
    // one history in 24 contains the pump: enough frees of tree-sized chunks to make free() itself
    // look for releasable segments (a counter of 4095 such frees)
    let pump_at = if dec.chance(K::Cfg, 1, 24) { Some(dec.choose(K::Cfg, n as u32) as usize) } else { None };
    let mut bigs = 0;
    let mut ops = Vec::with_capacity(n);
    for _ in 0..n {
        let mut size = gen_size(dec, profile);
        if size > (1 << 20) {
            bigs += 1;
            if bigs > big_budget {
                size = 1 + size % 5000;
            }
        }
        let op = match dec.choose(K::Op, 16) {
            0..=5 => Op::Malloc(size, gen_align(dec)),
            6 | 7 => Op::Calloc(size, gen_align(dec)),
            8..=10 => Op::Realloc(dec.choose(K::Arg, 64), size),
            11..=14 => Op::Free(dec.choose(K::Arg, 64)),
            _ => Op::VerifyAll,
        };
        ops.push(op);
        if pump_at == Some(ops.len() - 1) {
            ops.push(Op::Pump);
            ops.push(Op::VerifyAll);
        }
    }
    let faults_stop_at = if dec.chance(K::Cfg, 1, 2) { dec.choose(K::Cfg, n as u32 + 1) as usize } else { n };
    Hist { ops, faults_stop_at }
}

fn gen_faults(dec: &mut Dec) -> FaultCfg {
    match dec.choose(K::Cfg, 6) {
        0 | 1 => FaultCfg::default(),
        2 => FaultCfg { mmap_p: 2, mremap_p: 4, munmap_p: 0, ..FaultCfg::default() },
        3 => {
            let from = u64::from(dec.choose(K::Cfg, 12));
            FaultCfg { burst_from: from, burst_to: from + 1 + u64::from(dec.choose(K::Cfg, 6)), mremap_p: 8, munmap_p: 4, ..FaultCfg::default() }
        }
        4 => FaultCfg { mmap_p: 6, mremap_p: 12, munmap_p: 8, ..FaultCfg::default() },
        _ => FaultCfg { mmap_p: 0, mremap_p: 16, munmap_p: 16, ..FaultCfg::default() },
    }
}

/// Execute one allocator operation for `owner`; returns false when the run must stop.
#[allow(clippy::too_many_arguments)]
fn exec_op(a: &mut Dlmalloc, k: &MemKern, op: Op, owner: usize, seedc: &mut u8, faults_over: bool, stats: &mut Stats) -> bool {
    let fail = |sig: &str, d: String| {
        k.violate(sig, d);
        false
    };
    let mine: Vec<usize> = k.live.borrow().iter().enumerate().filter(|(_, b)| b.owner == owner).map(|(i, _)| i).collect();
    match op {
        Op::Malloc(size, align) | Op::Calloc(size, align) => {
            if mine.len() >= 24 {
                return true;
            }
            let zero = matches!(op, Op::Calloc(..));
            k.refused_in_call.set(false);
            let p = unsafe { if zero { a.calloc(size, align) } else { a.malloc(size, align) } } as usize;
            stats.allocs += 1;
            if k.viol.borrow().is_some() {
                return false;
            }
            if p == 0 {
                stats.nulls += 1;
                if !k.refused_in_call.get() {
                    return fail("null-without-refusal", format!("{}({size}, align {align}) returned null although the OS refused nothing in that call", if zero { "calloc" } else { "malloc" }));
                }
                if faults_over {
                    return fail("unusable-after-faults", format!("alloc({size}) failed after faults had stopped"));
                }
                return true;
            }
            if p % align != 0 {
                return fail("misaligned", format!("alloc({size}, align {align}) returned {p:#x}"));
            }
            if !with_prov(|pr| pr.is_mapped(p, size)) {
                return fail("outside-mapped-memory", format!("alloc({size}, align {align}) returned a block not inside memory the OS granted"));
            }
            if let Some(b) = k.live_hit(p, size) {
                return fail("overlap", format!("alloc({size}, align {align}) overlaps a live block of size {} (offset {})", b.size, p as isize - b.addr as isize));
            }
            if zero {
                if let Some(o) = unsafe { all_zero(p, size) } {
                    return fail("calloc-not-zero", format!("calloc({size}) byte {o} is not zero"));
                }
            }
            *seedc = seedc.wrapping_add(37);
            unsafe { fill(p, size, *seedc) };
            k.live.borrow_mut().push(Block { addr: p, size, align, seed: *seedc, owner });
            true
        }
        Op::Realloc(i, new_size) => {
            if mine.is_empty() {
                return true;
            }
            let idx = mine[i as usize % mine.len()];
            let b = k.live.borrow()[idx];
            // the block is owned by the caller during the call: take it out of the live set
            k.live.borrow_mut().swap_remove(idx);
            k.refused_in_call.set(false);
            let p = unsafe { a.realloc(b.addr as *mut u8, b.size, b.align, new_size) } as usize;
            stats.reallocs += 1;
            if k.viol.borrow().is_some() {
                return false;
            }
            if p == 0 {
                stats.nulls += 1;
                k.live.borrow_mut().push(b);
                if !k.refused_in_call.get() {
                    return fail("null-without-refusal", format!("realloc({} -> {new_size}) returned null although the OS refused nothing", b.size));
                }
                if faults_over {
                    return fail("unusable-after-faults", format!("realloc({} -> {new_size}) failed after faults had stopped", b.size));
                }
                if let Some(o) = unsafe { verify(b.addr, b.size, b.seed) } {
                    return fail("realloc-failed-damaged-old", format!("failed realloc changed byte {o} of the old block"));
                }
                return true;
            }
            if p % b.align != 0 {
                return fail("misaligned", format!("realloc({} -> {new_size}, align {}) returned {p:#x}", b.size, b.align));
            }
            if !with_prov(|pr| pr.is_mapped(p, new_size)) {
                return fail("outside-mapped-memory", format!("realloc({} -> {new_size}) returned a block not inside granted memory", b.size));
            }
            if let Some(o) = k.live_hit(p, new_size) {
                return fail("overlap", format!("realloc({} -> {new_size}) overlaps a live block of size {}", b.size, o.size));
            }
            let common = b.size.min(new_size);
            // check exactly the offsets the old block's pattern was written at, below the common length
            let mut bad = None;
            offsets(b.size, |o| {
                if o < common && unsafe { *(p as *const u8).add(o) } != pat(b.seed, o) {
                    bad = Some(o);
                    false
                } else {
                    true
                }
            });
            if let Some(o) = bad {
                return fail("realloc-prefix-lost", format!("realloc({} -> {new_size}) did not preserve byte {o}", b.size));
            }
            *seedc = seedc.wrapping_add(37);
            unsafe { fill(p, new_size, *seedc) };
            k.live.borrow_mut().push(Block { addr: p, size: new_size, align: b.align, seed: *seedc, owner });
            true
        }
        Op::Free(i) => {
            if mine.is_empty() {
                return true;
            }
            let idx = mine[i as usize % mine.len()];
            let b = k.live.borrow()[idx];
            if let Some(o) = unsafe { verify(b.addr, b.size, b.seed) } {
                return fail("block-changed", format!("byte {o} of a live block (size {}) changed behind its owner's back", b.size));
            }
            k.live.borrow_mut().swap_remove(idx);
            unsafe { a.free(b.addr as *mut u8) };
            stats.frees += 1;
            k.viol.borrow().is_none()
        }
        Op::Pump => {
            for _ in 0..4100 {
                let p = unsafe { a.malloc(300, 8) };
                let q = unsafe { a.malloc(24, 8) };
                if !p.is_null() {
                    unsafe { a.free(p) };
                }
                if !q.is_null() {
                    unsafe { a.free(q) };
                }
                if k.viol.borrow().is_some() {
                    return false;
                }
            }
            stats.allocs += 8200;
            stats.frees += 8200;
            true
        }
        Op::VerifyAll => {
            let blocks: Vec<Block> = k.live.borrow().iter().copied().filter(|b| b.owner == owner).collect();
            for b in blocks {
                if !with_prov(|pr| pr.is_mapped(b.addr, b.size)) {
                    return fail("live-block-unmapped|later", format!("a live block of size {} is no longer inside granted memory", b.size));
                }
                if let Some(o) = unsafe { verify(b.addr, b.size, b.seed) } {
                    return fail("block-changed", format!("byte {o} of a live block (size {}) changed behind its owner's back", b.size));
                }
            }
            true
        }
    }
}

#[derive(Default)]
struct Stats {
    allocs: u64,
    reallocs: u64,
    frees: u64,
    nulls: u64,
}

fn finish(sim: &mut Box<Sim>, k: &MemKern, stats: &Stats, threaded: bool, opts: &RunOpts, sample: Value, extra_viol: Option<Violation>) -> RunOut {
    let (above, below, iso, shrink, unmaps, grow, mv, peak) = with_prov(|p| (p.n_above, p.n_below, p.n_isolated, p.n_mremap_shrink, p.n_munmap, p.n_mremap_grow, p.n_mremap_move, p.peak));
    with_prov(Provider::reset);
    let mut out = RunOut::default();
    out.violation = sim.violation.take().or_else(|| k.viol.borrow_mut().take()).or(extra_viol);
    out.hash = sim.trace.hash ^ simk::dec::mix(&[stats.allocs, stats.frees, stats.nulls, above, below, iso, shrink, unmaps]);
    out.shape = out.hash;
    let refused = k.n_refused_mmap.get() + k.n_refused_mremap.get() + k.n_refused_munmap.get();
    out.nontrivial = stats.allocs >= 3 && (above + below) >= 1 && (refused >= 1 || shrink + unmaps >= 1);
    out.steps = sim.steps;
    out.sim_ns = 0;
    out.events = sim.trace.events.take().unwrap_or_default();
    out.decisions = std::mem::take(&mut sim.dec.log);
    let c = &mut out.counters;
    c.insert("fault.mmap_refused", k.n_refused_mmap.get());
    c.insert("fault.mremap_refused", k.n_refused_mremap.get());
    c.insert("fault.munmap_refused", k.n_refused_munmap.get());
    c.insert("probe.mapping_placed_directly_above", above);
    c.insert("probe.mapping_placed_directly_below", below);
    c.insert("probe.mapping_isolated", iso);
    c.insert("probe.trim_by_mremap_shrink", shrink);
    c.insert("probe.munmap_calls", unmaps);
    c.insert("probe.mremap_grow_in_place", grow);
    c.insert("probe.mremap_moved", mv);
    c.insert("probe.null_returned_on_refusal", stats.nulls);
    c.insert("probe.multi_threaded_history", u64::from(threaded));
    c.insert("ops.alloc", stats.allocs);
    c.insert("ops.realloc", stats.reallocs);
    c.insert("ops.free", stats.frees);
    c.insert("peak_mapped_bytes_sum", peak as u64);
    if opts.record {
        out.sample = Some(sample);
    }
    out
}

fn ops_json(ops: &[Op]) -> Value {
    Value::Array(ops.iter().take(30).map(|o| json!(format!("{o:?}"))).collect())
}

fn run_single(dec: Dec, opts: &RunOpts, max_ops: usize) -> RunOut {
    let mut sim = Sim::new(dec, SimCfg { record: opts.record, ..SimCfg::default() });
    let hist = gen_hist(&mut sim.dec, max_ops);
    let faults = gen_faults(&mut sim.dec);
    let k = MemKern::new(faults, false);
    sim.set_kernel(&k);
    let mut stats = Stats::default();
    let mut panic_v: Option<Violation> = None;
    sched::with_installed(&mut sim, || {
        let mut a = Dlmalloc::new();
        let mut seedc = 1u8;
        let r = std::panic::catch_unwind(std::panic::AssertUnwindSafe(|| {
            for (i, op) in hist.ops.iter().enumerate() {
                if i == hist.faults_stop_at {
                    k.faults_active.set(false);
                }
                if let Some(s) = sim_ev() {
                    s.trace.ev(|| format!("op {i}: {op:?}"));
                }
                let over = i >= hist.faults_stop_at;
                if !exec_op(&mut a, &k, *op, 0, &mut seedc, over, &mut stats) {
                    return;
                }
            }
            // end of history: everything still intact, then give it all back
            k.faults_active.set(false);
            if !exec_op(&mut a, &k, Op::VerifyAll, 0, &mut seedc, true, &mut stats) {
                return;
            }
            while !k.live.borrow().is_empty() {
                if !exec_op(&mut a, &k, Op::Free(0), 0, &mut seedc, true, &mut stats) {
                    return;
                }
            }
        }));
        if r.is_err() {
            let (msg, loc) = sched::take_last_panic().unwrap_or_default();
            let loc = sched::short_loc(&loc);
            let head: String = msg.chars().take(60).collect();
            panic_v = Some(Violation { sig: format!("panic|{loc}|{head}"), detail: format!("allocator panicked at {loc}: {msg}") });
        }
        // the instance may be inconsistent after a violation; it is simply dropped (no Drop impl)
    });
    let sample = json!({"variant": "single-threaded", "ops": hist.ops.len(), "faults_stop_at_op": hist.faults_stop_at, "fault_cfg": {"mmap_p_16": faults.mmap_p, "mremap_p_16": faults.mremap_p, "munmap_p_16": faults.munmap_p, "burst": [faults.burst_from, faults.burst_to]}, "first_ops": ops_json(&hist.ops), "profile": if cfg!(debug_assertions) { "debug (allocator self-checks on)" } else { "release" }});
    finish(&mut sim, &k, &stats, false, opts, sample, panic_v)
}

fn sim_ev() -> Option<&'static mut Sim> {
    sim()
}

fn run_threaded(dec: Dec, opts: &RunOpts) -> RunOut {
    let mut sim = Sim::new(dec, SimCfg { record: opts.record, est_len: 400, ..SimCfg::default() });
    let nthreads = 2 + sim.dec.choose(K::Cfg, 2) as usize;
    let hists: Vec<Hist> = (0..nthreads).map(|_| gen_hist(&mut sim.dec, 40)).collect();
    let faults = gen_faults(&mut sim.dec);
    sim.draw_strategy(nthreads);
    let k = Rc::new(MemKern::new(faults, true));
    sim.set_kernel(&*k);
    let alloc = Rc::new(Mutex::new(Dlmalloc::new()));
    let stats = Rc::new(RefCell::new(Stats::default()));
    for (t, h) in hists.iter().enumerate() {
        let (k, alloc, stats) = (k.clone(), alloc.clone(), stats.clone());
        let ops = h.ops.clone();
        sim.spawn(
            &format!("a{t}"),
            Box::new(move || {
                let mut seedc = (t as u8).wrapping_mul(83).wrapping_add(1);
                let mut all = ops;
                all.push(Op::VerifyAll);
                for op in all {
                    let mut g = alloc.lock();
                    let ok = exec_op(&mut g, &k, op, t, &mut seedc, false, &mut stats.borrow_mut());
                    drop(g);
                    if !ok {
                        let v = k.viol.borrow().clone().unwrap();
                        sched::fail(v.sig, v.detail);
                    }
                }
                loop {
                    let has = k.live.borrow().iter().any(|b| b.owner == t);
                    if !has {
                        break;
                    }
                    let mut g = alloc.lock();
                    let ok = exec_op(&mut g, &k, Op::Free(0), t, &mut seedc, false, &mut stats.borrow_mut());
                    drop(g);
                    if !ok {
                        let v = k.viol.borrow().clone().unwrap();
                        sched::fail(v.sig, v.detail);
                    }
                }
            }),
        );
    }
    sched::run(&mut sim);
    let sample = json!({"variant": "multi-threaded through tiny_std::sync::Mutex<Dlmalloc>", "threads": nthreads, "ops_per_thread": hists.iter().map(|h| h.ops.len()).collect::<Vec<_>>(), "strategy": format!("{:?}", sim.strategy)});
    let st = stats.borrow();
    finish(&mut sim, &k, &st, true, opts, sample, None)
}

impl Check for C03 {
    fn id(&self) -> &'static str {
        "C03"
    }
    fn level(&self) -> &'static str {
        "exploration"
    }
    fn engine(&self) -> &'static str {
        "simk (engine A): memory provider (simulated address space) + mmap/mremap/munmap fault injector"
    }
    fn cases(&self, tier: Tier) -> u64 {
        match tier {
            Tier::Quick => 24_000,
            Tier::Thorough => 1_200_000,
        }
    }
    fn worker_profile(&self, k: usize) -> &'static str {
        // odd workers run the debug build: the allocator's own consistency checks are on
        if k % 2 == 1 {
            "debug"
        } else {
            "release"
        }
    }
    fn rule(&self) -> String {
        "each case = one seeded history of 1..400 malloc/calloc/realloc/free/verify operations (<=24 live blocks per owner) on a fresh Dlmalloc over the simulated address space; sizes from per-run profiles (1..300, small/tree-bin boundaries +-17, 64 KiB granularity +-40, 2 MiB trim threshold +-64 KiB, powers of two to 16 MiB, mixed), alignments 1..8192; each mmap is placed by decision directly above / directly below an existing mapping or isolated; mmap/mremap/munmap refusals by per-run fault profile (none, sparse, burst at a position, heavy, mremap+munmap always), faults stop at a drawn position; 1 case in 8 drives Mutex<Dlmalloc> from 2..3 simulated threads; odd-numbered workers run the debug build (allocator self-checks on). non-trivial = >=3 allocations, >=1 adjacent placement, and >=1 refusal or trim/unmap; distinct = hash of operation results and provider counters".into()
    }
    fn assumptions(&self) -> Vec<String> {
        vec![
            "blocks larger than 64 KiB are pattern-checked at head, tail and one byte per page".into(),
            "the provider models anonymous private mappings only (what the allocator uses); adjacent mappings merge like kernel VMAs".into(),
        ]
    }
    fn components(&self) -> Value {
        json!({"real": ["tiny_std::allocator::dlmalloc::Dlmalloc", "tiny_std::sync::Mutex (threaded variant)", "real memory accesses inside a reserved arena"], "stub": ["mmap/mremap/munmap (memory provider: placement and refusals by decision)", "futex and threads (threaded variant)"]})
    }
    fn run(&self, case: u64, dec: Dec, opts: &RunOpts) -> RunOut {
        // variants are picked by a hash of the case number: cases are dealt to the workers
        // round-robin and odd workers run the debug build, a plain modulus would tie a variant to
        // one build profile (and to two of the sixteen workers)
        let h = simk::dec::mix(&[case, 0xc03]);
        if h % 8 == 7 {
            run_threaded(dec, opts)
        } else {
            let max = if opts.tier == Tier::Thorough && (h >> 8) % 16 == 0 { 400 } else { 120 };
            run_single(dec, opts, max)
        }
    }
}

// ======================= C04: footprint =======================

#[derive(Clone, Copy)]
struct Req {
    size: usize,
    align: usize,
    /// reached by doubling reallocs from an eighth of the size (a growing Vec)
    grow: bool,
    /// requested zeroed (calloc)
    zeroed: bool,
    /// > 0: reallocated down to this size right after the allocation and kept at that size
    shrink_to: usize,
}

struct Round {
    /// small blocks allocated during the first round (after request `.0`) and kept until the end:
    /// ordinary long-lived program state that keeps the heap from collapsing into one trimmed top
    pins: Vec<(usize, usize)>,
    /// index of a pin that is given back right after the pins were allocated: a hole between
    /// long-lived blocks that stays for the whole run
    pin_freed_at_once: Option<usize>,
    /// a block allocated and freed before anything else (shapes the first mapping and top)
    warm: usize,
    reqs: Vec<Req>,
    /// (after request i, free block j < i): frees in the middle of the round
    early_frees: Vec<(usize, usize)>,
    /// order in which the blocks of a round are freed (indices into reqs)
    free_order: Vec<usize>,
}

/// `big_holes`: rounds of a few huge blocks with separators, holes opened in the middle of the
/// round and at least one long-lived block (the states in which the open-ended last tree bin and
/// the fall-through between tree bins decide whether freed space is found again)
fn gen_round(dec: &mut Dec, big_holes: bool) -> Round {
    let profile = if big_holes { 7 } else { dec.choose(K::Cfg, 9).min(7) };
    let n = if profile == 7 { 2 + dec.choose(K::Op, 7) as usize } else { 1 + dec.choose(K::Op, 50) as usize };
    let npins = if big_holes { 1 + dec.choose(K::Cfg, 2) as usize } else { *dec.pick(K::Cfg, &[0usize, 0, 1, 2, 3]) };
    let pins: Vec<(usize, usize)> = (0..npins).map(|_| (dec.choose(K::Arg, n as u32) as usize, 16 + dec.choose(K::Arg, 1000) as usize)).collect();
    let mut bigs = 0;
    let mut reqs = Vec::with_capacity(n);
    for _ in 0..n {
        let mut size = gen_size(dec, profile);
        if size > (1 << 20) {
            bigs += 1;
            if bigs > 6 {
                size = 1 + size % 9000;
            }
        }
        reqs.push(Req { size, align: if profile == 7 { 1usize << dec.choose(K::Arg, 5) } else { gen_align(dec) }, grow: !big_holes && dec.chance(K::Arg, 1, 5), zeroed: size <= (2 << 20) && dec.chance(K::Arg, 1, 4), shrink_to: 0 });
    }
    let mut free_order: Vec<usize> = (0..n).collect();
    match dec.choose(K::Cfg, 4) {
        0 => {}
        1 => free_order.reverse(),
        2 => {
            // evens then odds
            free_order.sort_by_key(|i| (i % 2, *i));
        }
        _ => {
            for i in (1..n).rev() {
                let j = dec.choose(K::Arg, i as u32 + 1) as usize;
                free_order.swap(i, j);
            }
        }
    }
    let mut early_frees = Vec::new();
    let density = if big_holes { 1 + dec.choose(K::Cfg, 3) } else { *dec.pick(K::Cfg, &[0u32, 0, 1, 2]) };
    if density > 0 {
        for i in 1..n {
            if dec.chance(K::Op, density, 4) {
                early_frees.push((i, dec.choose(K::Arg, i as u32) as usize));
                if dec.chance(K::Op, 1, 3) {
                    early_frees.push((i, dec.choose(K::Arg, i as u32) as usize));
                }
            }
        }
    }
    if big_holes && dec.chance(K::Cfg, 1, 3) {
        // the exact-split form: a hole between two live fences is opened, a first request is split
        // off it and a second one is sized to take the remainder exactly (no byte to spare)
        let chunk = |r: usize| ((r + 8 + 15) & !15).max(32);
        let hole = *dec.pick(K::Arg, &[256usize << 10, 1 << 20, 3 << 19]) + 16 * dec.choose(K::Arg, 64) as usize;
        // the first request is small (its remainder becomes the designated victim) or not
        let first = if dec.chance(K::Arg, 2, 3) { 8 + 8 * dec.choose(K::Arg, 28) as usize } else { 256 + 16 * dec.choose(K::Arg, 4096) as usize };
        let second = chunk(hole) - chunk(first) - 8;
        let warm = if dec.chance(K::Arg, 1, 2) { hole + (hole >> 1) + 4096 * dec.choose(K::Arg, 64) as usize } else { 0 };
        let r = |size| Req { size, align: 8, grow: false, zeroed: false, shrink_to: 0 };
        // fences and the hole are long-lived: allocated once, the hole given back at once; every
        // round then takes the two requests out of the hole and gives them back (either order)
        let reqs = vec![r(first), r(second)];
        let free_order = if dec.chance(K::Arg, 1, 2) { vec![1, 0] } else { vec![0, 1] };
        return Round { pins: vec![(0, 64), (0, hole), (0, 64)], pin_freed_at_once: Some(1), warm, early_frees: Vec::new(), reqs, free_order };
    }
    if big_holes && dec.chance(K::Cfg, 1, 2) {
        // the plain form of the family: two huge blocks kept apart by a small one, both freed,
        // then 1..4 huge blocks that fit the holes
        let huge = |dec: &mut Dec| ((6 + dec.choose(K::Arg, 36) as usize) << 20) + 4096 * dec.choose(K::Arg, 512) as usize;
        let r = |size| Req { size, align: 8, grow: false, zeroed: false, shrink_to: 0 };
        let mut reqs = vec![r(huge(dec)), r(16 + dec.choose(K::Arg, 2000) as usize), r(huge(dec))];
        let z = huge(dec);
        for _ in 0..1 + dec.choose(K::Arg, 4) {
            reqs.push(r(if dec.chance(K::Arg, 2, 3) { z } else { huge(dec) }));
        }
        let n = reqs.len();
        return Round { pins: vec![(0, 64)], pin_freed_at_once: None, warm: 0, early_frees: vec![(2, 0), (2, 2)], reqs, free_order: (0..n).collect() };
    }
    Round { pins, pin_freed_at_once: None, warm: 0, early_frees, reqs, free_order }
}

/// A round of big blocks that are each reallocated down to a small size at once and kept until the
/// end of the round.  Each request is a little smaller than the one before, so that it fits into the
/// space the previous shrink gave back: the mapped total stays near one big block plus the small
/// ones, unless a shrink keeps the space it no longer needs.
fn gen_shrink_round(dec: &mut Dec) -> Round {
    let n = 16 + dec.choose(K::Op, 33) as usize;
    let big = ((1 + dec.choose(K::Arg, 4) as usize) << 20) + 4096 * dec.choose(K::Arg, 64) as usize;
    let shrink_to = *dec.pick(K::Arg, &[16usize, 64, 1000, 4096]);
    let align = *dec.pick(K::Arg, &[8usize, 16, 32, 64, 64, 256, 4096]);
    let step = ((shrink_to + 15) & !15) + 64 + if align > 16 { 2 * align } else { 0 };
    let reqs: Vec<Req> = (0..n).map(|i| Req { size: big - i * step, align, grow: false, zeroed: false, shrink_to }).collect();
    Round { pins: vec![(0, 64)], pin_freed_at_once: None, warm: 0, early_frees: Vec::new(), reqs, free_order: if dec.chance(K::Arg, 1, 2) { (0..n).collect() } else { (0..n).rev().collect() } }
}

/// The growth oracle over the per-window maxima of the mapped byte total.
pub(crate) fn growth_violation(windows: &[usize], m_end: usize, peak_live: usize, rounds: usize, arena_exhausted: bool) -> Option<Violation> {
    // growth that ran into the end of the simulated address space stops growing: the plateau at
    // the top is the same verdict
    // (without a refusal the same plateau is accepted only below 8 x peak live bytes: a heap that
    // filled more than half of the address space at 8 times its demand grew until it met the wall)
    if m_end > ARENA / 2 && (arena_exhausted && m_end > 3 * peak_live + (8 << 20) || m_end > 8 * peak_live + (64 << 20)) {
        return Some(Violation {
            sig: "footprint|unbounded-growth".into(),
            detail: format!("mapped bytes grew until the simulated address space ({ARENA} bytes) was used up while the same allocate-then-free-everything round repeats: window maxima {windows:?} over {rounds} rounds, {m_end} bytes mapped at the end, peak live bytes {peak_live}"),
        });
    }
    if windows.len() < 5 {
        return None;
    }
    let w = &windows[windows.len() - 5..];
    let increasing = w.windows(2).all(|p| p[1] > p[0]);
    let growth = w[4].saturating_sub(w[0]);
    if increasing && growth >= 4 * 65536 && m_end > 3 * peak_live + (8 << 20) {
        return Some(Violation {
            sig: "footprint|unbounded-growth".into(),
            detail: format!(
                "mapped bytes keep growing while the same allocate-then-free-everything round repeats: window maxima {:?} over {rounds} rounds, {m_end} bytes mapped at the end, peak live bytes {peak_live}",
                w
            ),
        });
    }
    None
}

fn run_footprint_single(dec: Dec, opts: &RunOpts, rounds: usize, big_holes: bool) -> RunOut {
    let mut sim = Sim::new(dec, SimCfg { record: opts.record, ..SimCfg::default() });
    let mut round = gen_round(&mut sim.dec, big_holes);
    let shrink_family = !big_holes && sim.dec.chance(K::Cfg, 1, 6);
    if shrink_family {
        round = gen_shrink_round(&mut sim.dec);
    }
    if std::env::var_os("VERIF_C04_DEMO").is_some() {
        // debugging aid, never part of a registered command: one fixed big-holes round
        let mib = 1usize << 20;
        let r = |size| Req { size, align: 8, grow: false, zeroed: false, shrink_to: 0 };
        round = Round {
            pins: vec![(0, 64)],
            pin_freed_at_once: None,
            warm: 0,
            reqs: vec![r(13 * mib), r(512), r(32 * mib), r(23 * mib - 4096), r(23 * mib - 4096), r(23 * mib - 4096), r(23 * mib - 4096)],
            early_frees: vec![(2, 0), (2, 2)],
            free_order: (0..7).collect(),
        };
    }
    // a quarter of the runs with refusals: sparse mmap refusals, or the release calls (mremap shrink of a
    // trim, munmap of a free segment) failing now and then or always: what could not be given back
    // must stay usable, the footprint must still not keep growing
    let faults = if !big_holes && !shrink_family && sim.dec.chance(K::Cfg, 1, 4) {
        match sim.dec.choose(K::Cfg, 4) {
            0 | 1 => FaultCfg { mmap_p: 1, ..FaultCfg::default() },
            2 => FaultCfg { mremap_p: 4, munmap_p: 4, ..FaultCfg::default() },
            _ => FaultCfg { mremap_p: 16, munmap_p: *sim.dec.pick(K::Cfg, &[0u32, 16]), ..FaultCfg::default() },
        }
    } else {
        FaultCfg::default()
    };
    let churn = !big_holes && !shrink_family && sim.dec.chance(K::Cfg, 1, 4);
    // placement policy of the run: per call by decision, or consistently adjacent (Linux's
    // top-down layout puts each new mapping directly below the previous one)
    let mut policy = if big_holes { *sim.dec.pick(K::Cfg, &[0u8, 1, 1, 1, 2]) } else { *sim.dec.pick(K::Cfg, &[0u8, 0, 0, 1, 2]) };
    if let Some(p) = std::env::var_os("VERIF_C04_DEMO") {
        policy = p.to_string_lossy().parse().unwrap_or(1);
    }
    with_prov(|p| p.policy = policy);
    let k = MemKern::new(faults, false);
    sim.set_kernel(&k);
    let mut stats = Stats::default();
    let mut windows: Vec<usize> = Vec::new();
    let mut peak_live = 0usize;
    let mut m_end = 0usize;
    let mut panic_v = None;
    sched::with_installed(&mut sim, || {
        let mut a = Dlmalloc::new();
        let r = std::panic::catch_unwind(std::panic::AssertUnwindSafe(|| {
            let wlen = (rounds / 8).max(1);
            let mut wmax = 0usize;
            let mut ptrs: Vec<usize> = vec![0; round.reqs.len()];
            let mut pinned: Vec<usize> = Vec::new();
            let mut pinned_bytes = 0usize;
            if round.warm > 0 {
                let w = unsafe { a.malloc(round.warm, 8) };
                if !w.is_null() {
                    unsafe { a.free(w) };
                }
            }
            for r in 0..rounds {
                let mut live = pinned_bytes;
                for (i, q) in round.reqs.iter().enumerate() {
                    if r == 0 {
                        for (after, sz) in &round.pins {
                            if *after == i {
                                let p = unsafe { a.malloc(*sz, 8) } as usize;
                                pinned.push(p);
                                if p != 0 {
                                    pinned_bytes += *sz;
                                    live += *sz;
                                }
                            }
                        }
                        if i == 0 {
                            if let Some(k) = round.pin_freed_at_once {
                                if pinned.get(k).is_some_and(|p| *p != 0) {
                                    unsafe { a.free(pinned[k] as *mut u8) };
                                    pinned[k] = 0;
                                    pinned_bytes -= round.pins[k].1;
                                    live -= round.pins[k].1;
                                }
                            }
                        }
                    }
                    let p = if q.grow && q.size >= 16 {
                        // grow to the size by doubling, like a Vec being pushed to
                        let mut cur = (q.size / 8).max(1);
                        let mut p = unsafe { a.malloc(cur, q.align) } as usize;
                        while p != 0 && cur < q.size {
                            let next = (cur * 2).min(q.size);
                            let np = unsafe { a.realloc(p as *mut u8, cur, q.align, next) } as usize;
                            stats.reallocs += 1;
                            if np == 0 {
                                // the old block stays valid: give it back, this request is not served
                                unsafe { a.free(p as *mut u8) };
                            }
                            p = np;
                            cur = next;
                        }
                        p
                    } else if q.zeroed {
                        (unsafe { a.calloc(q.size, q.align) }) as usize
                    } else {
                        (unsafe { a.malloc(q.size, q.align) }) as usize
                    };
                    stats.allocs += 1;
                    if p == 0 {
                        stats.nulls += 1;
                    } else {
                        live += q.size;
                        unsafe { *(p as *mut u8) = 1 };
                    }
                    let mut p = p;
                    if q.shrink_to > 0 && p != 0 {
                        let np = unsafe { a.realloc(p as *mut u8, q.size, q.align, q.shrink_to) } as usize;
                        stats.reallocs += 1;
                        if np != 0 {
                            // peak demand is taken before the shrink: both sizes never count at once
                            peak_live = peak_live.max(live);
                            live = live - q.size + q.shrink_to;
                            p = np;
                            unsafe { *(p as *mut u8) = 1 };
                        }
                    }
                    ptrs[i] = p;
                    if churn && i % 3 == 2 && ptrs[i - 1] != 0 {
                        // steady-state churn: give one back early and take it again later
                        unsafe { a.free(ptrs[i - 1] as *mut u8) };
                        live -= round.reqs[i - 1].size;
                        ptrs[i - 1] = 0;
                        stats.frees += 1;
                    }
                    // blocks given back in the middle of the round (holes between the live ones)
                    for (after, j) in &round.early_frees {
                        if *after == i && ptrs[*j] != 0 {
                            unsafe { a.free(ptrs[*j] as *mut u8) };
                            live -= round.reqs[*j].size;
                            ptrs[*j] = 0;
                            stats.frees += 1;
                        }
                    }
                    peak_live = peak_live.max(live);
                    wmax = wmax.max(with_prov(|p| p.total));
                }
                for &i in &round.free_order {
                    if ptrs[i] != 0 {
                        unsafe { a.free(ptrs[i] as *mut u8) };
                        ptrs[i] = 0;
                        stats.frees += 1;
                    }
                }
                wmax = wmax.max(with_prov(|p| p.total));
                if (r + 1) % wlen == 0 {
                    windows.push(wmax);
                    wmax = 0;
                }
                if k.viol.borrow().is_some() {
                    return;
                }
            }
            m_end = with_prov(|p| p.total);
        }));
        if r.is_err() {
            let (msg, loc) = sched::take_last_panic().unwrap_or_default();
            let loc = sched::short_loc(&loc);
            panic_v = Some(Violation { sig: format!("panic|{loc}"), detail: format!("allocator panicked at {loc}: {msg}") });
        }
    });
    if std::env::var_os("VERIF_C04_DEMO").is_some() {
        eprintln!("exhausted {} windows {windows:?} m_end {m_end} peak_live {peak_live} mmaps {} unmaps {} above {} below {} isolated {}", with_prov(|p| p.n_exhausted), with_prov(|p| p.n_mmap), with_prov(|p| p.n_munmap), with_prov(|p| p.n_above), with_prov(|p| p.n_below), with_prov(|p| p.n_isolated));
    }
    let mut gv = growth_violation(&windows, m_end, peak_live, rounds, with_prov(|p| p.n_exhausted) > 0);
    let peak_mapped = windows.iter().copied().max().unwrap_or(0);
    if shrink_family && gv.is_none() && peak_mapped > 3 * peak_live + (8 << 20) {
        gv = Some(Violation {
            sig: "footprint|shrunk-space-not-reused".into(),
            detail: format!("{} blocks of about {} bytes (align {}) were each reallocated down to {} bytes before the next one was requested: {peak_mapped} bytes mapped at the peak, peak live bytes {peak_live}", round.reqs.len(), round.reqs[0].size, round.reqs[0].align, round.reqs[0].shrink_to),
        });
    }
    let sample = json!({"variant": "single-threaded rounds", "rounds": rounds, "requests_per_round": round.reqs.len(), "first_requests": round.reqs.iter().take(12).map(|q| json!([q.size, q.align])).collect::<Vec<_>>(), "churn": churn, "window_maxima_of_mapped_bytes": windows, "mapped_at_end": m_end, "peak_live_bytes": peak_live});
    let mut out = finish(&mut sim, &k, &stats, false, opts, sample, panic_v.or(gv));
    out.nontrivial = round.reqs.len() >= 3 && out.counters.get("probe.munmap_calls").copied().unwrap_or(0) + out.counters.get("probe.trim_by_mremap_shrink").copied().unwrap_or(0) >= 1;
    out.counters.insert("rounds", rounds as u64);
    out.counters.insert("probe.runs_with_shrunk_blocks", u64::from(shrink_family));
    out.counters.insert("probe.runs_with_realloc_growth", u64::from(round.reqs.iter().any(|q| q.grow && q.size >= 16)));
    out
}

fn run_footprint_threaded(dec: Dec, opts: &RunOpts, rounds: usize) -> RunOut {
    let mut sim = Sim::new(dec, SimCfg { record: opts.record, est_len: 2000, budget: 5_000_000, fair_budget: 5_000_000, ..SimCfg::default() });
    let nthreads = 2 + sim.dec.choose(K::Cfg, 2) as usize;
    let rds: Vec<Round> = (0..nthreads).map(|_| {
        let mut r = gen_round(&mut sim.dec, false);
        r.reqs.truncate(16);
        r.free_order.retain(|i| *i < 16);
        r
    }).collect();
    sim.draw_strategy(nthreads);
    let k = Rc::new(MemKern::new(FaultCfg::default(), true));
    sim.set_kernel(&*k);
    let alloc = Rc::new(Mutex::new(Dlmalloc::new()));
    let stats = Rc::new(RefCell::new(Stats::default()));
    let windows = Rc::new(RefCell::new(Vec::<usize>::new()));
    let wmax = Rc::new(Cell::new(0usize));
    let live = Rc::new(Cell::new(0usize));
    let peak_live = Rc::new(Cell::new(0usize));
    let wlen = (rounds / 8).max(1);
    let nreq: Vec<usize> = rds.iter().map(|r| r.reqs.len()).collect();
    for (t, rd) in rds.into_iter().enumerate() {
        let (alloc, stats, windows, wmax, live, peak_live) = (alloc.clone(), stats.clone(), windows.clone(), wmax.clone(), live.clone(), peak_live.clone());
        sim.spawn(
            &format!("f{t}"),
            Box::new(move || {
                let mut ptrs = vec![0usize; rd.reqs.len()];
                for r in 0..rounds {
                    for (i, q) in rd.reqs.iter().enumerate() {
                        let p = unsafe { alloc.lock().malloc(q.size, q.align) } as usize;
                        stats.borrow_mut().allocs += 1;
                        if p != 0 {
                            live.set(live.get() + q.size);
                            peak_live.set(peak_live.get().max(live.get()));
                        }
                        ptrs[i] = p;
                        wmax.set(wmax.get().max(with_prov(|p| p.total)));
                    }
                    for &i in &rd.free_order {
                        if ptrs[i] != 0 {
                            unsafe { alloc.lock().free(ptrs[i] as *mut u8) };
                            live.set(live.get() - rd.reqs[i].size);
                            ptrs[i] = 0;
                            stats.borrow_mut().frees += 1;
                        }
                    }
                    if t == 0 && (r + 1) % wlen == 0 {
                        windows.borrow_mut().push(wmax.get());
                        wmax.set(0);
                    }
                }
            }),
        );
    }
    sched::run(&mut sim);
    let m_end = with_prov(|p| p.total);
    let w = windows.borrow().clone();
    let gv = if sim.violation.is_none() { growth_violation(&w, m_end, peak_live.get(), rounds, with_prov(|p| p.n_exhausted) > 0) } else { None };
    let sample = json!({"variant": "multi-threaded rounds through tiny_std::sync::Mutex<Dlmalloc>", "threads": nthreads, "rounds": rounds, "requests_per_round": nreq, "window_maxima_of_mapped_bytes": w, "mapped_at_end": m_end, "peak_live_bytes": peak_live.get()});
    let st = stats.borrow();
    let mut out = finish(&mut sim, &k, &st, true, opts, sample, gv);
    out.nontrivial = sim.switches >= 2 && out.counters.get("probe.munmap_calls").copied().unwrap_or(0) + out.counters.get("probe.trim_by_mremap_shrink").copied().unwrap_or(0) >= 1;
    out.counters.insert("rounds", rounds as u64);
    out
}

impl Check for C04 {
    fn id(&self) -> &'static str {
        "C04"
    }
    fn level(&self) -> &'static str {
        "exploration"
    }
    fn engine(&self) -> &'static str {
        "simk (engine A): memory provider with exact mapped-byte accounting"
    }
    fn cases(&self, tier: Tier) -> u64 {
        match tier {
            Tier::Quick => 2_400,
            Tier::Thorough => 16_000,
        }
    }
    fn rule(&self) -> String {
        "each case = one seeded workload round (1..50 requests from the C03 size profiles and alignments, free order forward/reverse/interleaved/random, frees in the middle of a round, 0..3 small long-lived blocks, 1 request in 5 reached by doubling reallocs from an eighth of its size, a huge-size profile of 6..42 MiB (every 4th case is of the big-holes family: 2..8 huge blocks with separators, frees in the middle of the round and 1..2 long-lived blocks), optional steady-state churn, optional refusals: sparse mmap refusals, or mremap/munmap (the release calls of trim and segment release) failing sparsely or always) repeated N times on one Dlmalloc (quick N=200; thorough N=200, one case in 12 N=3000) over the simulated address space with placement by decision; 1 case in 6 runs 2..3 simulated threads through Mutex<Dlmalloc>. The provider's exact mapped-byte total is sampled after every call; maxima per window of N/8 rounds. Violation = maxima strictly increasing over the last 5 windows AND total growth >= 256 KiB AND mapped bytes at the end > 3 x peak live bytes + 8 MiB; or: mapped bytes at the end exceed half of the simulated 4 GiB address space and either a mapping was refused for lack of room with the end above 3 x peak live bytes + 8 MiB, or the end is above 8 x peak live bytes + 64 MiB (growth that stopped at the wall). One run in 5x2 uses a consistent placement policy (top-down: every new mapping directly below the lowest one, as Linux lays mappings out; or bottom-up) instead of a placement drawn per call. non-trivial = >=3 requests per round and at least one trim or unmap happened; distinct = hash over operation counts and provider counters. Every 13th case (case % 13 == 12) runs on engine B instead (crates/checks/src/c04b.rs): probes/allocprobe, a no-libc binary whose global allocator is tiny-std's own GlobalDlMalloc, under the ptrace simulator: 64..200 rounds of 2..4 real threads (1 case in 6: main alone) each doing 1..5 times 'allocate 2..8 blocks (small/medium/>=64 KiB profiles), touch, free in a generated order', all joined, one uncontended alloc/free on main, ROUND_END; scheduling points at every system call and right after every atomic instruction (breakpoints), 2..6 further single steps behind an atomic instruction every other time with the preempted thread held back 0..12 quanta, <=24 random bursts; mapped bytes = the tracer's mapping ledger at each ROUND_END (cross-checked with /proc/pid/maps); same growth oracle, signature footprint|unbounded-growth|global-allocator; non-trivial there = >=2 threads and a futex park or a burst while two threads were alive".into()
    }
    fn assumptions(&self) -> Vec<String> {
        vec![
            "the oracle decides unbounded growth, not a tight constant: a bounded plateau of any height is accepted".into(),
            "the engine-A threaded variant drives tiny_std::sync::Mutex<Dlmalloc> (the composition GlobalDlMalloc uses); the private GlobalDlMalloc wrapper type itself runs only in the engine-B cases (1 in 12), as the #[global_allocator] of probes/allocprobe".into(),
            "engine-B cases: sequentially consistent interleavings at atomic-instruction / system-call granularity (plus single-step windows); mapped bytes are sampled at round ends only".into(),
        ]
    }
    fn components(&self) -> Value {
        json!({"real": ["tiny_std::allocator::dlmalloc::Dlmalloc", "tiny_std::sync::Mutex (threaded variant)"], "stub": ["mmap/mremap/munmap (memory provider)", "futex and threads (threaded variant)", "the GlobalAlloc wrapper (GlobalDlMalloc) is replaced by an equivalent Mutex<Dlmalloc> in the engine-A harness; engine-B cases: real GlobalDlMalloc, real threads and kernel mmap/munmap, stubbed scheduling/futex (ptsim)"]})
    }
    fn run(&self, case: u64, dec: Dec, opts: &RunOpts) -> RunOut {
        // every 12th case: the private GlobalDlMalloc wrapper itself, real threads, engine B
        if case % 13 == 12 {
            return crate::c04b::c04_engine_b(case, dec, opts);
        }
        // long runs are picked by a hash of the case number (cases are dealt to the workers
        // round-robin: a plain modulus would give all of them to two workers)
        let rounds = if opts.tier == Tier::Thorough && simk::dec::mix(&[case, 0x10] ) % 12 == 0 { 3000 } else { 200 };
        let h = simk::dec::mix(&[case, 0xc04]);
        if h % 6 == 5 {
            run_footprint_threaded(dec, opts, rounds.min(400))
        } else {
            // every 4th case: the big-holes family
            run_footprint_single(dec, opts, rounds, (h >> 8) % 4 == 1)
        }
    }
}
