//! C01 — Mutex: mutual exclusion, visibility, no lost wake-up, try_lock semantics.
//! Real `tiny_std::sync::Mutex` driven by 2..4 simulated threads; every seam atomic operation and
//! every futex call is a scheduling point.

use serde_json::{json, Value};
use simk::dec::{Dec, K};
use simk::kern;
use simk::runner::{Check, RunOpts, RunOut, Tier};
use simk::sched::{self, sim, Kernel, Sim, SimCfg};
use simk::vc::Tracked;
use std::cell::Cell;
use std::rc::Rc;
use tiny_std::sync::Mutex;

pub struct C01;

#[derive(Clone, Copy, Debug)]
enum Op {
    Lock { m: usize, k: u32 },
    TryLock { m: usize, k: u32 },
    Yield,
}

struct Shared {
    mutexes: Vec<Mutex<Tracked<u64>>>,
    /// guards alive (incremented right after a guard is obtained, decremented right before drop)
    holders: Vec<Cell<i32>>,
    /// holders plus threads still inside the guard's drop
    busy: Vec<Cell<i32>>,
    acquisitions: Vec<Cell<u64>>,
    model: Vec<Cell<u64>>,
}

const TAG_IN_TRY: u64 = 1;

struct Kern;

impl Kernel for Kern {
    fn syscall(&self, nr: usize, a: [usize; 6]) -> usize {
        if nr == sc::nr::FUTEX && (a[1] & 0x7f) == 0 {
            let s = sim().unwrap();
            if let Some(c) = s.cur {
                if s.threads[c].tag == TAG_IN_TRY {
                    sched::fail("try_lock|parks", format!("t{c} entered FUTEX_WAIT inside try_lock"));
                }
            }
        }
        kern::default_syscall(nr, a)
    }
}

fn critical(sh: &Shared, m: usize, k: u32, tag: u64, cell: &Tracked<u64>) {
    let h = sh.holders[m].get() + 1;
    sh.holders[m].set(h);
    sh.busy[m].set(sh.busy[m].get() + 1);
    sh.acquisitions[m].set(sh.acquisitions[m].get() + 1);
    if h > 1 {
        sched::fail("exclusion|two-guards", format!("two guards of mutex {m} exist at once"));
    }
    if k == 0 {
        // a critical section without accesses still lasts for a while: others may run inside it
        sched::yield_now();
    }
    for i in 0..k {
        let v = cell.read();
        let nv = v.wrapping_mul(31).wrapping_add(tag * 8 + u64::from(i));
        cell.write(nv);
        sh.model[m].set(sh.model[m].get().wrapping_mul(31).wrapping_add(tag * 8 + u64::from(i)));
    }
    if sh.holders[m].get() != 1 {
        sched::fail("exclusion|two-guards", format!("two guards of mutex {m} exist at once"));
    }
    sh.holders[m].set(sh.holders[m].get() - 1);
}

fn thread_body(sh: Rc<Shared>, prog: Vec<Op>, tid_tag: u64) {
    for (i, op) in prog.iter().enumerate() {
        let tag = tid_tag * 16 + i as u64;
        match *op {
            Op::Yield => sched::yield_now(),
            Op::Lock { m, k } => {
                if let Some(s) = sim() {
                    s.trace.ev(|| format!("t{} lock(m{m}) ...", sched::cur_tid()));
                }
                let g = sh.mutexes[m].lock();
                if let Some(s) = sim() {
                    s.trace.ev(|| format!("t{} holds m{m}", sched::cur_tid()));
                }
                critical(&sh, m, k, tag, &g);
                drop(g);
                sh.busy[m].set(sh.busy[m].get() - 1);
                if let Some(s) = sim() {
                    s.trace.ev(|| format!("t{} released m{m}", sched::cur_tid()));
                }
            }
            Op::TryLock { m, k } => {
                let s = sim().unwrap();
                let c = s.cur.unwrap();
                s.threads[c].tag = TAG_IN_TRY;
                let b0 = sh.busy[m].get() > 0;
                let a0 = sh.acquisitions[m].get();
                let r = sh.mutexes[m].try_lock();
                let s = sim().unwrap();
                s.threads[c].tag = 0;
                match r {
                    Some(g) => {
                        s.count("try_lock.some");
                        s.trace.ev(|| format!("t{c} try_lock(m{m}) -> guard"));
                        critical(&sh, m, k, tag, &g);
                        drop(g);
                        sh.busy[m].set(sh.busy[m].get() - 1);
                    }
                    None => {
                        s.count("try_lock.none");
                        s.trace.ev(|| format!("t{c} try_lock(m{m}) -> None"));
                        let legit = b0 || sh.busy[m].get() > 0 || sh.acquisitions[m].get() != a0;
                        if !legit {
                            sched::fail(
                                "try_lock|spurious-none",
                                format!("t{c}: try_lock(m{m}) failed although no guard existed at any instant of the call"),
                            );
                        }
                    }
                }
            }
        }
    }
}

fn describe(progs: &[Vec<Op>]) -> Value {
    Value::Array(
        progs
            .iter()
            .map(|p| {
                Value::Array(
                    p.iter()
                        .map(|o| match o {
                            Op::Lock { m, k } => json!(format!("lock(m{m});{k} rmw;drop")),
                            Op::TryLock { m, k } => json!(format!("try_lock(m{m});{k} rmw;drop")),
                            Op::Yield => json!("yield"),
                        })
                        .collect(),
                )
            })
            .collect(),
    )
}

impl Check for C01 {
    fn id(&self) -> &'static str {
        "C01"
    }
    fn level(&self) -> &'static str {
        "exploration"
    }
    fn engine(&self) -> &'static str {
        "simk (engine A): coroutine scheduler + futex model + atomics seam"
    }
    fn cases(&self, tier: Tier) -> u64 {
        match tier {
            Tier::Quick => 2_000_000,
            Tier::Thorough => 200_000_000,
        }
    }
    fn rule(&self) -> String {
        "each case = one seeded run: 2..4 simulated threads with generated programs (<=6 ops of lock/try_lock/yield, 0..3 tracked read-modify-writes per critical section) over 1..2 Mutexes; the decision stream picks the scheduling strategy (random/sticky/PCT/starvation), the thread at every atomic op, futex call and tracked access, the waiter a wake picks, up to 3 spurious futex returns / EINTRs, and spurious failures of weak compare-exchange operations (1/4 or 1/16, up to 4). private and shared futex operations use separate wait queues; after the last guard is gone try_lock must succeed. non-trivial = at least one thread parked in futex wait AND >=2 context switches; distinct = distinct hash of the full event sequence (thread, point kind, values read)".into()
    }
    fn assumptions(&self) -> Vec<String> {
        vec![
            "interleavings are sequentially consistent; a weakened ordering is detected as a missing happens-before edge on the protected data (vector clocks), not as a stale value".into(),
            "the futex model is the simulator's (value check + enqueue atomic, wake picks by decision)".into(),
            "threads hold one lock at a time (the property's premise)".into(),
        ]
    }
    fn components(&self) -> Value {
        json!({"real": ["tiny_std::sync::Mutex / MutexGuard", "tiny_std::sync::futex_wait_fast", "rusl::futex::{futex_wait,futex_wake}", "core atomic instructions"], "stub": ["kernel futex wait queue (simulator)", "threads (coroutines)", "thread scheduling (decision stream)"]})
    }

    fn run(&self, _case: u64, dec: Dec, opts: &RunOpts) -> RunOut {
        let mut sim = Sim::new(dec, SimCfg { record: opts.record, est_len: 200, ..SimCfg::default() });
        let nthreads = 2 + sim.dec.choose(K::Cfg, 3) as usize;
        let nm = 1 + sim.dec.choose(K::Cfg, 2) as usize;
        sim.spurious_futex_left = sim.dec.choose(K::Cfg, 4);
        sim.eintr_left = sim.dec.choose(K::Cfg, 4);
        // spurious failures of weak compare-exchange (the quantifier names them; Mutex uses none
        // today, a change that introduces one into try_lock must not fail spuriously)
        sim.cas_spurious_left = sim.dec.choose(K::Cfg, 5);
        sim.cas_spurious = [0, 4, 16][sim.dec.choose(K::Cfg, 3) as usize];
        let mut progs: Vec<Vec<Op>> = Vec::new();
        for _ in 0..nthreads {
            let len = 1 + sim.dec.choose(K::Op, 6) as usize;
            let mut p = Vec::new();
            for _ in 0..len {
                let m = sim.dec.choose(K::Arg, nm as u32) as usize;
                let op = match sim.dec.choose(K::Op, 8) {
                    0..=4 => Op::Lock { m, k: sim.dec.choose(K::Arg, 4) },
                    5 | 6 => Op::TryLock { m, k: sim.dec.choose(K::Arg, 4) },
                    _ => Op::Yield,
                };
                p.push(op);
            }
            progs.push(p);
        }
        sim.draw_strategy(nthreads);
        let sh = Rc::new(Shared {
            mutexes: (0..nm).map(|_| Mutex::new(Tracked::new(7, "mutex-data"))).collect(),
            holders: (0..nm).map(|_| Cell::new(0)).collect(),
            busy: (0..nm).map(|_| Cell::new(0)).collect(),
            acquisitions: (0..nm).map(|_| Cell::new(0)).collect(),
            model: (0..nm).map(|_| Cell::new(7)).collect(),
        });
        let kern = Kern;
        sim.set_kernel(&kern);
        for (i, p) in progs.iter().enumerate() {
            let (sh, p) = (sh.clone(), p.clone());
            sim.spawn(&format!("w{i}"), Box::new(move || thread_body(sh, p, i as u64 + 1)));
        }
        let t0 = sim.mono_ns;
        sched::run(&mut sim);
        if sim.violation.is_none() {
            for m in 0..nm {
                // every guard is gone: the mutex must be free (a word left at 1 or 2 would park the
                // next lock() for ever)
                let Some(g) = sh.mutexes[m].try_lock() else {
                    sim.violate("final|left-locked", format!("mutex {m} is still locked after every thread has dropped its guards"));
                    break;
                };
                let got = g.peek();
                drop(g);
                if got != sh.model[m].get() {
                    sim.violate("visibility|final-value", format!("mutex {m}: data {got} != model {} (an update was lost)", sh.model[m].get()));
                }
            }
        }
        let parked = sim.counters.get("futex.parked").copied().unwrap_or(0);
        let mut out = RunOut {
            violation: sim.violation.take(),
            hash: sim.trace.hash,
            shape: sim.trace.hash,
            nontrivial: parked >= 1 && sim.switches >= 2,
            sim_ns: sim.mono_ns - t0,
            steps: sim.steps,
            events: sim.trace.events.take().unwrap_or_default(),
            decisions: std::mem::take(&mut sim.dec.log),
            ..RunOut::default()
        };
        out.counters = std::mem::take(&mut sim.counters);
        *out.counters.entry("probe.run_with_futex_park").or_insert(0) += u64::from(parked >= 1);
        if opts.record {
            out.sample = Some(json!({"threads": nthreads, "mutexes": nm, "strategy": format!("{:?}", sim.strategy), "programs": describe(&progs)}));
        }
        out
    }
}
