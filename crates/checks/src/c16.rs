//! C16 — stream sockets: complete, ordered, unduplicated delivery under filling buffers; blocking
//! calls complete when the peer acts; Timeout not before the limit; try_* never block; SCM_RIGHTS
//! descriptors delivered exactly without reading outside the control buffer.
//! Server and client are simulated threads on REAL kernel sockets; the only blocking call of
//! tiny-std's socket code, ppoll, is managed by the simulator on the simulated clock.

use rusl::platform::*;
use rusl::string::unix_str::UnixString;
use serde_json::{json, Value};
use simk::dec::{Dec, K};
use simk::kern::{self, neg, Ts};
use simk::runner::{Check, RunOpts, RunOut, Tier};
use simk::sched::{self, block, sim, Kernel, Sim, SimCfg, Violation, Wake};
use std::cell::{Cell, RefCell};
use std::rc::Rc;
use std::time::Duration;
use tiny_std::io::{Read, Write};
use tiny_std::net::{Ip, SocketAddress, TcpListener, TcpStream, UnixListener, UnixStream};
use tiny_std::unix::fd::AsRawFd;

pub struct C16;

const TAG_TRY: u64 = 7;

struct NetKern {
    short_p: Cell<u32>,
    eintr_left: Cell<u32>,
    n_short: Cell<u64>,
    n_eintr: Cell<u64>,
    n_ppoll_parked: Cell<u64>,
    n_ppoll_timeout: Cell<u64>,
}

impl Kernel for NetKern {
    fn syscall(&self, nr: usize, a: [usize; 6]) -> usize {
        match nr {
            sc::nr::PPOLL => {
                let s = sim().unwrap();
                let cur = s.cur.unwrap_or(0);
                if s.threads.get(cur).is_some_and(|t| t.tag == TAG_TRY) {
                    sched::fail("try|blocks-in-ppoll", format!("t{cur} entered ppoll inside a try_* call"));
                }
                let zero = Ts { sec: 0, nsec: 0 };
                let start = s.mono_ns;
                let deadline = if a[2] != 0 {
                    let ts = unsafe { *(a[2] as *const Ts) };
                    Some(start.saturating_add((ts.sec.max(0) as u64).saturating_mul(1_000_000_000)).saturating_add(ts.nsec.max(0) as u64))
                } else {
                    None
                };
                loop {
                    let r = kern::real(nr, [a[0], a[1], std::ptr::from_ref(&zero) as usize, a[3], 8, 0]);
                    if r != 0 {
                        return r;
                    }
                    let s = sim().unwrap();
                    if deadline.is_some_and(|d| s.mono_ns >= d) {
                        self.n_ppoll_timeout.set(self.n_ppoll_timeout.get() + 1);
                        s.trace.ev(|| format!("t{cur} ppoll: simulated timeout"));
                        return 0;
                    }
                    // interrupted after part of the wait (a signal with a handler)
                    if s.faults_on && self.eintr_left.get() > 0 && s.dec.chance(K::Fault, 1, 3) {
                        self.eintr_left.set(self.eintr_left.get() - 1);
                        self.n_eintr.set(self.n_eintr.get() + 1);
                        let wait = match deadline {
                            Some(d) => {
                                let left = d.saturating_sub(s.mono_ns);
                                left / 1000 * u64::from(s.dec.choose(K::Fault, 900))
                            }
                            None => 1_000_000,
                        };
                        let until = s.mono_ns + wait;
                        s.trace.ev(|| format!("t{cur} ppoll: fault EINTR after {wait} ns"));
                        loop {
                            // the wait may end early because the peer acted
                            match block("ppoll", Some(until), true) {
                                Wake::Timeout => return neg(4),
                                _ => {
                                    let r = kern::real(nr, [a[0], a[1], std::ptr::from_ref(&zero) as usize, a[3], 8, 0]);
                                    if r != 0 {
                                        return r;
                                    }
                                }
                            }
                        }
                    }
                    self.n_ppoll_parked.set(self.n_ppoll_parked.get() + 1);
                    match block("ppoll", deadline, true) {
                        Wake::Timeout => {
                            // deadline reached: one last look, then report the timeout
                            let r = kern::real(nr, [a[0], a[1], std::ptr::from_ref(&zero) as usize, a[3], 8, 0]);
                            if r != 0 {
                                return r;
                            }
                            self.n_ppoll_timeout.set(self.n_ppoll_timeout.get() + 1);
                            return 0;
                        }
                        _ => continue,
                    }
                }
            }
            sc::nr::READ | sc::nr::WRITE => {
                let s = sim().unwrap();
                let mut a2 = a;
                if s.faults_on && a[2] > 1 && s.dec.chance(K::Fault, self.short_p.get(), 32) {
                    a2[2] = 1 + s.dec.choose(K::Fault, (a[2] - 1).min(1 << 20) as u32) as usize;
                    self.n_short.set(self.n_short.get() + 1);
                }
                let r = kern::real(nr, a2);
                sched::wake_pollers();
                r
            }
            sc::nr::SOCKET if a[0] == libc::AF_INET as usize => {
                // the simulated network has no TIME_WAIT: ports of finished runs are reusable at
                // once (tiny-std creates the socket inside bind, so this is set at the seam)
                let r = kern::real(nr, a);
                if (r as isize) >= 0 {
                    let one: i32 = 1;
                    unsafe {
                        libc::setsockopt(r as i32, libc::SOL_SOCKET, libc::SO_REUSEADDR, std::ptr::from_ref(&one).cast(), 4);
                    }
                }
                r
            }
            _ => kern::default_syscall(nr, a),
        }
    }
}

#[inline]
fn pat(i: usize) -> u8 {
    ((i.wrapping_mul(2_654_435_761) >> 7) ^ (i >> 3)) as u8
}

struct Shared {
    listening: Cell<bool>,
    done_writing: Cell<bool>,
    received: Cell<usize>,
    sent_ok: Cell<bool>,
    port: Cell<u16>,
    writer_dropped: Cell<bool>,
}

fn set_small_buffers(fd: i32, snd: i32, rcv: i32) {
    unsafe {
        libc::setsockopt(fd, libc::SOL_SOCKET, libc::SO_SNDBUF, std::ptr::from_ref(&snd).cast(), 4);
        libc::setsockopt(fd, libc::SOL_SOCKET, libc::SO_RCVBUF, std::ptr::from_ref(&rcv).cast(), 4);
    }
}

fn writer_role<S: Write + AsRawFd>(mut st: S, total: usize, chunks: &[usize], sh: &Shared, close_at_end: bool, bufs: (i32, i32)) {
    set_small_buffers(st.as_raw_fd().value(), bufs.0, bufs.1);
    let payload: Vec<u8> = (0..total).map(pat).collect();
    let mut off = 0;
    let mut ci = 0;
    while off < total {
        let c = chunks[ci % chunks.len()].min(total - off).max(1);
        ci += 1;
        if let Err(e) = st.write_all(&payload[off..off + c]) {
            sched::fail("stream|write-error", format!("write_all failed at offset {off}: {e:?}"));
        }
        off += c;
    }
    sh.sent_ok.set(true);
    sh.done_writing.set(true);
    if close_at_end {
        drop(st);
        sh.writer_dropped.set(true);
    } else {
        // keep the stream open until the reader has everything
        while sh.received.get() < total {
            sched::yield_now();
            let _ = tiny_std::thread::sleep(Duration::from_micros(50));
        }
        drop(st);
    }
}

fn reader_role<S: Read + AsRawFd>(mut st: S, total: usize, bufsizes: &[usize], sh: &Shared, until_eof: bool, bufs: (i32, i32)) {
    set_small_buffers(st.as_raw_fd().value(), bufs.0, bufs.1);
    let mut got = 0usize;
    let mut bi = 0;
    let mut buf = vec![0u8; *bufsizes.iter().max().unwrap_or(&1)];
    loop {
        if !until_eof && got >= total {
            break;
        }
        let b = bufsizes[bi % bufsizes.len()].max(1);
        bi += 1;
        match st.read(&mut buf[..b]) {
            Ok(0) => {
                if got != total {
                    sched::fail("stream|truncated", format!("end of stream after {got} of {total} bytes"));
                }
                break;
            }
            Ok(n) => {
                for (j, byte) in buf[..n].iter().enumerate() {
                    if *byte != pat(got + j) {
                        sched::fail("stream|wrong-byte", format!("byte {} of the stream is {:#x}, expected {:#x} (lost, duplicated or reordered data; {} bytes received correctly before)", got + j, byte, pat(got + j), got + j));
                    }
                }
                got += n;
                if got > total {
                    sched::fail("stream|extra-bytes", format!("received {got} bytes, {total} were sent"));
                }
                sh.received.set(got);
            }
            Err(e) => sched::fail("stream|read-error", format!("read failed after {got} bytes: {e:?}")),
        }
    }
    sh.received.set(got);
}

thread_local! {
    static NEXT_PORT: Cell<u32> = const { Cell::new(0) };
}

/// Bind a loopback listener on a port nobody else is using (ports of finished runs linger in
/// TIME_WAIT and tiny-std does not set SO_REUSEADDR): set-up of the harness, not judged.
fn bind_tcp() -> Option<(TcpListener, u16)> {
    for _ in 0..200 {
        let n = NEXT_PORT.with(|p| {
            let v = p.get();
            p.set(v + 1);
            v
        });
        let port = 20000 + ((unsafe { libc::getpid() } as u32 * 2503 + n * 7) % 40000) as u16;
        if let Ok(l) = TcpListener::bind(&SocketAddress::new(Ip::V4([127, 0, 0, 1]), port)) {
            return Some((l, port));
        }
    }
    None
}

fn gen_sizes(dec: &mut Dec, n: usize, big: bool) -> Vec<usize> {
    (0..n)
        .map(|_| match dec.choose(K::Arg, 8) {
            0 => 1,
            1 => 1 + dec.choose(K::Arg, 16) as usize,
            2 => 4096,
            3 => 1 + dec.choose(K::Arg, 5000) as usize,
            4 => 65536,
            5 if big => 1 + dec.choose(K::Arg, 1 << 20) as usize,
            _ => 1 + dec.choose(K::Arg, 40_000) as usize,
        })
        .collect()
}

struct Out {
    sample: Value,
    nontrivial: bool,
}

fn stream_case(sm: &mut Box<Sim>, k: &Rc<NetKern>, tcp: bool, slot: u64, thorough: bool) -> Out {
    let d = &mut sm.dec;
    let total = match d.choose(K::Arg, 10) {
        0 => 0,
        1 => 1,
        2 => 1 + d.choose(K::Arg, 300) as usize,
        3 | 4 => 1 + d.choose(K::Arg, 20_000) as usize,
        5..=7 => 20_000 + d.choose(K::Arg, 300_000) as usize,
        8 if thorough => 1_000_000 + d.choose(K::Arg, 3_000_000) as usize,
        _ => 100_000 + d.choose(K::Arg, 400_000) as usize,
    };
    let nchunks = 1 + d.choose(K::Arg, 4) as usize;
    let chunks = gen_sizes(d, nchunks, thorough);
    let nbufs = 1 + d.choose(K::Arg, 4) as usize;
    let bufsizes = gen_sizes(d, nbufs, thorough);
    // bound the number of calls of a run: 1-byte chunks only for payloads of a few thousand bytes
    let min_piece = chunks.iter().chain(bufsizes.iter()).copied().min().unwrap_or(1).max(1);
    let total = total.min(min_piece * 6000);
    let server_writes = d.chance(K::Arg, 1, 2);
    let close_at_end = d.chance(K::Arg, 1, 2);
    // TCP with a tiny receive buffer stalls on zero-window probes driven by real kernel timers
    // (hundreds of milliseconds), which simulated time cannot hurry: keep its receive side roomy
    let bufs = if tcp {
        (*d.pick(K::Arg, &[4096, 16384, 65536, 200_000]), *d.pick(K::Arg, &[131_072, 262_144]))
    } else {
        (*d.pick(K::Arg, &[1024, 4096, 16384, 200_000]), *d.pick(K::Arg, &[1024, 4096, 16384, 200_000]))
    };
    let client_delay = *d.pick(K::Arg, &[0u64, 0, 50, 5_000]);
    let accept_delay = *d.pick(K::Arg, &[0u64, 0, 50, 5_000]);
    k.short_p.set(*d.pick(K::Cfg, &[0, 0, 4, 16]));
    k.eintr_left.set(*d.pick(K::Cfg, &[0, 0, 2, 6]));
    sm.draw_strategy(2);
    let sh = Rc::new(Shared { listening: Cell::new(false), done_writing: Cell::new(false), received: Cell::new(0), sent_ok: Cell::new(false), port: Cell::new(0), writer_dropped: Cell::new(false) });
    let path = format!("/verif/work/c16.{}.{}.sock", unsafe { libc::getpid() }, slot % 4);
    let _ = std::fs::remove_file(&path);
    let upath = UnixString::try_from_string(path.clone()).unwrap();
    {
        let (sh, chunks, bufsizes, upath) = (sh.clone(), chunks.clone(), bufsizes.clone(), upath.clone());
        sm.spawn(
            "server",
            Box::new(move || {
                if tcp {
                    let Some((mut l, port)) = bind_tcp() else {
                        sh.port.set(1);
                        sh.listening.set(true);
                        return;
                    };
                    sh.port.set(port);
                    sh.listening.set(true);
                    if accept_delay > 0 {
                        let _ = tiny_std::thread::sleep(Duration::from_micros(accept_delay));
                    }
                    let st = match l.accept() {
                        Ok(s) => s,
                        Err(e) => sched::fail("accept|error", format!("blocking accept failed: {e:?}")),
                    };
                    if server_writes {
                        writer_role(st, total, &chunks, &sh, close_at_end, bufs);
                    } else {
                        reader_role(st, total, &bufsizes, &sh, close_at_end, bufs);
                    }
                } else {
                    let mut l = match UnixListener::bind(&upath) {
                        Ok(l) => l,
                        Err(e) => sched::fail("harness|bind", format!("{e:?}")),
                    };
                    sh.listening.set(true);
                    if accept_delay > 0 {
                        let _ = tiny_std::thread::sleep(Duration::from_micros(accept_delay));
                    }
                    let st = match l.accept() {
                        Ok(s) => s,
                        Err(e) => sched::fail("accept|error", format!("blocking accept failed: {e:?}")),
                    };
                    if server_writes {
                        writer_role(st, total, &chunks, &sh, close_at_end, bufs);
                    } else {
                        reader_role(st, total, &bufsizes, &sh, close_at_end, bufs);
                    }
                }
            }),
        );
    }
    {
        let (sh, chunks, bufsizes, upath) = (sh.clone(), chunks.clone(), bufsizes.clone(), upath.clone());
        sm.spawn(
            "client",
            Box::new(move || {
                while !sh.listening.get() {
                    sched::yield_now();
                    let _ = tiny_std::thread::sleep(Duration::from_micros(10));
                }
                if client_delay > 0 {
                    let _ = tiny_std::thread::sleep(Duration::from_micros(client_delay));
                }
                if tcp {
                    let port = sh.port.get();
                    if port == 1 {
                        return;
                    }
                    let st = match TcpStream::connect(&SocketAddress::new(Ip::V4([127, 0, 0, 1]), port)) {
                        Ok(s) => s,
                        Err(e) => sched::fail("connect|error", format!("blocking connect failed: {e:?}")),
                    };
                    if server_writes {
                        reader_role(st, total, &bufsizes, &sh, close_at_end, bufs);
                    } else {
                        writer_role(st, total, &chunks, &sh, close_at_end, bufs);
                    }
                } else {
                    let st = match UnixStream::connect(&upath) {
                        Ok(s) => s,
                        Err(e) => sched::fail("connect|error", format!("blocking connect failed: {e:?}")),
                    };
                    if server_writes {
                        reader_role(st, total, &bufsizes, &sh, close_at_end, bufs);
                    } else {
                        writer_role(st, total, &chunks, &sh, close_at_end, bufs);
                    }
                }
            }),
        );
    }
    sched::run(sm);
    let _ = std::fs::remove_file(&path);
    let no_port = tcp && sh.port.get() == 1;
    if no_port {
        // harness set-up: no loopback port could be bound; the run says nothing about tiny-std
        sm.count("harness.no_tcp_port");
    }
    if sm.violation.is_none() && !no_port && (sh.received.get() != total || !sh.sent_ok.get()) {
        sm.violate("stream|incomplete", format!("{} of {total} bytes received, writer finished: {}", sh.received.get(), sh.sent_ok.get()));
    }
    Out {
        sample: json!({"kind": if tcp { "tcp stream" } else { "unix stream" }, "bytes": total, "writer": if server_writes { "server" } else { "client" }, "write_chunks": chunks, "read_buffers": bufsizes, "so_sndbuf": bufs.0, "so_rcvbuf": bufs.1, "writer_closes_first": close_at_end, "strategy": format!("{:?}", sm.strategy)}),
        nontrivial: k.n_ppoll_parked.get() >= 1 && total > 0 && !no_port,
    }
}

/// The peer answers and closes while data we sent it is still unread (its close resets the
/// connection): the bytes of the answer were delivered before that and must reach the reader.
fn reset_case(sm: &mut Box<Sim>, k: &Rc<NetKern>, slot: u64) -> Out {
    let d = &mut sm.dec;
    let reply_len = *d.pick(K::Arg, &[1usize, 10, 100, 4000]);
    let request_len = *d.pick(K::Arg, &[1usize, 64, 3000]);
    let read_buf = *d.pick(K::Arg, &[1usize, 5, 10, 11, 64, 5000]);
    k.short_p.set(*d.pick(K::Cfg, &[0, 0, 8]));
    k.eintr_left.set(*d.pick(K::Cfg, &[0, 0, 2]));
    sm.draw_strategy(2);
    let path = format!("/verif/work/c16.{}.{}.rsock", unsafe { libc::getpid() }, slot % 4);
    let _ = std::fs::remove_file(&path);
    let upath = UnixString::try_from_string(path.clone()).unwrap();
    let sh = Rc::new(Shared { listening: Cell::new(false), done_writing: Cell::new(false), received: Cell::new(0), sent_ok: Cell::new(false), port: Cell::new(0), writer_dropped: Cell::new(false) });
    {
        let (sh, upath) = (sh.clone(), upath.clone());
        sm.spawn(
            "server",
            Box::new(move || {
                let mut l = UnixListener::bind(&upath).unwrap_or_else(|e| sched::fail("harness|bind", format!("{e:?}")));
                sh.listening.set(true);
                let mut st = match l.accept() {
                    Ok(s) => s,
                    Err(e) => sched::fail("accept|error", format!("blocking accept failed: {e:?}")),
                };
                // wait for the request to be queued, do not read it
                while !sh.sent_ok.get() {
                    sched::yield_now();
                    let _ = tiny_std::thread::sleep(Duration::from_micros(20));
                }
                let reply: Vec<u8> = (0..reply_len).map(pat).collect();
                if let Err(e) = st.write_all(&reply) {
                    sched::fail("stream|write-error", format!("writing the {reply_len}-byte answer failed: {e:?}"));
                }
                drop(st);
                sh.writer_dropped.set(true);
            }),
        );
    }
    {
        let (sh, upath) = (sh.clone(), upath.clone());
        sm.spawn(
            "client",
            Box::new(move || {
                while !sh.listening.get() {
                    sched::yield_now();
                    let _ = tiny_std::thread::sleep(Duration::from_micros(10));
                }
                let mut st = match UnixStream::connect(&upath) {
                    Ok(s) => s,
                    Err(e) => sched::fail("connect|error", format!("blocking connect failed: {e:?}")),
                };
                let request: Vec<u8> = (0..request_len).map(|i| pat(i + 7)).collect();
                if let Err(e) = st.write_all(&request) {
                    sched::fail("stream|write-error", format!("writing the {request_len}-byte request failed: {e:?}"));
                }
                sh.sent_ok.set(true);
                // read only after the peer has answered and closed
                while !sh.writer_dropped.get() {
                    sched::yield_now();
                    let _ = tiny_std::thread::sleep(Duration::from_micros(20));
                }
                let mut got = 0usize;
                let mut buf = vec![0u8; read_buf];
                while got < reply_len {
                    match st.read(&mut buf) {
                        Ok(0) => sched::fail("stream|answer-lost-on-reset", format!("end of stream after {got} of the {reply_len} bytes the peer had written before it closed")),
                        Ok(n) => {
                            for (j, b) in buf[..n].iter().enumerate() {
                                if got + j >= reply_len || *b != pat(got + j) {
                                    sched::fail("stream|wrong-byte", format!("byte {} of the answer is wrong", got + j));
                                }
                            }
                            got += n;
                            sh.received.set(got);
                        }
                        Err(e) => sched::fail("stream|answer-lost-on-reset", format!("read failed with {e:?} after {got} of the {reply_len} bytes the peer had written before it closed with our request unread (read buffer {read_buf} bytes)")),
                    }
                }
            }),
        );
    }
    sched::run(sm);
    let _ = std::fs::remove_file(&path);
    Out { sample: json!({"kind": "answer then close with the request unread (unix)", "answer_bytes": reply_len, "request_bytes": request_len, "read_buffer": read_buf, "strategy": format!("{:?}", sm.strategy)}), nontrivial: true }
}

/// A burst of connections on one unix listener before any of them is accepted, then all accepted
/// in order ("every order of connect/accept": all the connects first).
fn burst_case(sm: &mut Box<Sim>, slot: u64) -> Out {
    let d = &mut sm.dec;
    let n = *d.pick(K::Arg, &[2usize, 17, 130, 140, 260]);
    // the listen backlog is capped by the system: stay well below it
    let somaxconn: usize = std::fs::read_to_string("/proc/sys/net/core/somaxconn").ok().and_then(|s| s.trim().parse().ok()).unwrap_or(128);
    let n = n.min(somaxconn / 2).max(1);
    let path = format!("/verif/work/c16.{}.{}.bsock", unsafe { libc::getpid() }, slot % 4);
    let _ = std::fs::remove_file(&path);
    let upath = UnixString::try_from_string(path.clone()).unwrap();
    let kdummy = NetKern { short_p: Cell::new(0), eintr_left: Cell::new(0), n_short: Cell::new(0), n_eintr: Cell::new(0), n_ppoll_parked: Cell::new(0), n_ppoll_timeout: Cell::new(0) };
    sm.set_kernel(&kdummy);
    let mut viol: Option<Violation> = None;
    sched::with_installed(sm, || {
        let mut l = match UnixListener::bind(&upath) {
            Ok(l) => l,
            Err(e) => {
                viol = Some(Violation { sig: "harness|bind".into(), detail: format!("{e:?}") });
                return;
            }
        };
        let mut clients = Vec::with_capacity(n);
        for i in 0..n {
            match UnixStream::connect(&upath) {
                Ok(mut c) => {
                    if let Err(e) = c.write_all(&(i as u32).to_le_bytes()) {
                        viol = Some(Violation { sig: "stream|write-error".into(), detail: format!("client {i}: {e:?}") });
                        return;
                    }
                    clients.push(c);
                }
                Err(e) => {
                    viol = Some(Violation { sig: "connect|error".into(), detail: format!("blocking connect number {i} of a burst of {n} failed although the listener's queue has room ({somaxconn} allowed by the system): {e:?}") });
                    return;
                }
            }
        }
        for i in 0..n {
            let mut st = match l.accept() {
                Ok(s) => s,
                Err(e) => {
                    viol = Some(Violation { sig: "accept|error".into(), detail: format!("accept number {i} of {n} pending connections failed: {e:?}") });
                    return;
                }
            };
            let mut b = [0u8; 4];
            match st.read(&mut b) {
                Ok(4) if u32::from_le_bytes(b) as usize == i => {}
                other => {
                    viol = Some(Violation { sig: "accept|order".into(), detail: format!("accepted connection {i} delivered {other:?} / id {}", u32::from_le_bytes(b)) });
                    return;
                }
            }
        }
    });
    let _ = std::fs::remove_file(&path);
    if let Some(v) = viol {
        sm.violate(v.sig, v.detail);
    }
    Out { sample: json!({"kind": "burst of unix connections before the first accept", "connections": n}), nontrivial: n >= 100 }
}

fn timeout_case(sm: &mut Box<Sim>, k: &Rc<NetKern>, slot: u64) -> Out {
    let d = &mut sm.dec;
    let limit_us = *d.pick(K::Arg, &[1u64, 100, 1_000, 15_000, 1_000_000, 10_000_000]);
    let peer_delay_us: Option<u64> = match d.choose(K::Arg, 4) {
        0 => None,
        1 => Some(limit_us / 2),
        2 => Some(limit_us * 2 + 10),
        _ => Some(d.range(K::Arg, 0, limit_us * 3)),
    };
    let kind = d.choose(K::Arg, 6); // 5 tcp try_accept/try_connect/in-progress, 0 unix accept_with_timeout, 1 tcp accept_with_timeout, 2 tcp read_with_timeout, 3 try_accept/try_connect, 4 tcp connect_with_timeout
    k.eintr_left.set(*d.pick(K::Cfg, &[0, 0, 1, 2, 3, 6]));
    k.short_p.set(0);
    sm.draw_strategy(2);
    let path = format!("/verif/work/c16.{}.{}.tsock", unsafe { libc::getpid() }, slot % 4);
    let _ = std::fs::remove_file(&path);
    let upath = UnixString::try_from_string(path.clone()).unwrap();
    let sh = Rc::new(Shared { listening: Cell::new(false), done_writing: Cell::new(false), received: Cell::new(0), sent_ok: Cell::new(false), port: Cell::new(0), writer_dropped: Cell::new(false) });
    let outcome: Rc<RefCell<String>> = Rc::new(RefCell::new(String::new()));
    let limit = Duration::from_micros(limit_us);
    let check_timeout = move |what: &str, t0: u64, res_is_timeout: bool, present_at_call: bool| {
        let s = sim().unwrap();
        let elapsed = s.mono_ns - t0;
        if res_is_timeout {
            if elapsed < limit_us * 1000 {
                sched::fail(format!("timeout|early|{what}"), format!("{what} returned Timeout after {elapsed} ns of simulated time, the limit was {} ns", limit_us * 1000));
            }
            if present_at_call {
                sched::fail(format!("timeout|although-ready|{what}"), format!("{what} returned Timeout although the awaited event was already there when the call began"));
            }
        }
    };
    {
        let (sh, upath, outcome) = (sh.clone(), upath.clone(), outcome.clone());
        sm.spawn(
            "waiter",
            Box::new(move || {
                match kind {
                    0 => {
                        let mut l = UnixListener::bind(&upath).unwrap_or_else(|e| sched::fail("harness|bind", format!("{e:?}")));
                        sh.listening.set(true);
                        let t0 = sim().unwrap().mono_ns;
                        let pending = sh.sent_ok.get();
                        let r = l.accept_with_timeout(limit);
                        let to = matches!(r, Err(tiny_std::Error::Timeout));
                        *outcome.borrow_mut() = format!("unix accept_with_timeout({limit_us}us) -> {}", if r.is_ok() { "Ok" } else if to { "Timeout" } else { "Err" });
                        check_timeout("UnixListener::accept_with_timeout", t0, to, pending);
                        if let Err(e) = &r {
                            if !to {
                                sched::fail("timeout|other-error", format!("{e:?}"));
                            }
                        }
                    }
                    1 | 2 | 4 => {
                        let Some((mut l, port)) = bind_tcp() else {
                            sh.port.set(1);
                            sh.listening.set(true);
                            sh.writer_dropped.set(true);
                            return;
                        };
                        let addr = SocketAddress::new(Ip::V4([127, 0, 0, 1]), port);
                        sh.port.set(port);
                        sh.listening.set(true);
                        if kind == 1 {
                            let t0 = sim().unwrap().mono_ns;
                            let pending = sh.sent_ok.get();
                            let r = l.accept_with_timeout(limit);
                            let to = matches!(r, Err(tiny_std::Error::Timeout));
                            *outcome.borrow_mut() = format!("tcp accept_with_timeout({limit_us}us) -> {}", if r.is_ok() { "Ok" } else if to { "Timeout" } else { "Err" });
                            check_timeout("TcpListener::accept_with_timeout", t0, to, pending);
                        } else if kind == 2 {
                            // the peer connects at once and writes later (or never)
                            let mut st = l.accept().unwrap_or_else(|e| sched::fail("accept|error", format!("{e:?}")));
                            let mut b = [0u8; 8];
                            let t0 = sim().unwrap().mono_ns;
                            let pending = sh.done_writing.get();
                            let r = st.read_with_timeout(&mut b, limit);
                            let to = matches!(r, Err(tiny_std::Error::Timeout));
                            *outcome.borrow_mut() = format!("tcp read_with_timeout({limit_us}us) -> {}", if r.is_ok() { "Ok" } else if to { "Timeout" } else { "Err" });
                            check_timeout("TcpStream::read_with_timeout", t0, to, pending);
                            if let Ok(n) = r {
                                if n != 4 || b[..4] != *b"ping" {
                                    sched::fail("stream|wrong-byte", format!("read_with_timeout returned {n} bytes {:?}", &b[..n.min(8)]));
                                }
                            }
                        } else if sim().unwrap().dec.chance(K::Arg, 1, 2) {
                            // a port nobody listens on (bound by a socket of the harness that never
                            // calls listen, so no other process can take it meanwhile): the
                            // handshake is refused after the first connect reported "in progress";
                            // a connect that returns a stream there has no peer
                            let (dead, dport) = unsafe {
                                let fd = libc::socket(libc::AF_INET, libc::SOCK_STREAM | libc::SOCK_CLOEXEC, 0);
                                let mut sa: libc::sockaddr_in = std::mem::zeroed();
                                sa.sin_family = libc::AF_INET as u16;
                                sa.sin_addr.s_addr = u32::from_ne_bytes([127, 0, 0, 1]);
                                let mut len = std::mem::size_of::<libc::sockaddr_in>() as u32;
                                if fd < 0 || libc::bind(fd, std::ptr::addr_of!(sa).cast(), len) != 0 || libc::getsockname(fd, std::ptr::addr_of_mut!(sa).cast(), &mut len) != 0 {
                                    sched::fail("harness|dead-port", "could not reserve a port".to_string());
                                }
                                (fd, u16::from_be(sa.sin_port))
                            };
                            let daddr = SocketAddress::new(Ip::V4([127, 0, 0, 1]), dport);
                            let timed = sim().unwrap().dec.chance(K::Arg, 1, 2);
                            let t0 = sim().unwrap().mono_ns;
                            let r = if timed { TcpStream::connect_with_timeout(&daddr, limit) } else { TcpStream::connect(&daddr) };
                            let to = matches!(r, Err(tiny_std::Error::Timeout));
                            let what = if timed { "TcpStream::connect_with_timeout" } else { "TcpStream::connect" };
                            *outcome.borrow_mut() = format!("{what} to a port without listener -> {}", if r.is_ok() { "Ok" } else if to { "Timeout" } else { "Err" });
                            sim().unwrap().count("probe.connect_without_listener");
                            if timed {
                                check_timeout(what, t0, to, false);
                            } else if to {
                                sched::fail("connect|timeout-without-limit", "TcpStream::connect returned Timeout".to_string());
                            }
                            unsafe { libc::close(dead) };
                            if r.is_ok() {
                                sched::fail(format!("connect|ok-without-listener|{what}"), format!("{what} to 127.0.0.1:{dport}, where no socket listens, returned a stream"));
                            }
                        } else {
                            // connect_with_timeout to ourselves: completes at once on loopback
                            let t0 = sim().unwrap().mono_ns;
                            let r = TcpStream::connect_with_timeout(&addr, limit);
                            let to = matches!(r, Err(tiny_std::Error::Timeout));
                            *outcome.borrow_mut() = format!("tcp connect_with_timeout({limit_us}us) -> {}", if r.is_ok() { "Ok" } else if to { "Timeout" } else { "Err" });
                            check_timeout("TcpStream::connect_with_timeout", t0, to, false);
                        }
                    }
                    5 => {
                        // TCP: try_accept never enters ppoll; empty queue -> None, pending connection -> Some
                        let Some((mut l, port)) = bind_tcp() else {
                            sh.port.set(1);
                            sh.listening.set(true);
                            sh.writer_dropped.set(true);
                            return;
                        };
                        sh.port.set(port);
                        let c = sched::cur_tid();
                        sim().unwrap().threads[c].tag = TAG_TRY;
                        let a = l.try_accept();
                        sim().unwrap().threads[c].tag = 0;
                        if !matches!(a, Ok(None)) {
                            sched::fail("try|accept-on-empty-queue", format!("TcpListener::try_accept on an empty queue returned {}", if a.is_ok() { "a stream" } else { "an error" }));
                        }
                        sh.listening.set(true);
                        while !sh.sent_ok.get() {
                            sched::yield_now();
                            let _ = tiny_std::thread::sleep(Duration::from_micros(20));
                        }
                        // loopback delivery is asynchronous to the client's system call: allow a few looks
                        let mut got = false;
                        for _ in 0..2000 {
                            sim().unwrap().threads[c].tag = TAG_TRY;
                            let a = l.try_accept();
                            sim().unwrap().threads[c].tag = 0;
                            match a {
                                Ok(Some(_)) => {
                                    got = true;
                                    break;
                                }
                                Ok(None) => {
                                    sched::yield_now();
                                    std::thread::sleep(Duration::from_micros(100));
                                }
                                Err(e) => sched::fail("try|tcp-accept-error", format!("{e:?}")),
                            }
                        }
                        *outcome.borrow_mut() = format!("tcp try_accept after connect -> {}", if got { "Some" } else { "None" });
                        if !got {
                            sched::fail("try|accept-misses-pending-connection", "TcpListener::try_accept returned no stream although a connection is established".to_string());
                        }
                    }
                    _ => {
                        // try_* never enter ppoll, whatever the state of the queue
                        let mut l = UnixListener::bind(&upath).unwrap_or_else(|e| sched::fail("harness|bind", format!("{e:?}")));
                        let c = sched::cur_tid();
                        sim().unwrap().threads[c].tag = TAG_TRY;
                        let a = l.try_accept();
                        sim().unwrap().threads[c].tag = 0;
                        if !matches!(a, Ok(None)) {
                            sched::fail("try|accept-on-empty-queue", format!("try_accept on an empty queue returned {}", if a.is_ok() { "a stream" } else { "an error" }));
                        }
                        sh.listening.set(true);
                        // wait until the client is connected, then it must be there
                        while !sh.sent_ok.get() {
                            sched::yield_now();
                            let _ = tiny_std::thread::sleep(Duration::from_micros(20));
                        }
                        sim().unwrap().threads[c].tag = TAG_TRY;
                        let a = l.try_accept();
                        sim().unwrap().threads[c].tag = 0;
                        *outcome.borrow_mut() = format!("try_accept after connect -> {}", if matches!(a, Ok(Some(_))) { "Some" } else { "None/Err" });
                        if !matches!(a, Ok(Some(_))) {
                            sched::fail("try|accept-misses-pending-connection", "try_accept returned no stream although a connection is pending".to_string());
                        }
                    }
                }
                sh.writer_dropped.set(true);
            }),
        );
    }
    {
        let (sh, upath) = (sh.clone(), upath.clone());
        sm.spawn(
            "peer",
            Box::new(move || {
                while !sh.listening.get() {
                    sched::yield_now();
                    let _ = tiny_std::thread::sleep(Duration::from_micros(10));
                }
                if sh.port.get() == 1 {
                    return;
                }
                let addr = SocketAddress::new(Ip::V4([127, 0, 0, 1]), sh.port.get());
                match kind {
                    0 | 1 => {
                        let Some(dl) = peer_delay_us else { return };
                        let _ = tiny_std::thread::sleep(Duration::from_micros(dl));
                        if sh.writer_dropped.get() {
                            return;
                        }
                        let r = if kind == 0 { UnixStream::connect(&upath).map(|_| ()) } else { TcpStream::connect(&addr).map(|_| ()) };
                        if r.is_ok() {
                            sh.sent_ok.set(true);
                        }
                    }
                    2 => {
                        let Ok(mut st) = TcpStream::connect(&addr) else { return };
                        if let Some(dl) = peer_delay_us {
                            let _ = tiny_std::thread::sleep(Duration::from_micros(dl));
                            if st.write_all(b"ping").is_ok() {
                                sh.done_writing.set(true);
                            }
                        }
                        // keep the connection until the waiter is done
                        while !sh.writer_dropped.get() {
                            sched::yield_now();
                            let _ = tiny_std::thread::sleep(Duration::from_micros(50));
                        }
                    }
                    4 => {}
                    5 => {
                        let c = sched::cur_tid();
                        sim().unwrap().threads[c].tag = TAG_TRY;
                        let r = TcpStream::try_connect(&addr);
                        sim().unwrap().threads[c].tag = 0;
                        let mut cur = match r {
                            Ok(x) => x,
                            Err(e) => sched::fail("try|tcp-connect-error", format!("TcpStream::try_connect to a listening port: {e:?}")),
                        };
                        let finish_blocking = sim().unwrap().dec.chance(K::Arg, 1, 2);
                        let mut rounds = 0;
                        let _st = loop {
                            match cur {
                                tiny_std::net::TcpTryConnect::Connected(s) => break s,
                                tiny_std::net::TcpTryConnect::InProgress(p) => {
                                    sim().unwrap().count("probe.tcp_connect_in_progress");
                                    if finish_blocking {
                                        match p.connect_blocking() {
                                            Ok(s) => break s,
                                            Err(e) => sched::fail("connect|error", format!("connect_blocking on an in-progress connection to a listening port: {e:?}")),
                                        }
                                    }
                                    rounds += 1;
                                    if rounds > 2000 {
                                        sched::fail("try|tcp-connect-never-completes", "an in-progress connection to a listening loopback port stayed in progress".to_string());
                                    }
                                    sched::yield_now();
                                    std::thread::sleep(Duration::from_micros(50));
                                    sim().unwrap().threads[c].tag = TAG_TRY;
                                    let r = p.try_connect();
                                    sim().unwrap().threads[c].tag = 0;
                                    cur = match r {
                                        Ok(x) => x,
                                        Err(e) => sched::fail("try|tcp-connect-error", format!("TcpStreamInProgress::try_connect: {e:?}")),
                                    };
                                }
                            }
                        };
                        sh.sent_ok.set(true);
                        while !sh.writer_dropped.get() {
                            sched::yield_now();
                            let _ = tiny_std::thread::sleep(Duration::from_micros(50));
                        }
                    }
                    _ => {
                        let c = sched::cur_tid();
                        sim().unwrap().threads[c].tag = TAG_TRY;
                        let r = UnixStream::try_connect(&upath);
                        sim().unwrap().threads[c].tag = 0;
                        match r {
                            Ok(Some(_s)) => {
                                sh.sent_ok.set(true);
                                while !sh.writer_dropped.get() {
                                    sched::yield_now();
                                    let _ = tiny_std::thread::sleep(Duration::from_micros(50));
                                }
                            }
                            Ok(None) => sched::fail("try|connect-none-with-listener", "try_connect returned None although a listener with a free backlog exists".to_string()),
                            Err(e) => sched::fail("try|connect-error", format!("{e:?}")),
                        }
                    }
                }
            }),
        );
    }
    sched::run(sm);
    let _ = std::fs::remove_file(&path);
    let o = outcome.borrow().clone();
    Out { sample: json!({"kind": "timeouts and try variants", "variant": kind, "limit_us": limit_us, "peer_acts_after_us": peer_delay_us, "outcome": o, "strategy": format!("{:?}", sm.strategy)}), nontrivial: k.n_ppoll_timeout.get() + k.n_eintr.get() >= 1 || kind == 3 || kind == 5 }
}

/// SCM_RIGHTS through rusl sendmsg/recvmsg; the receiver runs in a forked child so that a read
/// outside the control buffer (flush against a PROT_NONE page) shows as a fault of the child.
fn scm_case(sm: &mut Box<Sim>, slot: u64) -> Out {
    let d = &mut sm.dec;
    let nfds = match d.choose(K::Arg, 6) {
        0 => 0,
        1 => 1,
        2 => 2,
        3 => 16,
        _ => 1 + d.choose(K::Arg, 16) as usize,
    };
    let need = if nfds == 0 { 0 } else { (16 + 4 * nfds + 7) & !7 };
    let ctl_len = match d.choose(K::Arg, 8) {
        0 | 1 => need,
        2 => need + 8 * (1 + d.choose(K::Arg, 8) as usize),
        3 => need.saturating_sub(8 * (1 + d.choose(K::Arg, 3) as usize)),
        4 => need + 64,
        // lengths that are not a multiple of the 8-byte control-message alignment: the buffer ends
        // inside the padding of the last message (exact fit without padding, or truncating)
        5 => 16 + 4 * nfds.max(1),
        6 => 16 + 4 * (1 + d.choose(K::Arg, 20) as usize),
        _ => (16 + 4 * (1 + d.choose(K::Arg, 20) as usize) + 7) & !7,
    };
    // a quarter of the runs with descriptors: the receiving socket has SO_PASSCRED set, the kernel
    // then puts an SCM_CREDENTIALS message (length 28, not a multiple of the alignment, 32 bytes of
    // space) in front of the rights message and the walk has to step over it
    let passcred = nfds > 0 && d.chance(K::Arg, 1, 4);
    let cred_space = if passcred { 32 } else { 0 };
    let (need, ctl_len) = (need + cred_space, ctl_len + cred_space);
    let payload_len = 1 + d.choose(K::Arg, 64) as usize;
    let dir = format!("/verif/work/c16.{}.{}.scm", unsafe { libc::getpid() }, slot % 4);
    let _ = std::fs::remove_dir_all(&dir);
    std::fs::create_dir_all(&dir).unwrap();
    let files: Vec<std::fs::File> = (0..nfds).map(|i| std::fs::File::create(format!("{dir}/f{i}")).unwrap()).collect();
    use std::os::fd::AsRawFd as _;
    let sent: Vec<(u64, u64)> = files
        .iter()
        .map(|f| {
            let mut st: libc::stat = unsafe { std::mem::zeroed() };
            unsafe { libc::fstat(f.as_raw_fd(), &mut st) };
            (st.st_dev, st.st_ino)
        })
        .collect();
    let mut sv = [0i32; 2];
    unsafe { libc::socketpair(libc::AF_UNIX, libc::SOCK_STREAM | libc::SOCK_CLOEXEC, 0, sv.as_mut_ptr()) };
    if passcred {
        let one: i32 = 1;
        unsafe { libc::setsockopt(sv[1], libc::SOL_SOCKET, libc::SO_PASSCRED, std::ptr::addr_of!(one).cast(), 4) };
    }
    let mut pipefd = [0i32; 2];
    unsafe { libc::pipe(pipefd.as_mut_ptr()) };
    let mut viol: Option<Violation> = None;
    let kdummy = NetKern { short_p: Cell::new(0), eintr_left: Cell::new(0), n_short: Cell::new(0), n_eintr: Cell::new(0), n_ppoll_parked: Cell::new(0), n_ppoll_timeout: Cell::new(0) };
    sm.set_kernel(&kdummy);
    sched::with_installed(sm, || {
        let payload: Vec<u8> = (0..payload_len).map(pat).collect();
        let io = [IoSlice::new(&payload)];
        let fds: Vec<Fd> = files.iter().map(|f| Fd::try_new(f.as_raw_fd()).unwrap()).collect();
        let send = MsgHdrBorrow::create_send(None, &io, if nfds > 0 { Some(ControlMessageSend::ScmRights(&fds)) } else { None });
        match rusl::network::sendmsg(Fd::try_new(sv[0]).unwrap(), &send, 0) {
            Ok(n) if n == payload_len => {}
            other => {
                viol = Some(Violation { sig: "scm|sendmsg".into(), detail: format!("sendmsg returned {other:?} for {payload_len} bytes and {nfds} descriptors") });
                return;
            }
        }
        // a second message without descriptors: received later into the SAME control buffer
        let payload2 = [0x5au8; 3];
        let io2 = [IoSlice::new(&payload2)];
        let send2 = MsgHdrBorrow::create_send(None, &io2, None);
        let _ = rusl::network::sendmsg(Fd::try_new(sv[0]).unwrap(), &send2, 0);
        let pid = unsafe { libc::fork() };
        if pid == 0 {
            // receiver: control buffer flush against an inaccessible page
            unsafe {
                let page = 4096usize;
                let region = libc::mmap(std::ptr::null_mut(), 3 * page, libc::PROT_READ | libc::PROT_WRITE, libc::MAP_PRIVATE | libc::MAP_ANONYMOUS, -1, 0) as usize;
                libc::mprotect((region + 2 * page) as *mut _, page, libc::PROT_NONE);
                let ctl_ptr = (region + 2 * page - ctl_len) as *mut u8;
                let ctl: &mut [u8] = std::slice::from_raw_parts_mut(ctl_ptr, ctl_len);
                let mut rb = vec![0u8; 128];
                let rbp: &mut [u8] = std::slice::from_raw_parts_mut(rb.as_mut_ptr(), rb.len());
                let mut rio = [IoSliceMut::new(rbp)];
                let mut hdr = MsgHdrBorrow::create_recv(&mut rio, if ctl_len > 0 { Some(ctl) } else { None });
                let r = rusl::network::recvmsg(Fd::try_new(sv[1]).unwrap(), &mut hdr, 0);
                let mut out: Vec<u64> = Vec::new();
                match r {
                    Ok(n) => out.push(n as u64),
                    Err(_) => out.push(u64::MAX),
                }
                let mut count = 0u64;
                let mut ids: Vec<u64> = Vec::new();
                let mut msgs = 0;
                for m in hdr.control_messages() {
                    msgs += 1;
                    if msgs > 64 {
                        break;
                    }
                    let ControlMessageSend::ScmRights(fds) = m;
                    for fd in fds {
                        let mut st: libc::stat = std::mem::zeroed();
                        let ok = libc::fstat(fd.value(), &mut st) == 0;
                        count += 1;
                        ids.push(if ok { st.st_dev } else { u64::MAX });
                        ids.push(if ok { st.st_ino } else { u64::MAX });
                        if count > 64 {
                            break;
                        }
                    }
                }
                out.push(count);
                out.extend(ids);
                // second receive, same control buffer (it still holds the first message's header)
                let mut stale = 0u64;
                {
                    let ctl2: &mut [u8] = std::slice::from_raw_parts_mut(ctl_ptr, ctl_len);
                    let mut rb2 = vec![0u8; 16];
                    let rbp2: &mut [u8] = std::slice::from_raw_parts_mut(rb2.as_mut_ptr(), rb2.len());
                    let mut rio2 = [IoSliceMut::new(rbp2)];
                    let mut hdr2 = MsgHdrBorrow::create_recv(&mut rio2, if ctl_len > 0 { Some(ctl2) } else { None });
                    if rusl::network::recvmsg(Fd::try_new(sv[1]).unwrap(), &mut hdr2, 0x40).is_ok() {
                        for m in hdr2.control_messages() {
                            let ControlMessageSend::ScmRights(fds) = m;
                            stale += fds.len() as u64 + 1;
                            if stale > 64 {
                                break;
                            }
                        }
                    }
                }
                out.push(stale);
                out.push(u64::from(rb[..payload_len.min(128)] == payload[..payload_len.min(128)]));
                let bytes: Vec<u8> = out.iter().flat_map(|v| v.to_le_bytes()).collect();
                libc::write(pipefd[1], bytes.as_ptr().cast(), bytes.len());
                libc::_exit(0);
            }
        }
        unsafe { libc::close(pipefd[1]) };
        let mut buf = vec![0u8; 8 * 200];
        let mut got = 0usize;
        loop {
            let r = unsafe { libc::read(pipefd[0], buf.as_mut_ptr().add(got).cast(), buf.len() - got) };
            if r <= 0 {
                break;
            }
            got += r as usize;
        }
        let mut st = 0;
        unsafe { libc::waitpid(pid, &mut st, 0) };
        let words: Vec<u64> = buf[..got].chunks_exact(8).map(|c| u64::from_le_bytes(c.try_into().unwrap())).collect();
        let class = if ctl_len == need { "exact-fit" } else if ctl_len > need { "larger" } else { "smaller" };
        if libc::WIFSIGNALED(st) {
            viol = Some(Violation { sig: format!("scm|receiver-faulted|control-buffer-{class}"), detail: format!("receiving {nfds} descriptors into a {ctl_len}-byte control buffer (needed {need}) placed flush against an inaccessible page killed the receiver with signal {}: the control-message walk read outside the supplied buffer", libc::WTERMSIG(st)) });
            return;
        }
        if words.len() < 3 {
            viol = Some(Violation { sig: "scm|receiver-no-report".into(), detail: format!("receiver exited with status {st} without a report") });
            return;
        }
        let n = words[0];
        let count = words[1] as usize;
        let fit = if ctl_len >= cred_space + 16 + 4 { ((ctl_len - cred_space - 16) / 4).min(nfds) } else { 0 };
        // without descriptors the two messages are plain stream data and may arrive in one read
        if n != payload_len as u64 && !(nfds == 0 && n == payload_len as u64 + 3) {
            viol = Some(Violation { sig: "scm|payload-length".into(), detail: format!("recvmsg returned {n}, {payload_len} bytes were sent") });
        } else if count != fit {
            viol = Some(Violation { sig: format!("scm|descriptor-count|control-buffer-{class}"), detail: format!("{nfds} descriptors sent, control buffer of {ctl_len} bytes has room for {fit}, the iterator yielded {count}") });
        } else {
            for i in 0..count {
                let got = (words[2 + 2 * i], words[3 + 2 * i]);
                if got != sent[i] {
                    viol = Some(Violation { sig: "scm|wrong-descriptor".into(), detail: format!("descriptor {i} designates file {got:?}, sent {:?}", sent[i]) });
                    break;
                }
            }
            let stale = words.get(words.len().saturating_sub(2)).copied().unwrap_or(0);
            if viol.is_none() && stale != 0 {
                viol = Some(Violation { sig: format!("scm|stale-descriptors-from-reused-control-buffer|control-buffer-{class}"), detail: format!("a second message that carried no descriptors, received into the control buffer used for the first one ({nfds} descriptors), yielded control messages again") });
            }
            if viol.is_none() && words.last() != Some(&1) {
                viol = Some(Violation { sig: "scm|payload-content".into(), detail: "payload bytes differ".into() });
            }
        }
    });
    unsafe {
        libc::close(sv[0]);
        libc::close(sv[1]);
        libc::close(pipefd[0]);
    }
    let _ = std::fs::remove_dir_all(&dir);
    if let Some(v) = viol {
        sm.violate(v.sig, v.detail);
    }
    Out { sample: json!({"kind": "SCM_RIGHTS", "descriptors": nfds, "control_buffer_bytes": ctl_len, "needed_bytes": need, "payload_bytes": payload_len}), nontrivial: nfds >= 1 }
}

impl Check for C16 {
    fn id(&self) -> &'static str {
        "C16"
    }
    fn level(&self) -> &'static str {
        "exploration"
    }
    fn engine(&self) -> &'static str {
        "simk (engine A): two simulated threads on real kernel sockets, simulator-managed ppoll blocking and clock"
    }
    fn cases(&self, tier: Tier) -> u64 {
        match tier {
            Tier::Quick => 12_000,
            Tier::Thorough => 1_000_000,
        }
    }
    fn rule(&self) -> String {
        "case kinds rotate: (0) unix stream and (1) loopback TCP stream transfer between a simulated server and client thread: payload 0..500 KB (thorough: up to 4 MB) with a position-dependent byte pattern, generated write_all chunk sequence and read buffer sequence (1 byte .. 64 KB, thorough 1 MB), SO_SNDBUF/SO_RCVBUF 1 KB..200 KB so buffers fill, either side writing, writer or reader finishing first, delays before connect/accept, scheduling strategy by swarm; faults: shortened read/write lengths, EINTR returned from ppoll after part of the wait; (2) timeouts and try variants: accept_with_timeout (unix, tcp), read_with_timeout, connect_with_timeout with limits 1 us..10 s on the simulated clock and a peer that acts before, after or never, 0..6 interruptions of the wait; try_accept/try_connect against empty and non-empty queues must not enter ppoll; (3) SCM_RIGHTS: 0..16 descriptors through rusl sendmsg/recvmsg with control buffers smaller than, equal to and larger than needed, incl. lengths that are not a multiple of 8, the receive control buffer flush against a PROT_NONE page, receiver in a forked child, descriptors identified by (dev, ino). Oracles: first wrong byte, totals, deadlock detector (blocking calls complete once the peer acted), Timeout only after the simulated clock advanced by the limit and never when the event was present at call time, exact descriptor list. non-trivial = a thread actually parked in ppoll during a transfer / a timeout or interruption happened / descriptors were passed; distinct = hash of the event sequence".into()
    }
    fn assumptions(&self) -> Vec<String> {
        vec![
            "kernel socket delivery between two sockets of one process is synchronous with the system call that causes it (measured by the determinism self-test; loopback TCP included)".into(),
            "spurious readiness is not injected".into(),
        ]
    }
    fn components(&self) -> Value {
        json!({"real": ["tiny_std::net, tiny_std::sock, rusl network wrappers and cmsg macros", "kernel unix and loopback TCP sockets"], "stub": ["ppoll blocking and timeouts (simulator, simulated clock)", "threads (coroutines) and their scheduling", "nanosleep/clock"]})
    }
    fn run(&self, case: u64, dec: Dec, opts: &RunOpts) -> RunOut {
        let mut sim = Sim::new(dec, SimCfg { record: opts.record, est_len: 400, budget: 3_000_000, fair_budget: 6_000_000, tick_ns: 200, idle_retries: 2000, ..SimCfg::default() });
        let k = Rc::new(NetKern { short_p: Cell::new(0), eintr_left: Cell::new(0), n_short: Cell::new(0), n_eintr: Cell::new(0), n_ppoll_parked: Cell::new(0), n_ppoll_timeout: Cell::new(0) });
        sim.set_kernel(&*k);
        let t0 = sim.mono_ns;
        // the scenario family by a hash of the case number (cases are dealt to the workers
        // round-robin: a plain modulus would give every worker a single family)
        let hk = simk::dec::mix(&[case, 0xc16]);
        let kind = hk % 4;
        let long = opts.tier == Tier::Thorough && (hk >> 8) % 32 == 0;
        let o = match kind {
            0 => stream_case(&mut sim, &k, false, case, long),
            1 => stream_case(&mut sim, &k, true, case, long),
            2 if (hk >> 16) % 4 == 0 => reset_case(&mut sim, &k, case),
            2 if (hk >> 16) % 16 == 1 => burst_case(&mut sim, case),
            2 => timeout_case(&mut sim, &k, case),
            _ => scm_case(&mut sim, case),
        };
        let mut out = RunOut::default();
        // loopback TCP is delivered asynchronously (softirq, delayed ACK and Nagle timers): how often a
        // parked thread has to look again differs between executions, so TCP runs are identified by
        // their decisions and outcome only; unix-socket and SCM runs by the full event log
        let tcp_case = kind == 1 || kind == 2;
        out.hash = if tcp_case {
            let mut h = simk::dec::mix(&[kind, u64::from(sim.violation.is_some())]);
            for d in sim.dec.log.iter().filter(|d| d.0 == K::Cfg as u8 || d.0 == K::Arg as u8 || d.0 == K::Op as u8) {
                h = simk::dec::mix(&[h, u64::from(d.2)]);
            }
            h
        } else {
            sim.trace.hash ^ simk::dec::mix(&[k.n_ppoll_parked.get(), k.n_ppoll_timeout.get(), k.n_eintr.get(), k.n_short.get()])
        };
        out.violation = sim.violation.take();
        out.shape = out.hash;
        out.nontrivial = o.nontrivial;
        out.sim_ns = sim.mono_ns - t0;
        out.steps = sim.steps;
        out.events = sim.trace.events.take().unwrap_or_default();
        out.decisions = std::mem::take(&mut sim.dec.log);
        out.counters = std::mem::take(&mut sim.counters);
        out.counters.insert("fault.short_read_write", k.n_short.get());
        out.counters.insert("fault.ppoll_eintr", k.n_eintr.get());
        out.counters.insert("probe.thread_parked_in_ppoll", k.n_ppoll_parked.get());
        out.counters.insert("probe.ppoll_simulated_timeout", k.n_ppoll_timeout.get());
        if opts.record {
            out.sample = Some(o.sample);
        }
        out
    }
}
