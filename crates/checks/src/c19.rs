//! C19 — time arithmetic, monotonic clock, sleep.  The clock and nanosleep are the simulator's
//! (a 128-bit nanosecond clock local to this check so that `i64::MAX`-second values fit);
//! nanosleep is interrupted by decision with the remainder written back.  The arithmetic clause is
//! a pure function: it rides along on clock readings set to boundary-biased values and is compared
//! with exact i128 arithmetic.

use rusl::platform::TimeSpec;
use serde_json::{json, Value};
use simk::dec::{Dec, K};
use simk::kern::{neg, Ts};
use simk::runner::{Check, RunOpts, RunOut, Tier};
use simk::sched::{self, sim, Kernel, Sim, SimCfg, Violation};
use std::cell::Cell;
use std::time::Duration;
use tiny_std::time::{Instant, MonotonicInstant, SystemTime};

pub struct C19;

const NS: i128 = 1_000_000_000;
/// the largest value a timespec-based clock can show
const LIMIT: i128 = i64::MAX as i128 * NS + 999_999_999;

/// unwinds out of a nanosleep that would never return
struct SleepsForever;

struct Clock {
    mono: Cell<i128>,
    real: Cell<i128>,
    eintr_left: Cell<u32>,
    other_errno: Cell<Option<i32>>,
    n_eintr: Cell<u64>,
    n_other: Cell<u64>,
    n_sleep_calls: Cell<u64>,
    /// nanosleep request seen that the kernel would reject
    bad_request: Cell<bool>,
    /// when set, every clock reading first advances both clocks by the next of these steps
    steps: std::cell::RefCell<Vec<i128>>,
    /// value (ns) handed out by the last reading of each clock
    last_mono_read: Cell<i128>,
    last_real_read: Cell<i128>,
}

impl Kernel for Clock {
    fn syscall(&self, nr: usize, a: [usize; 6]) -> usize {
        match nr {
            sc::nr::CLOCK_GETTIME => {
                if let Some(step) = self.steps.borrow_mut().pop() {
                    self.mono.set((self.mono.get() + step).min(LIMIT));
                    self.real.set((self.real.get() + step).min(LIMIT));
                }
                // the clocks are different clocks: CLOCK_REALTIME (0), CLOCK_MONOTONIC (1); every other
                // id (BOOTTIME counts suspended time, the COARSE/RAW variants lag or drift) shows a
                // value of its own, some 1000 s away from the monotonic clock
                let v = match a[0] {
                    0 => self.real.get(),
                    1 => self.mono.get(),
                    id => self.mono.get() + 1_000 * NS + id as i128,
                };
                match a[0] {
                    0 => self.last_real_read.set(v),
                    1 => self.last_mono_read.set(v),
                    _ => {}
                }
                unsafe {
                    *(a[1] as *mut Ts) = Ts { sec: v.div_euclid(NS) as i64, nsec: v.rem_euclid(NS) as i64 };
                }
                0
            }
            sc::nr::NANOSLEEP => {
                self.n_sleep_calls.set(self.n_sleep_calls.get() + 1);
                let req = unsafe { *(a[0] as *const Ts) };
                if req.sec < 0 || req.nsec < 0 || req.nsec >= 1_000_000_000 {
                    self.bad_request.set(true);
                    return neg(22);
                }
                let s = sim().unwrap();
                if let Some(e) = self.other_errno.get() {
                    if s.dec.chance(K::Fault, 1, 3) {
                        self.other_errno.set(None);
                        self.n_other.set(self.n_other.get() + 1);
                        s.trace.ev(|| format!("fault: nanosleep -> -{e}"));
                        return neg(e);
                    }
                }
                let total = i128::from(req.sec) * NS + i128::from(req.nsec);
                // a sleep whose end lies beyond what the clock can ever show never completes
                let never = self.mono.get() + total > LIMIT;
                if self.eintr_left.get() > 0 && total > 0 && (never || s.dec.chance(K::Fault, 1, 2)) {
                    self.eintr_left.set(self.eintr_left.get() - 1);
                    self.n_eintr.set(self.n_eintr.get() + 1);
                    // interrupted after a drawn fraction; the kernel writes what is left
                    let f = i128::from(s.dec.choose(K::Fault, 1001));
                    let slept = match s.dec.choose(K::Fault, 4) {
                        0 => 0,
                        1 if !never => total - 1,
                        _ if never => i128::from(s.dec.choose(K::Fault, 1_000_000)),
                        _ => total / 1000 * f,
                    };
                    self.mono.set(self.mono.get() + slept);
                    self.real.set(self.real.get() + slept);
                    let left = total - slept;
                    if a[1] != 0 {
                        unsafe {
                            *(a[1] as *mut Ts) = Ts { sec: (left / NS) as i64, nsec: (left % NS) as i64 };
                        }
                    }
                    s.trace.ev(|| format!("fault: nanosleep interrupted after {slept} of {total} ns"));
                    return neg(4);
                }
                if never {
                    std::panic::panic_any(SleepsForever);
                }
                self.mono.set(self.mono.get() + total);
                self.real.set(self.real.get() + total);
                0
            }
            _ => neg(38),
        }
    }
}

fn gen_secs(dec: &mut Dec) -> i64 {
    match dec.choose(K::Arg, 10) {
        0 => 0,
        1 => 1,
        2 => i64::MAX,
        3 => i64::MAX - i64::from(dec.choose(K::Arg, 4)),
        4 => i64::from(dec.choose(K::Arg, 100)),
        5 => (1i64 << 32) + i64::from(dec.choose(K::Arg, 3)) - 1,
        6 => i64::MAX / 2 + i64::from(dec.choose(K::Arg, 3)) - 1,
        _ => dec.range(K::Arg, 0, i64::MAX as u64) as i64,
    }
}

fn gen_nanos(dec: &mut Dec) -> i64 {
    match dec.choose(K::Arg, 6) {
        0 => 0,
        1 => 1,
        2 => 999_999_999,
        3 => 999_999_998,
        4 => 500_000_000,
        _ => i64::from(dec.choose(K::Arg, 1_000_000_000)),
    }
}

fn gen_dur(dec: &mut Dec) -> Duration {
    let s = match dec.choose(K::Arg, 10) {
        0 => 0,
        1 => 1,
        2 => u64::MAX,
        3 => i64::MAX as u64,
        4 => i64::MAX as u64 + 1,
        5 => u64::from(dec.choose(K::Arg, 100)),
        6 => i64::MAX as u64 - u64::from(dec.choose(K::Arg, 3)),
        _ => dec.range(K::Arg, 0, u64::MAX),
    };
    Duration::new(s, gen_nanos(dec) as u32)
}

fn ns_of(s: i64, n: i64) -> i128 {
    i128::from(s) * NS + i128::from(n)
}

fn dur_ns(d: Duration) -> i128 {
    i128::from(d.as_secs()) * NS + i128::from(d.subsec_nanos())
}

fn ts_ns(t: &TimeSpec) -> i128 {
    ns_of(t.seconds(), t.nanoseconds())
}

fn viol(sig: &str, detail: String) -> Option<Violation> {
    Some(Violation { sig: sig.to_string(), detail })
}

/// Arithmetic on Instants obtained by reading a clock set to boundary-biased values.
fn arith_case(dec: &mut Dec, clock: &Clock, counters: &mut Vec<(&'static str, u64)>) -> Option<Violation> {
    let (s1, n1) = (gen_secs(dec), gen_nanos(dec));
    let (s2, n2) = if dec.chance(K::Arg, 1, 3) { (s1, gen_nanos(dec)) } else { (gen_secs(dec), gen_nanos(dec)) };
    let d = if dec.chance(K::Arg, 1, 4) {
        // durations that make the result land on or next to zero / the top
        let x = ns_of(s1, n1) + i128::from(dec.choose(K::Arg, 3)) - 1;
        if x >= 0 && x / NS <= i128::from(u64::MAX) {
            Duration::new((x / NS) as u64, (x % NS) as u32)
        } else {
            gen_dur(dec)
        }
    } else {
        gen_dur(dec)
    };
    clock.mono.set(ns_of(s1, n1));
    let t1 = Instant::now();
    clock.mono.set(ns_of(s2, n2));
    let t2 = Instant::now();
    let a1 = ns_of(s1, n1);
    let a2 = ns_of(s2, n2);
    let dn = dur_ns(d);
    let representable = |v: i128| v >= 0 && v / NS <= i128::from(i64::MAX);
    // t + d
    let add = t1 + d;
    let exp_add = a1 + dn;
    match add {
        Some(r) => {
            let rt: &TimeSpec = r.as_ref();
            if !representable(exp_add) {
                return viol("arith|add|some-for-unrepresentable", format!("({s1},{n1}) + {d:?} returned Some although the result does not fit"));
            }
            if ts_ns(rt) != exp_add || rt.nanoseconds() < 0 || rt.nanoseconds() >= 1_000_000_000 {
                return viol("arith|add|wrong-value", format!("({s1},{n1}) + {d:?} = ({},{}) expected {} ns", rt.seconds(), rt.nanoseconds(), exp_add));
            }
            // (t+d)-d = t and (t+d)-t = d
            match r - d {
                Some(back) if ts_ns(back.as_ref()) == a1 => {}
                other => return viol("arith|roundtrip|(t+d)-d", format!("(({s1},{n1}) + {d:?}) - d = {other:?}")),
            }
            match r - t1 {
                Some(dd) if dd == d => {}
                other => return viol("arith|roundtrip|(t+d)-t", format!("(({s1},{n1}) + {d:?}) - t = {other:?}")),
            }
            counters.push(("probe.add_some", 1));
        }
        None => {
            if representable(exp_add) {
                return viol("arith|add|none-for-representable", format!("({s1},{n1}) + {d:?} returned None, exact result {exp_add} ns fits"));
            }
            counters.push(("probe.add_none", 1));
        }
    }
    // t - d
    let exp_sub = a1 - dn;
    match t1 - d {
        Some(r) => {
            let rt: &TimeSpec = r.as_ref();
            if exp_sub < 0 {
                return viol("arith|sub-duration|some-for-negative", format!("({s1},{n1}) - {d:?} returned ({},{}) although the result is negative", rt.seconds(), rt.nanoseconds()));
            }
            if ts_ns(rt) != exp_sub || rt.nanoseconds() < 0 || rt.nanoseconds() >= 1_000_000_000 {
                return viol("arith|sub-duration|wrong-value", format!("({s1},{n1}) - {d:?} = ({},{}) expected {exp_sub} ns", rt.seconds(), rt.nanoseconds()));
            }
            counters.push(("probe.sub_some", 1));
        }
        None => {
            if exp_sub >= 0 {
                return viol("arith|sub-duration|none-for-representable", format!("({s1},{n1}) - {d:?} returned None, exact result {exp_sub} ns"));
            }
            counters.push(("probe.sub_none", 1));
        }
    }
    // t2 - t1, duration_since, ordering
    let diff = a2 - a1;
    for (name, got) in [("sub-instant", t2 - t1), ("duration_since", t2.duration_since(t1))] {
        match got {
            Some(dd) => {
                if diff < 0 || dur_ns(dd) != diff {
                    return viol(&format!("arith|{name}|wrong-value"), format!("({s2},{n2}) - ({s1},{n1}) = {dd:?}, exact {diff} ns"));
                }
            }
            None => {
                if diff >= 0 {
                    return viol(&format!("arith|{name}|none-for-representable"), format!("({s2},{n2}) - ({s1},{n1}) = None, exact {diff} ns"));
                }
            }
        }
    }
    if (t1 < t2) != (a1 < a2) || (t1 == t2) != (a1 == a2) {
        return viol("arith|ordering", format!("ordering of ({s1},{n1}) and ({s2},{n2}) disagrees with subtraction"));
    }
    // SystemTime: same functions; values before the epoch only have to be panic-free
    let neg_secs = match dec.choose(K::Arg, 4) {
        0 => i64::MIN,
        1 => -1,
        2 => i64::MIN + i64::from(dec.choose(K::Arg, 3)),
        _ => -(dec.range(K::Arg, 0, i64::MAX as u64) as i64),
    };
    let st_neg = SystemTime::from(TimeSpec::new(neg_secs, n1));
    let st1 = SystemTime::from(TimeSpec::new(s1, n1));
    let st2 = SystemTime::from(TimeSpec::new(s2, n2));
    let _ = st_neg + d;
    let _ = st_neg - d;
    let _ = st_neg - st1;
    let _ = st1 - st_neg;
    let _ = st_neg.duration_since(st2);
    let _ = st_neg.duration_since_unix_time();
    clock.real.set(a2);
    let _ = st_neg.elapsed();
    match st2 - st1 {
        Some(dd) if diff >= 0 && dur_ns(dd) == diff => {}
        None if diff < 0 => {}
        other => return viol("arith|systemtime-sub|wrong", format!("SystemTime ({s2},{n2}) - ({s1},{n1}) = {other:?}, exact {diff} ns")),
    }
    match st1 - d {
        Some(r) if exp_sub >= 0 && r.duration_since(tiny_std::time::UNIX_TIME).map(dur_ns) == Some(exp_sub) => {}
        None if exp_sub < 0 => {}
        other => return viol("arith|systemtime-sub-duration|wrong", format!("SystemTime ({s1},{n1}) - {d:?} = {other:?}, exact {exp_sub} ns")),
    }
    match st2.duration_since(st1) {
        Some(dd) if diff >= 0 && dur_ns(dd) == diff => {}
        None if diff < 0 => {}
        other => return viol("arith|systemtime-duration_since|wrong", format!("SystemTime ({s2},{n2}).duration_since(({s1},{n1})) = {other:?}, exact {diff} ns")),
    }
    if (st1 < st2) != (a1 < a2) || (st1 == st2) != (a1 == a2) {
        return viol("arith|systemtime-ordering", format!("ordering of SystemTime ({s1},{n1}) and ({s2},{n2}) disagrees with subtraction"));
    }
    if let Some(r) = st1 + d {
        match r - d {
            Some(back) if back == st1 => {}
            other => return viol("arith|systemtime-roundtrip|(t+d)-d", format!("((({s1},{n1}) + {d:?}) - d = {other:?}")),
        }
        match r - st1 {
            Some(dd) if dd == d => {}
            other => return viol("arith|systemtime-roundtrip|(t+d)-t", format!("((({s1},{n1}) + {d:?}) - t = {other:?}")),
        }
    }
    // elapsed = now - t, with the clocks at the second value
    clock.mono.set(a2);
    clock.real.set(a2);
    for (name, got) in [("Instant::elapsed", t1.elapsed()), ("SystemTime::elapsed", st1.elapsed())] {
        match got {
            Some(dd) if diff >= 0 && dur_ns(dd) == diff => {}
            None if diff < 0 => {}
            other => return viol(&format!("arith|{name}|wrong"), format!("{name} of ({s1},{n1}) with the clock at ({s2},{n2}) = {other:?}, exact {diff} ns")),
        }
    }
    match (st1 + d, representable(exp_add)) {
        (Some(r), true) => {
            if r.duration_since(tiny_std::time::UNIX_TIME).map(dur_ns) != Some(exp_add) {
                return viol("arith|systemtime-add|wrong-value", format!("SystemTime ({s1},{n1}) + {d:?} is off"));
            }
        }
        (None, false) => {}
        (g, _) => return viol("arith|systemtime-add|wrong-option", format!("SystemTime ({s1},{n1}) + {d:?} = {g:?}")),
    }
    if st1.duration_since_unix_time() != Duration::new(s1 as u64, n1 as u32) {
        return viol("arith|duration_since_unix_time", format!("({s1},{n1})"));
    }
    None
}

/// sleep(d) under interruptions and errors; successive clock readings.
fn sleep_case(dec: &mut Dec, clock: &Clock, counters: &mut Vec<(&'static str, u64)>) -> Option<Violation> {
    let start = i128::from(dec.choose(K::Arg, 1_000_000)) * 1_000 + if dec.chance(K::Arg, 1, 8) { ns_of(i64::MAX / 2, 0) } else { 0 };
    let d = match dec.choose(K::Arg, 10) {
        0 => Duration::ZERO,
        1 => Duration::new(0, 1),
        2 => Duration::new(0, dec.choose(K::Arg, 1_000_000_000)),
        3 => Duration::new(u64::from(dec.choose(K::Arg, 100_000)), dec.choose(K::Arg, 1_000_000_000)),
        4 => Duration::new(i64::MAX as u64, 0),
        5 => Duration::new(i64::MAX as u64, 999_999_999),
        6 => Duration::new(i64::MAX as u64 + 1, 0),
        7 => Duration::new(u64::MAX, 999_999_999),
        8 => Duration::new((i64::MAX as u64) - u64::from(dec.choose(K::Arg, 1_000_000)), 5),
        _ => Duration::new(dec.range(K::Arg, 0, 1 << 40), dec.choose(K::Arg, 1_000_000_000)),
    };
    clock.mono.set(start);
    clock.real.set(ns_of(1_700_000_000, 0));
    clock.eintr_left.set(*dec.pick(K::Cfg, &[0, 0, 1, 3, 20]));
    clock.other_errno.set(if dec.chance(K::Cfg, 1, 5) { Some(*dec.pick(K::Cfg, &[14, 22, 12])) } else { None });
    let injected_other = clock.other_errno.get();
    clock.bad_request.set(false);
    let before = MonotonicInstant::now();
    let r = match std::panic::catch_unwind(|| tiny_std::thread::sleep(d)) {
        Ok(r) => r,
        Err(p) => {
            if p.is::<SleepsForever>() {
                // still asleep when the case ends: it certainly did not return early
                let _ = sched::take_last_panic();
                counters.push(("probe.sleep_never_returns", 1));
                return None;
            }
            std::panic::resume_unwind(p);
        }
    };
    let after_ns = clock.mono.get();
    let other_fired = injected_other.is_some() && clock.other_errno.get().is_none();
    let fits = d.as_secs() <= i64::MAX as u64;
    match r {
        Ok(()) => {
            if !fits {
                return viol("sleep|ok-for-unrepresentable", format!("sleep({d:?}) returned Ok although the duration does not fit the kernel's timespec"));
            }
            if other_fired {
                return viol("sleep|error-swallowed", format!("nanosleep failed with errno {injected_other:?} but sleep({d:?}) returned Ok"));
            }
            if after_ns - start < dur_ns(d) {
                return viol("sleep|returned-early", format!("sleep({d:?}) returned Ok after only {} ns of monotonic time ({} interruptions)", after_ns - start, clock.n_eintr.get()));
            }
            counters.push(("probe.sleep_ok", 1));
        }
        Err(e) => {
            if fits && !other_fired && !clock.bad_request.get() {
                return viol("sleep|spurious-error", format!("sleep({d:?}) failed with {e:?} although nanosleep reported nothing but EINTR"));
            }
            if fits && clock.bad_request.get() {
                return viol("sleep|malformed-request", format!("sleep({d:?}) handed the kernel a malformed timespec"));
            }
            if other_fired {
                let code = match e {
                    tiny_std::Error::Os { code, .. } => Some(code.raw()),
                    _ => None,
                };
                if code != injected_other {
                    return viol("sleep|wrong-error", format!("nanosleep failed with {injected_other:?}, sleep returned {e:?}"));
                }
            }
            counters.push(("probe.sleep_err", 1));
        }
    }
    // readings never decrease and show what the clock shows; the clock moves between them
    // (steps biased to cross a second boundary); elapsed is exact and never panics
    {
        let mut steps = clock.steps.borrow_mut();
        for _ in 0..8 {
            steps.push(match dec.choose(K::Arg, 5) {
                0 => 0,
                1 => 1,
                2 => NS - clock.mono.get().rem_euclid(NS),
                3 => NS - clock.mono.get().rem_euclid(NS) - 1,
                _ => i128::from(dec.choose(K::Arg, 2_000_000_000)),
            });
        }
    }
    let a = MonotonicInstant::now();
    let a_ns = clock.last_mono_read.get();
    let el = before.elapsed();
    let el_at = clock.last_mono_read.get();
    let b = Instant::now();
    let b_ns = clock.last_mono_read.get();
    let c = MonotonicInstant::now();
    let c_ns = clock.last_mono_read.get();
    if a < before || c < a || b.as_ref() < a.as_instant().as_ref() {
        return viol("clock|decreased", "successive monotonic readings decreased".to_string());
    }
    if ts_ns(a.as_instant().as_ref()) != a_ns || ts_ns(b.as_ref()) != b_ns || ts_ns(c.as_instant().as_ref()) != c_ns {
        return viol("clock|wrong-reading", format!("monotonic readings {} / {} / {} ns, the clock showed {a_ns} / {b_ns} / {c_ns}", ts_ns(a.as_instant().as_ref()), ts_ns(b.as_ref()), ts_ns(c.as_instant().as_ref())));
    }
    if el_at - start <= i128::from(u64::MAX) * NS && dur_ns(el) != el_at - start {
        return viol("clock|elapsed-wrong", format!("MonotonicInstant::elapsed() = {el:?}, the clock advanced by {} ns since that reading", el_at - start));
    }
    match b.elapsed() {
        Some(e) if dur_ns(e) == clock.last_mono_read.get() - b_ns => {}
        other => return viol("clock|elapsed-wrong", format!("Instant::elapsed() = {other:?}, the clock advanced by {} ns since that reading", clock.last_mono_read.get() - b_ns)),
    }
    let st = SystemTime::now();
    let st_ns = clock.last_real_read.get();
    if st.duration_since(tiny_std::time::UNIX_TIME).map(dur_ns) != Some(st_ns) {
        return viol("clock|wrong-reading", format!("SystemTime::now() is not the real-time clock's value {st_ns} ns"));
    }
    match st.elapsed() {
        Some(e) if dur_ns(e) == clock.last_real_read.get() - st_ns => {}
        other => return viol("clock|elapsed-wrong", format!("SystemTime::elapsed() = {other:?}, the real-time clock advanced by {} ns", clock.last_real_read.get() - st_ns)),
    }
    clock.steps.borrow_mut().clear();
    None
}

impl Check for C19 {
    fn id(&self) -> &'static str {
        "C19"
    }
    fn level(&self) -> &'static str {
        "exploration"
    }
    fn engine(&self) -> &'static str {
        "simk (engine A): simulated clocks and nanosleep with interruption faults"
    }
    fn cases(&self, tier: Tier) -> u64 {
        match tier {
            Tier::Quick => 4_000_000,
            Tier::Thorough => 400_000_000,
        }
    }
    fn worker_profile(&self, k: usize) -> &'static str {
        // half of the workers run with overflow checks on (panic-freedom clause)
        if k % 2 == 1 {
            "debug"
        } else {
            "release"
        }
    }
    fn rule(&self) -> String {
        "each case is seeded; the clause is chosen by a hash of the case number (both clauses run in both build profiles); sleep clause: thread::sleep(d) for d in {0, 1 ns, sub-second, seconds, up to 2^40 s, i64::MAX s (+/- offsets), i64::MAX+1 s, u64::MAX s} on a simulated 128-bit clock; nanosleep is interrupted 0..20 times by decision (after 0, total-1 or a drawn fraction of the request, remainder written back) and may fail once with EFAULT/EINVAL/ENOMEM; Ok must not come before the monotonic clock advanced by d, other errnos must surface, unrepresentable durations must be errors, then the clock is advanced between readings by steps biased to cross a second boundary: every reading (MonotonicInstant, Instant, SystemTime::now) must equal what the simulated clock showed, readings must not decrease, and the three elapsed() values must be exact. arithmetic clause (a pure function, sampled): two Instants are read from a clock set to boundary-biased values (0, 1, 10^9-1, 2^32, i64::MAX neighbourhood, equal seconds), a boundary-biased Duration (incl. results landing on 0 / the top +-1); t+d, t-d, t2-t1, duration_since, ordering, round trips, elapsed() and the SystemTime versions of all of them are compared with exact i128 arithmetic; SystemTime values down to i64::MIN seconds are only required not to panic. Odd workers run a debug build (overflow checks on). non-trivial = sleep case with >=1 injected interruption or error, or arithmetic case whose exact result is within 2 s of a representability boundary; distinct = hash of inputs and outcomes".into()
    }
    fn assumptions(&self) -> Vec<String> {
        vec![
            "the arithmetic clause has no schedule, clock or fault in it: what is reported for it is seeded sampling of its input space, not a different kind of evidence".into(),
            "tiny-std is built without the vdso feature: every clock reading is a clock_gettime call at the sc seam".into(),
        ]
    }
    fn components(&self) -> Value {
        json!({"real": ["tiny_std::time (Instant, SystemTime, MonotonicInstant arithmetic)", "tiny_std::thread::sleep", "rusl::time wrappers"], "stub": ["clock_gettime and nanosleep (simulated clock, interruptions by decision)"]})
    }
    fn run(&self, case: u64, dec: Dec, opts: &RunOpts) -> RunOut {
        let clock = Clock {
            mono: Cell::new(0),
            real: Cell::new(0),
            eintr_left: Cell::new(0),
            other_errno: Cell::new(None),
            n_eintr: Cell::new(0),
            n_other: Cell::new(0),
            n_sleep_calls: Cell::new(0),
            bad_request: Cell::new(false),
            steps: std::cell::RefCell::new(Vec::new()),
            last_mono_read: Cell::new(0),
            last_real_read: Cell::new(0),
        };
        let mut sim = Sim::new(dec, SimCfg { record: opts.record, ..SimCfg::default() });
        sim.set_kernel(&clock);
        let mut counters: Vec<(&'static str, u64)> = Vec::new();
        let mut v: Option<Violation> = None;
        // not by parity: cases are dealt to workers round-robin and the build profile is the
        // worker's parity, both clauses have to run in both profiles
        let sleep_kind = simk::dec::mix(&[case, 0x5eed]) & 1 == 0;
        sched::with_installed(&mut sim, || {
            let r = std::panic::catch_unwind(std::panic::AssertUnwindSafe(|| {
                let s = sim_ref();
                if sleep_kind {
                    sleep_case(&mut s.dec, &clock, &mut counters)
                } else {
                    arith_case(&mut s.dec, &clock, &mut counters)
                }
            }));
            v = match r {
                Ok(v) => v,
                Err(_) => {
                    let (msg, loc) = sched::take_last_panic().unwrap_or_default();
                    let loc = sched::short_loc(&loc);
                    Some(Violation { sig: format!("panic|{loc}"), detail: format!("panic at {loc}: {msg}") })
                }
            };
        });
        let mut out = RunOut::default();
        out.violation = v;
        let mut h = simk::dec::mix(&[u64::from(sleep_kind), clock.n_eintr.get(), clock.n_other.get(), clock.n_sleep_calls.get()]);
        for d in &sim.dec.log {
            h = simk::dec::mix(&[h, u64::from(d.2)]);
        }
        out.hash = h;
        out.shape = h;
        out.nontrivial = if sleep_kind { clock.n_eintr.get() + clock.n_other.get() > 0 } else { counters.iter().any(|c| c.0 == "probe.add_none" || c.0 == "probe.sub_none") };
        out.sim_ns = (clock.mono.get().clamp(0, i128::from(u64::MAX) / 4)) as u64 / 1_000_000;
        out.events = sim.trace.events.take().unwrap_or_default();
        out.decisions = std::mem::take(&mut sim.dec.log);
        out.counters.insert("fault.nanosleep_eintr", clock.n_eintr.get());
        out.counters.insert("fault.nanosleep_other_errno", clock.n_other.get());
        out.counters.insert("sleep.nanosleep_calls", clock.n_sleep_calls.get());
        for (k, n) in counters {
            *out.counters.entry(k).or_insert(0) += n;
        }
        if opts.record {
            out.sample = Some(json!({"kind": if sleep_kind { "sleep/clock" } else { "arithmetic" }, "interruptions": clock.n_eintr.get(), "other_errors": clock.n_other.get(), "nanosleep_calls": clock.n_sleep_calls.get(), "decisions": out.decisions.iter().map(|d| d.2).collect::<Vec<u32>>()}));
        }
        out
    }
}

fn sim_ref() -> &'static mut Sim {
    sim().unwrap()
}
