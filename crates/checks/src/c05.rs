//! C05 — threads: the closure runs exactly once, join waits for the thread and returns its value
//! (None iff it panicked), a thread that cannot be created is an error.
//! C06 — threads: stack, TLS block and join state are released exactly once in every order.
//!
//! Engine B: the real no-libc probe `probes/threads` (tiny-std `thread::spawn`, `JoinHandle`, the
//! `__clone` trampoline, the panic handler, the kernel's clear-tid write) runs under the ptrace
//! simulator `crates/ptsim`: one runnable thread at a time, futex and sleep emulated, scheduling,
//! single-step preemption and failing system calls drawn from the decision stream.

use ptsim::proto::*;
use ptsim::{Cfg, End, FaultCfg, Out, Rec};
use serde_json::{json, Value};
use simk::dec::{hash_str, mix, Dec, K};
use simk::runner::{harness_error, verif_root, Check, RunOpts, RunOut, Tier};
use simk::sched::Violation;
use std::path::PathBuf;

pub struct C05;
pub struct C06;

#[derive(Clone, Copy, PartialEq)]
enum Flavor {
    C05,
    C06,
}

#[derive(Clone, Copy, Debug)]
struct TSpec {
    tag: u32,
    class: u32,
    panics: bool,
    /// the panic happens while the arguments of an eprintln! are evaluated (print lock held)
    panic_in_print: bool,
    nrec: u32,
    sleep_ms: u32,
    alloc: u32,
    fate: u32,
}

impl TSpec {
    fn outcome(&self) -> &'static str {
        if self.panics {
            "panicked"
        } else {
            "returned"
        }
    }
    /// scenario class used in violation signatures
    fn class_sig(&self) -> String {
        format!("{}+{}", self.outcome(), fate_name(self.fate))
    }
    fn describe(&self) -> String {
        format!(
            "#{} {} {} {} records{}{} -> {}",
            self.tag,
            class_name(self.class),
            self.outcome(),
            self.nrec,
            if self.sleep_ms > 0 { format!(", sleep {} ms", self.sleep_ms) } else { String::new() },
            if self.alloc > 0 { format!(", alloc {} words", self.alloc) } else { String::new() },
            fate_name(self.fate)
        )
    }
}

struct Scenario {
    batches: Vec<Vec<TSpec>>,
    /// the probe's allocator gives freed blocks back at once (addresses are reused immediately)
    no_quarantine: bool,
    /// the address-reuse family: threads of one result class spawned and joined one after the
    /// other, so that each join state is built where the previous one was just freed while the
    /// previous thread's clear-tid wake may still be on its way
    reuse_chain: bool,
}

impl Scenario {
    fn spec(&self, tag: u32) -> Option<&TSpec> {
        self.batches.iter().flatten().find(|s| s.tag == tag)
    }
    fn args(&self) -> Vec<String> {
        let mut a = vec![(MODE_TRACED | if self.no_quarantine { MODE_NO_QUARANTINE } else { 0 }).to_string(), self.batches.len().to_string()];
        for b in &self.batches {
            a.push(b.len().to_string());
            for s in b {
                for x in [s.class, if s.panic_in_print { 2 } else { u32::from(s.panics) }, s.nrec, s.sleep_ms, s.alloc, s.fate] {
                    a.push(x.to_string());
                }
            }
        }
        a
    }
    fn hash(&self) -> u64 {
        hash_str(&self.args().join(" "))
    }
}

fn gen_scenario(dec: &mut Dec, flavor: Flavor, tier: Tier) -> Scenario {
    let nb = match (flavor, tier) {
        (Flavor::C05, Tier::Quick) => 1 + dec.choose(K::Cfg, 3),
        (Flavor::C05, Tier::Thorough) => 1 + dec.choose(K::Cfg, 5),
        (Flavor::C06, Tier::Quick) => 2 + dec.choose(K::Cfg, 6),
        (Flavor::C06, Tier::Thorough) => 2 + dec.choose(K::Cfg, 11),
    };
    // C06: now and then a long history (hundreds of threads through one process, every block of
    // the allocator's quarantine recycled many times)
    let nb = match (flavor, tier) {
        (Flavor::C06, Tier::Quick) if dec.chance(K::Cfg, 1, 60) => 12 + dec.choose(K::Cfg, 13),
        (Flavor::C06, Tier::Thorough) if dec.chance(K::Cfg, 1, 40) => 20 + dec.choose(K::Cfg, 41),
        _ => nb,
    };
    if flavor == Flavor::C05 && dec.chance(K::Cfg, 1, 5) {
        let class = *dec.pick(K::Arg, &[C_UNIT, C_U8, C_U64, C_B24, C_BOOL, C_OPT_U32]);
        let mut tag = 0;
        let mut batches = Vec::new();
        for _ in 0..1 + dec.choose(K::Cfg, 2) {
            let mut b = Vec::new();
            for _ in 0..MAX_THREADS_PER_BATCH {
                tag += 1;
                let sleep_ms = if dec.chance(K::Arg, 1, 3) { 1 } else { 0 };
                b.push(TSpec { tag, class, panics: false, panic_in_print: false, nrec: 1 + dec.choose(K::Arg, 3), sleep_ms, alloc: 0, fate: FATE_JOIN_NOW });
            }
            batches.push(b);
        }
        return Scenario { batches, no_quarantine: true, reuse_chain: true };
    }
    let mut tag = 0;
    let mut print_panic_used = false;
    let mut batches = Vec::new();
    for _ in 0..nb {
        let nt = 1 + dec.choose(K::Op, MAX_THREADS_PER_BATCH as u32);
        let mut b = Vec::new();
        for _ in 0..nt {
            tag += 1;
            let class = dec.choose(K::Arg, CLASSES);
            let panics = match flavor {
                Flavor::C05 => dec.chance(K::Arg, 1, 3),
                Flavor::C06 => dec.chance(K::Arg, 1, 2),
            };
            let nrec = dec.choose(K::Arg, 4);
            let sleep_ms = if dec.chance(K::Arg, 1, if flavor == Flavor::C05 { 4 } else { 8 }) { 1 + dec.choose(K::Arg, 3) } else { 0 };
            let alloc = if dec.chance(K::Arg, 1, 3) { 1 + dec.choose(K::Arg, 64) } else { 0 };
            let mut fate = dec.choose(K::Arg, 4);
            let mut panics = panics;
            if class == C_DROP_PANICS {
                // a result whose destructor panics: only with a dropped handle (a joined one would
                // hand the value to main), the closure itself returns normally
                fate = if fate % 2 == 0 { FATE_DROP_NOW } else { FATE_DROP_LATER };
                panics = false;
            }
            // at most one per process: a thread that panics while it holds tiny-std's print lock
            // never releases it (there is no unwinding), a second one would rightly block for ever
            let panic_in_print = panics && !print_panic_used && dec.chance(K::Arg, 1, 5);
            print_panic_used |= panic_in_print;
            b.push(TSpec { tag, class, panics, panic_in_print, nrec, sleep_ms, alloc, fate });
        }
        batches.push(b);
    }
    // one run in four: no quarantine in the probe's allocator, a freed join state is reused by the
    // next spawn at once (a late wake or write aimed at the old one then meets the new one)
    let no_quarantine = dec.chance(K::Cfg, 1, 4);
    Scenario { batches, no_quarantine, reuse_chain: false }
}

fn probe_path(profile: &str) -> PathBuf {
    let dir = std::env::var("PTSIM_PROBE_DIR").map_or_else(|_| verif_root().join("target").join("probes"), PathBuf::from);
    dir.join(profile).join("threads-probe")
}

/// every fourth case runs the debug build of the probe (overflow checks, debug assertions of the
/// allocator and of tiny-std on)
fn probe_for(case: u64) -> (PathBuf, bool) {
    if simk::dec::mix(&[case, 0xc05]) % 4 == 3 {
        let p = probe_path("debug");
        if p.exists() {
            return (p, true);
        }
    }
    (probe_path("release"), false)
}

// ---- what the records say ------------------------------------------------------------------

#[derive(Default, Clone)]
struct TagFacts {
    spawning: Option<usize>,
    spawned: Option<(usize, bool, u64)>,
    starts: Vec<(usize, usize)>,
    last_closure_rec: Option<(usize, bool)>,
    joining: Option<usize>,
    joined: Option<usize>,
    join: Option<(bool, u64, u64, u64)>,
    dropping: Option<usize>,
    dropped: Option<usize>,
    slot: Option<(u64, u64)>,
    /// faults injected into this tag's spawn
    faults: Vec<(&'static str, i32)>,
    /// a clone of main inside this tag's spawn window created a thread
    clone_ok: bool,
    clone_attempts: usize,
    thread: Option<usize>,
}

fn facts(scn: &Scenario, out: &Out) -> Vec<TagFacts> {
    let ntags = scn.batches.iter().map(Vec::len).sum::<usize>();
    let mut f = vec![TagFacts::default(); ntags + 1];
    for (i, r) in out.records.iter().enumerate() {
        let t = r.tag as usize;
        let per_tag = matches!(r.kind, R_SPAWNING | R_SPAWNED | R_START | R_WORK | R_JOINING | R_JOINED | R_JOIN | R_DROPPING | R_DROPPED | R_SLOT);
        if !per_tag || t == 0 || t > ntags {
            continue;
        }
        let e = &mut f[t];
        match r.kind {
            R_SPAWNING => e.spawning = Some(i),
            R_SPAWNED => e.spawned = Some((i, r.v[0] == 1, r.v[1])),
            R_START => {
                e.starts.push((i, r.thread));
                e.thread = Some(r.thread);
                e.last_closure_rec = Some((i, r.v[6] == 1));
            }
            R_WORK => e.last_closure_rec = Some((i, r.v[6] == 1)),
            R_JOINING => e.joining = Some(i),
            R_JOINED => e.joined = Some(i),
            R_JOIN => e.join = Some((r.v[0] == 1, r.v[1], r.v[2], r.v[3])),
            R_DROPPING => e.dropping = Some(i),
            R_DROPPED => e.dropped = Some(i),
            R_SLOT => e.slot = Some((r.v[0], r.v[1])),
            _ => {}
        }
    }
    // events of main inside a spawn window belong to that spawn
    for (tag, e) in f.iter_mut().enumerate().skip(1) {
        let Some(a) = e.spawning else { continue };
        let b = e.spawned.map_or(usize::MAX, |s| s.0);
        let inside = |pos: usize| pos > a && pos <= b;
        for fi in &out.fired {
            if fi.thread == 0 && inside(fi.rec_pos) {
                e.faults.push((fi.what, fi.errno));
            }
        }
        for c in &out.clones {
            if c.parent == 0 && inside(c.rec_pos) {
                e.clone_attempts += 1;
                if let Some(ch) = c.child {
                    e.clone_ok = true;
                    if e.thread.is_none() {
                        e.thread = Some(ch);
                    }
                }
            }
        }
        let _ = tag;
    }
    f
}

fn viol(sig: String, detail: String) -> Option<Violation> {
    Some(Violation { sig, detail })
}

fn fault_class(f: &TagFacts) -> Option<&'static str> {
    f.faults.iter().map(|x| x.0).next().map(|w| if w == "clone" { "clone-failed" } else { "stack-mmap-failed" })
}

/// clauses shared by both properties: the probe must neither crash nor stop early
fn judge_end(scn: &Scenario, out: &Out, f: &[TagFacts]) -> Option<Violation> {
    let text = String::from_utf8_lossy(&out.text_out).chars().take(300).collect::<String>();
    match &out.end {
        End::Crash { thread, sig, rip, addr } => {
            let who = if *thread == 0 {
                "main".to_string()
            } else {
                match f.iter().position(|e| e.thread == Some(*thread)).and_then(|t| scn.spec(t as u32)) {
                    Some(s) => format!("thread:{}", s.class_sig()),
                    None => "thread".to_string(),
                }
            };
            viol(
                format!("crash|signal-{sig}|{who}"),
                format!("probe thread t{thread} ({who}) received fatal signal {sig} at instruction {rip:#x}, fault address {addr:#x}"),
            )
        }
        End::Exited(0) => {
            if out.records.last().map(|r| r.kind) != Some(R_DONE) {
                return viol("probe-stopped-early|exit-0".into(), "the probe exited with status 0 before it reported DONE".into());
            }
            None
        }
        End::Exited(c) => viol(format!("probe-exit-code|{c}"), format!("the probe exited with status {c}; its output: {text:?}")),
        _ => None,
    }
}

fn judge_c05(scn: &Scenario, out: &Out, f: &[TagFacts]) -> Option<Violation> {
    if let End::SpawnStuck { attempts } = &out.end {
        return viol(
            "spawn-never-returns|clone-keeps-failing".into(),
            format!("with every clone failing (EAGAIN), spawn issued {attempts} clone calls in a row without returning an error"),
        );
    }
    // (4b) a state in which every live thread is parked: some join (or drop) never returns
    if let End::Deadlock(parked) = &out.end {
        let waiting = f.iter().enumerate().skip(1).find(|(_, e)| (e.joining.is_some() && e.joined.is_none()) || (e.dropping.is_some() && e.dropped.is_none()));
        let who: Vec<String> = parked.iter().map(|(t, w)| format!("t{t}:{w}")).collect();
        if let Some((tag, e)) = waiting {
            let s = scn.spec(tag as u32).unwrap();
            let op = if e.joining.is_some() && e.joined.is_none() { "join" } else { "drop" };
            let class = fault_class(e).map_or_else(|| s.class_sig(), str::to_string);
            let why = if e.faults.is_empty() {
                String::new()
            } else {
                format!("; injected during its spawn: {:?}; spawn had reported {}", e.faults, if e.spawned.is_some_and(|x| x.1) { "Ok" } else { "Err" })
            };
            return viol(
                format!("{op}-never-returns|{class}"),
                format!("every live thread is parked ({}): main is inside {op}() of thread {} and nothing can wake it{why}", who.join(", "), s.describe()),
            );
        }
        return viol("deadlock|outside-join".into(), format!("every live thread is parked: {}", who.join(", ")));
    }
    if let Some(v) = judge_end(scn, out, f) {
        return Some(v);
    }
    let complete = out.end == End::Exited(0);
    for (tag, e) in f.iter().enumerate().skip(1) {
        let s = scn.spec(tag as u32).unwrap();
        let Some((_, ok, errno)) = e.spawned else { continue };
        // (4a) an injected failure that prevented thread creation must surface as Err
        let prevented = !e.faults.is_empty() && !e.clone_ok;
        if prevented && ok {
            return viol(
                format!("spawn-ok-without-thread|{}", fault_class(e).unwrap()),
                format!("{:?} was injected into the spawn of {} and no thread was created, yet spawn returned Ok", e.faults, s.describe()),
            );
        }
        if !ok && e.faults.is_empty() {
            return viol(format!("spawn-error-without-cause|{}", s.class_sig()), format!("spawn of {} returned Err (errno {errno}) although no call failed", s.describe()));
        }
        if !ok && !e.starts.is_empty() {
            return viol(format!("closure-ran-after-spawn-error|{}", s.class_sig()), format!("spawn of {} returned Err but its closure started", s.describe()));
        }
        // (1) exactly one START per successful spawn
        if ok && e.starts.len() > 1 {
            return viol(format!("closure-ran-twice|{}", s.class_sig()), format!("{} START records of {}", e.starts.len(), s.describe()));
        }
        if ok && complete && e.starts.is_empty() {
            return viol(format!("closure-never-ran|{}", s.class_sig()), format!("spawn of {} returned Ok, the process ran to its end, and the closure never started", s.describe()));
        }
        if ok && complete {
            if let Some((runs, val)) = e.slot {
                if runs != 1 || val != slot_value(s.tag) {
                    return viol(
                        format!("closure-effects-wrong|{}", s.class_sig()),
                        format!("after all threads were gone the buffer of {} holds run counter {runs} (expected 1) and value {val:#x} (expected {:#x})", s.describe(), slot_value(s.tag)),
                    );
                }
            }
        }
        // (3) JOINED never precedes the closure's last record, nor the thread's exit
        if let Some(j) = e.joined {
            match e.last_closure_rec {
                Some((pos, last)) if pos < j && last => {}
                Some((pos, _)) if pos > j => {
                    return viol(format!("join-returned-before-closure-end|{}", s.class_sig()), format!("join of {} returned (record {j}) before the closure wrote its last record ({pos})", s.describe()));
                }
                _ => {
                    return viol(format!("join-returned-before-closure-end|{}", s.class_sig()), format!("join of {} returned (record {j}) while the closure had not written its last record", s.describe()));
                }
            }
            if let Some(th) = e.thread {
                let ti = &out.threads[th];
                if !ti.exited || ti.exit_rec_pos > j {
                    return viol(format!("join-returned-before-thread-exit|{}", s.class_sig()), format!("join of {} returned while its thread t{th} was still alive", s.describe()));
                }
            }
        }
        // (2) Some(tagged value) iff returned, None iff panicked; buffer visible
        if let Some((some, hash, runs, val)) = e.join {
            if some == s.panics {
                return viol(
                    format!("join-wrong-option|{}", s.class_sig()),
                    format!("closure of {} {}, join returned {}", s.describe(), s.outcome(), if some { "Some" } else { "None" }),
                );
            }
            if some && hash != expected_vhash(s.class, s.tag) {
                return viol(
                    format!("join-wrong-value|{}|{}", class_name(s.class), s.class_sig()),
                    format!("join of {} returned a value with hash {hash:#x}, expected {:#x}", s.describe(), expected_vhash(s.class, s.tag)),
                );
            }
            if runs != 1 || val != slot_value(s.tag) {
                return viol(
                    format!("join-effects-not-visible|{}", s.class_sig()),
                    format!("after join of {} its buffer holds run counter {runs} (expected 1) and value {val:#x} (expected {:#x})", s.describe(), slot_value(s.tag)),
                );
            }
        }
    }
    None
}

fn batch_class(b: &[TSpec]) -> String {
    if b.len() == 1 {
        b[0].class_sig()
    } else {
        "several-threads".to_string()
    }
}

fn judge_c06(scn: &Scenario, out: &Out, f: &[TagFacts]) -> Option<Violation> {
    if let End::Deadlock(parked) = &out.end {
        let who: Vec<String> = parked.iter().map(|(t, w)| format!("t{t}:{w}")).collect();
        return viol("deadlock|no-fault".into(), format!("every live thread is parked: {}", who.join(", ")));
    }
    if let Some(v) = judge_end(scn, out, f) {
        return Some(v);
    }
    // (1) stack ledger per thread
    for ti in out.threads.iter().skip(1) {
        let spec = f.iter().position(|e| e.thread == Some(ti.idx)).and_then(|t| scn.spec(t as u32));
        let class = spec.map_or_else(|| "unknown".to_string(), TSpec::class_sig);
        let desc = spec.map_or_else(|| format!("t{}", ti.idx), TSpec::describe);
        let Some(m) = ti.stack_map else {
            return viol("stack-not-a-tracked-mapping".into(), format!("the child stack pointer of {desc} lies in no mapping the tracer saw"));
        };
        let map = &out.mappings[m];
        if !ti.exited {
            continue;
        }
        let own: Vec<_> = map.unmaps.iter().filter(|u| u.result == 0).collect();
        if own.is_empty() {
            return viol(format!("stack-not-unmapped|{class}"), format!("thread {desc} (t{}) exited without unmapping its stack mapping m{m}", ti.idx));
        }
        if own.len() > 1 || own[0].off != 0 || own[0].len != map.len {
            return viol(
                format!("stack-unmapped-piecewise-or-twice|{class}"),
                format!("stack mapping m{m} of {desc}: {} successful munmap calls, first covers +{:#x}..+{:#x} of {:#x}", own.len(), own[0].off, own[0].off + own[0].len, map.len),
            );
        }
        if own[0].thread != ti.idx {
            return viol(format!("stack-unmapped-by-other-thread|{class}"), format!("stack mapping m{m} of {desc} (t{}) was unmapped by t{}", ti.idx, own[0].thread));
        }
        if own[0].call_no + 1 != ti.calls || ti.last_nrs[1] != 11 || ti.last_nrs[2] != 60 {
            return viol(
                format!("stack-unmap-not-last-call|{class}"),
                format!("thread {desc}: munmap of its stack was call {} of {}, its last calls were {:?} (expected munmap, exit)", own[0].call_no, ti.calls, ti.last_nrs),
            );
        }
        if map.unmaps.iter().any(|u| u.result != 0 && !u.injected) {
            return viol(format!("stack-unmap-failed|{class}"), format!("a munmap aimed at the stack of {desc} failed"));
        }
    }
    // per batch: ledgers at BATCH_END
    let base = out.records.iter().find(|r| r.kind == R_BASELINE);
    let mut panicked_so_far = 0u64;
    let ends: Vec<(usize, &Rec)> = out.records.iter().enumerate().filter(|(_, r)| r.kind == R_BATCH_END).collect();
    for (bi, b) in scn.batches.iter().enumerate() {
        let Some((pos, r)) = ends.iter().find(|(_, r)| r.tag as usize == bi) else { break };
        // a batch in which a spawn was made to fail is named after that
        let spawn_failed = b.iter().any(|s| f[s.tag as usize].spawned.is_some_and(|x| !x.1));
        let class = if spawn_failed { "spawn-failed".to_string() } else { batch_class(b) };
        let described: Vec<String> = b.iter().map(TSpec::describe).collect();
        // a thread that ends in the panic handler leaves its closure behind: the closure panicked, or
        // the result's destructor did when the thread disposed of it
        panicked_so_far += b.iter().filter(|s| (s.panics || s.class == C_DROP_PANICS) && f[s.tag as usize].spawned.is_some_and(|x| x.1) && !f[s.tag as usize].starts.is_empty()).count() as u64;
        // (1) no thread stack mapped
        if let Some(snap) = out.snapshots.iter().find(|s| s.kind == R_BATCH_END && s.rec_pos == pos + 1) {
            if let Some(m) = snap.live_stacks.first() {
                let owner = out.mappings[*m].stack_of;
                let spec = owner.and_then(|o| f.iter().position(|e| e.thread == Some(o))).and_then(|t| scn.spec(t as u32));
                return viol(
                    format!("stack-mapped-at-batch-end|{}", spec.map_or_else(|| class.clone(), TSpec::class_sig)),
                    format!("at the end of batch {bi} (all threads gone) {} thread stack mapping(s) still exist, e.g. m{m} of {}", snap.live_stacks.len(), spec.map_or_else(|| "?".to_string(), TSpec::describe)),
                );
            }
        }
        // (2) heap ledger
        let bad = r.v[2];
        let (dfree, foreign, mism) = (bad & 0xffff, bad >> 16 & 0xffff, bad >> 32);
        if dfree > 0 {
            return viol(format!("double-free|{class}"), format!("batch {bi} {described:?}: the allocator saw {dfree} frees of blocks that were already free"));
        }
        if foreign > 0 {
            return viol(format!("foreign-free|{class}"), format!("batch {bi} {described:?}: the allocator saw {foreign} frees of pointers it never returned"));
        }
        if mism > 0 {
            return viol(format!("dealloc-layout-mismatch|{class}"), format!("batch {bi} {described:?}: {mism} blocks were freed with a layout different from the one they were allocated with"));
        }
        // (3) poison of freed blocks
        if r.v[3] > 0 {
            let field = match r.v[6] {
                0..=3 => "sync-flag",
                4..=7 => "exit-futex",
                8..=23 => "layout-words",
                _ => "result-slot",
            };
            return viol(
                format!("freed-block-written|{field}|{class}"),
                format!("batch {bi} {described:?}: {} freed block(s) were written after their release; first: size {} align {} at offset {} ({field} if it was a thread's join state)", r.v[3], r.v[4], r.v[5], r.v[6]),
            );
        }
        if let Some(base) = base {
            let deltas: Vec<(u64, u64, i64)> = out.records.iter().filter(|x| x.kind == R_LEDGER && x.tag as usize == bi).map(|x| (x.v[0], x.v[1], x.v[2] as i64)).collect();
            let live = r.v[0] as i64 - base.v[0] as i64;
            if live != panicked_so_far as i64 || deltas.iter().any(|d| d.2 < 0) {
                let kind = if live > panicked_so_far as i64 { "leak" } else { "missing" };
                return viol(
                    format!("heap-not-at-baseline|{kind}|{class}"),
                    format!("end of batch {bi} {described:?}: {live} live allocations above the baseline, expected {panicked_so_far} (one closure per panicked thread so far); per layout (size, align, delta): {deltas:?}"),
                );
            }
            let mut layouts: Vec<(u64, u64)> = deltas.iter().map(|d| (d.0, d.1)).collect();
            layouts.dedup();
            if layouts.len() > 1 {
                return viol(
                    format!("heap-not-at-baseline|wrong-layouts|{class}"),
                    format!("end of batch {bi} {described:?}: the surviving allocations are not all closures: {deltas:?}"),
                );
            }
        }
    }
    None
}

// ---- the run -------------------------------------------------------------------------------

fn run_case(flavor: Flavor, case: u64, mut dec: Dec, opts: &RunOpts) -> RunOut {
    let scn = gen_scenario(&mut dec, flavor, opts.tier);
    let (probe, debug_probe) = probe_for(case);
    let mut cfg = Cfg::new(probe, scn.args());
    cfg.record = opts.record;
    if flavor == Flavor::C05 && dec.chance(K::Fault, 1, 3) {
        cfg.faults = FaultCfg { mmap_stack: true, clone: true, munmap: false, spurious_futex: false, num: 1, den: 5, max_per_run: 2 };
        // a third of these: once clone has failed it keeps failing (a limit that stays reached)
        cfg.clone_keeps_failing = dec.chance(K::Fault, 1, 3);
    }
    if flavor == Flavor::C06 && dec.chance(K::Fault, 1, 5) {
        // a spawn that fails must leave nothing behind either
        cfg.faults = FaultCfg { mmap_stack: true, clone: true, munmap: false, spurious_futex: false, num: 1, den: 6, max_per_run: 2 };
    }
    // half of the runs freeze a thread that was preempted inside a window for a few quanta
    cfg.window_hold_max = *dec.pick(K::Cfg, &[0u32, 0, 6, 16]);
    // the kernel clears a thread's tid word and wakes its futex in two steps: the wake may come
    // a few quanta after the zero is visible
    cfg.defer_ctid_wake_max = *dec.pick(K::Cfg, &[0u32, 0, 4, 24]);
    if scn.reuse_chain {
        cfg.defer_ctid_wake_max = *dec.pick(K::Cfg, &[4u32, 24, 60]);
    }
    // a third of the runs: a futex wait (join, handle drop, allocator lock) is interrupted up to 3
    // times (EINTR: a signal with a handler arrives); the wait has to be taken up again
    cfg.futex_eintr_den = *dec.pick(K::Cfg, &[0u32, 0, 5]);
    if std::env::var_os("PTSIM_FAULT_MUNMAP").is_some() {
        // exploration only: shows that the stack ledger reacts; never part of a registered command
        cfg.faults = FaultCfg { mmap_stack: false, clone: false, munmap: true, spurious_futex: false, num: 1, den: 6, max_per_run: 1 };
    }
    if std::env::var_os("PTSIM_FAULT_SPURIOUS_FUTEX").is_some() {
        // exploration only (DESIGN, C05 scope note): what such a run shows is printed as a NOTE
        cfg.faults = FaultCfg { mmap_stack: false, clone: false, munmap: false, spurious_futex: true, num: 1, den: 4, max_per_run: 2 };
    }
    let out = ptsim::run(&cfg, &mut dec);
    let mut ro = RunOut::default();
    match &out.end {
        End::Harness(m) => harness_error(&format!("ptsim: {m} (case {case})")),
        End::Watchdog => {
            ro.counters.insert("probe.nonreplayable_watchdog_runs", 1);
        }
        End::Budget => {
            ro.counters.insert("probe.stop_budget_exhausted_runs", 1);
        }
        _ => {}
    }
    if let Some(m) = &out.ledger_mismatch {
        harness_error(&format!("ptsim: mapping ledger disagrees with the kernel: {m} (case {case})"));
    }
    let f = facts(&scn, &out);
    let judged = !matches!(out.end, End::Watchdog | End::Budget);
    if judged {
        ro.violation = match flavor {
            Flavor::C05 => judge_c05(&scn, &out, &f),
            Flavor::C06 => judge_c06(&scn, &out, &f),
        };
    }
    if out.fired.iter().any(|x| x.what == "spurious_futex") {
        if let Some(v) = ro.violation.take() {
            eprintln!("NOTE: property={} (spurious futex return injected, outside the property's quantifier) {}: {}", if flavor == Flavor::C05 { "C05" } else { "C06" }, v.sig, v.detail);
            ro.counters.insert("probe.note_only_runs_with_spurious_futex", 1);
        }
    }
    ro.counters.insert("probe.reuse_chain_runs", u64::from(scn.reuse_chain));
    let sh = scn.hash();
    ro.hash = mix(&[out.hash, sh, u64::from(debug_probe)]);
    ro.shape = mix(&[out.shape, sh]);
    ro.sim_ns = out.sim_ns;
    ro.steps = out.stops;
    let nthreads = out.threads.len() as u64 - 1;
    let dropped = f.iter().filter(|e| e.dropped.is_some()).count() as u64;
    let joins_parked = out.ctid_wakes;
    ro.nontrivial = match flavor {
        Flavor::C05 => out.switches >= 2 && (out.parks >= 1 || out.bursts >= 1 || !out.fired.is_empty()),
        Flavor::C06 => out.switches >= 2 && dropped >= 1 && out.bursts >= 1,
    };
    let c = &mut ro.counters;
    for what in ["mmap_stack", "clone"] {
        let n = out.fired.iter().filter(|x| x.what == what).count() as u64;
        if flavor == Flavor::C05 {
            c.insert(if what == "clone" { "fault.clone" } else { "fault.mmap_stack" }, n);
        }
    }
    if out.fired.iter().any(|x| x.what == "munmap") {
        c.insert("fault.munmap_exploration", 1);
    }
    c.insert("probe.threads_created", nthreads);
    c.insert("probe.threads_panicked", f.iter().enumerate().skip(1).filter(|(t, e)| !e.starts.is_empty() && scn.spec(*t as u32).is_some_and(|s| s.panics)).count() as u64);
    c.insert("probe.join_parked_until_thread_exit", joins_parked);
    c.insert("probe.joins_total", f.iter().filter(|e| e.joined.is_some()).count() as u64);
    c.insert("probe.handles_dropped", dropped);
    c.insert("probe.join_state_freed_by_thread", out.set_tid_zero);
    c.insert("probe.futex_wait_value_changed", out.eagain);
    c.insert("probe.single_step_bursts", u64::from(out.bursts));
    c.insert("probe.single_steps", out.single_steps);
    c.insert("probe.preempted_in_thread_epilogue_window", out.preempt_thread_window);
    c.insert("probe.preempted_in_join_or_drop_window", out.preempt_main_window);
    c.insert("probe.allocator_mutex_parks", out.parks.saturating_sub(joins_parked));
    if flavor == Flavor::C05 {
        c.insert("probe.tracer_deadlocks", u64::from(matches!(out.end, End::Deadlock(_))));
        c.insert("probe.spawn_reported_err", f.iter().filter(|e| e.spawned.is_some_and(|s| !s.1)).count() as u64);
    }
    c.insert("probe.debug_build_probe_runs", u64::from(debug_probe));
    c.insert("context_switches", out.switches);
    if opts.record {
        let mut ev = vec![format!("scenario ({} probe, scheduling {}):", if debug_probe { "debug" } else { "release" }, out.sched_mode)];
        for (bi, b) in scn.batches.iter().enumerate() {
            for s in b {
                ev.push(format!("  batch {bi}: {}", s.describe()));
            }
        }
        ev.extend(out.events.iter().cloned());
        ro.events = ev;
        ro.sample = Some(json!({
            "batches": scn.batches.iter().map(|b| b.iter().map(TSpec::describe).collect::<Vec<_>>()).collect::<Vec<_>>(),
            "probe": if debug_probe { "debug" } else { "release" },
            "scheduling": out.sched_mode,
            "faults": out.fired.iter().map(|x| format!("{} -> errno {}", x.what, x.errno)).collect::<Vec<_>>(),
            "end": format!("{:?}", out.end),
            "stops": out.stops, "single_steps": out.single_steps, "switches": out.switches,
        }));
    }
    ro.decisions = std::mem::take(&mut dec.log);
    ro
}

fn workers_env(default: usize) -> usize {
    std::env::var("PTSIM_WORKERS").ok().and_then(|s| s.parse().ok()).unwrap_or(default)
}

fn prepare_probe() {
    if !probe_path("release").exists() {
        harness_error(&format!("{} is missing: run bin/setup (or bin/check C05) to build the probe", probe_path("release").display()));
    }
}

fn components() -> Value {
    json!({
        "real": ["tiny_std::thread::spawn / JoinHandle::join / JoinHandle::drop", "the __clone trampoline (global_asm) incl. its munmap+exit epilogue", "tiny-std _start, main-thread TLS set-up, panic handler", "tiny_std::sync::Mutex + Dlmalloc under the probe's counting allocator", "kernel: clone, mmap/munmap, set_tid_address, exit incl. the clear-child-tid write, arch_prctl"],
        "stub": ["thread scheduling (ptrace: one runnable thread, decision stream)", "futex WAIT/WAKE and the wake-up half of clear-child-tid (tracer model, shared/private keys kept apart)", "nanosleep (simulated clock)", "the probe's report channel fd 999 and fds 1/2 (intercepted)", "injected failures of mmap(stack) and clone"],
    })
}

impl Check for C05 {
    fn id(&self) -> &'static str {
        "C05"
    }
    fn level(&self) -> &'static str {
        "exploration"
    }
    fn engine(&self) -> &'static str {
        "ptsim (engine B): ptrace scheduler over the real no-libc probe, futex/clear-tid/sleep emulated, syscall fault injection"
    }
    fn cases(&self, tier: Tier) -> u64 {
        match tier {
            Tier::Quick => 4_000,
            Tier::Thorough => 300_000,
        }
    }
    fn workers(&self, _tier: Tier) -> usize {
        workers_env(12)
    }
    fn prepare(&self, _tier: Tier) {
        prepare_probe();
    }
    fn rule(&self) -> String {
        "each case = one execution of probes/threads under the tracer: 1..3 (thorough 1..5) batches of 1..6 threads; per thread a result type of 12 classes (() .. align 4096; bool / Option<u32> / Result<u8,u8> / String for niches and heap ownership; a type whose destructor panics, used only with a handle that is dropped before the closure returns), returns or panics (1/3; at most one panic per run happens inside the arguments of an eprintln!, i.e. with the print lock held), 0..3 report records, optional sleep and heap allocation, handle fate join-now / join-after-the-others / drop-now / drop-later. The decision stream picks the scheduling mode (uniform, sticky 1/2 1/4 1/16, main-first, newest-first), the thread at every system-call stop, up to 6 single-step bursts of <=400 instructions (biased to the window after a thread's last record and after main's join/drop markers), in 1/3 of the runs up to 2 failures of mmap(stack) or clone (EAGAIN/ENOMEM), a third of those with clone failing for good once it has failed (a spawn that then keeps calling clone 200 times is a violation); in half of the runs the emulated wake of an exiting thread's clear-tid futex comes 1..4 or 1..24 quanta after the kernel's zero write is visible (two separate steps in the kernel), in a quarter the probe's allocator reuses freed blocks at once (no quarantine), in half a thread preempted inside a window is frozen for up to 6 or 16 quanta; FUTEX_WAIT timeouts run on the simulated clock; in a third of the runs up to 3 futex waits are interrupted with EINTR. every 4th case uses the debug build of the probe. non-trivial = >=2 context switches and (a futex park, a burst or a fired fault); distinct = hash of scenario x sequence of (thread, scheduling-point kind)".into()
    }
    fn assumptions(&self) -> Vec<String> {
        vec![
            "interleavings are sequentially consistent at instruction granularity (one thread runs at a time on one CPU); weak-memory executions are not generated".into(),
            "the futex wait queue is the tracer's model (value check and enqueue are one step; keys distinguish private/shared like the kernel); spurious futex returns are not injected (outside C05's quantifier, see DESIGN scope note)".into(),
            "the end-of-batch barrier is provided by the tracer (the program has no way to wait for a detached thread)".into(),
            "x86_64 only".into(),
        ]
    }
    fn components(&self) -> Value {
        components()
    }
    fn run(&self, case: u64, dec: Dec, opts: &RunOpts) -> RunOut {
        run_case(Flavor::C05, case, dec, opts)
    }
}

impl Check for C06 {
    fn id(&self) -> &'static str {
        "C06"
    }
    fn level(&self) -> &'static str {
        "exploration"
    }
    fn engine(&self) -> &'static str {
        "ptsim (engine B): ptrace scheduler over the real no-libc probe; mapping ledger from the tracer, heap ledger from the probe's counting/poisoning allocator"
    }
    fn cases(&self, tier: Tier) -> u64 {
        match tier {
            Tier::Quick => 6_000,
            Tier::Thorough => 300_000,
        }
    }
    fn workers(&self, _tier: Tier) -> usize {
        workers_env(12)
    }
    fn prepare(&self, _tier: Tier) {
        prepare_probe();
    }
    fn rule(&self) -> String {
        "each case = one execution of probes/threads under the tracer: 2..7 (thorough 2..12) batches of 1..6 threads (1 case in 60 has 12..24 batches, thorough 1 in 40 has 20..60, i.e. up to 360 threads through one process), each thread returns or panics (1/2) and its handle is joined at once, joined after the others, dropped at once or dropped later; 1 run in 5 fails up to 2 stack mmaps or clones (a failed spawn must leave nothing behind); half of the runs freeze a thread preempted inside a window for up to 6 or 16 quanta; deferred clear-tid wakes and the no-quarantine allocator mode as in C05 (a late wake or write aimed at a freed join state then meets the join state of the next thread). Scheduling as in C05 (thread choice at every system-call stop, <=6 single-step bursts of <=400 instructions in the epilogue / join / drop windows). Checked per thread: its stack mapping is unmapped exactly once, whole, by itself, as its last call before exit; per batch (after the tracer's barrier): no thread stack mapped, live heap allocations = baseline + one closure per panicked thread, no double/foreign free, poison of every quarantined freed block intact (the kernel's clear-tid write or a late write by either party would break it). every 4th case uses the debug build (allocator assertions on). non-trivial = >=2 context switches, >=1 dropped handle and >=1 single-step burst; distinct = hash of scenario x sequence of (thread, scheduling-point kind)".into()
    }
    fn assumptions(&self) -> Vec<String> {
        vec![
            "the mapping ledger is the tracer's view of mmap/munmap/mremap results, cross-checked against /proc/<pid>/maps at every batch end (a disagreement is a harness error)".into(),
            "a freed block stays in a 48-entry quarantine; a write that lands after the block left the quarantine is not seen".into(),
            "interleavings are sequentially consistent at instruction granularity; x86_64 only".into(),
        ]
    }
    fn components(&self) -> Value {
        components()
    }
    fn run(&self, case: u64, dec: Dec, opts: &RunOpts) -> RunOut {
        run_case(Flavor::C06, case, dec, opts)
    }
}
