//! vcheck — one sub-command per claimed property.
mod c01;
mod c02;
mod c03;
mod c04b;
mod c05;
mod c09;
mod c12;
mod c13;
mod c14;
mod c15;
mod c16;
mod c17;
mod c18;
mod c19;

use simk::runner::{harness_error, main_for, Check};

fn main() {
    let argv: Vec<String> = std::env::args().skip(1).collect();
    let Some(id) = argv.first() else {
        harness_error("usage: vcheck <property id> [--tier quick|thorough] [--replay file] [--selftest-determinism]");
    };
    let check: &dyn Check = match id.as_str() {
        "C01" => &c01::C01,
        "C02" => &c02::C02,
        "C03" => &c03::C03,
        "C04" => &c03::C04,
        "C05" => &c05::C05,
        "C06" => &c05::C06,
        "C09" => &c09::C09,
        "C12" => &c12::C12,
        "C13" => &c13::C13,
        "C14" => &c14::C14,
        "C15" => &c15::C15,
        "C16" => &c16::C16,
        "C17" => &c17::C17,
        "C18" => &c18::C18,
        "C19" => &c19::C19,
        o => harness_error(&format!("no check for property {o}")),
    };
    main_for(check, &argv[1..]);
}
