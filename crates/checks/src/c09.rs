//! C09 — every rusl wrapper decodes the return register exactly and enters the kernel once.
//! Forced-return kernel: no real call is made; the return register is scripted and the
//! out-parameters a wrapper inspects are filled from a fixture.  Exhaustive over its space.

use rusl::platform::*;
use rusl::string::unix_str::UnixStr;
use serde_json::{json, Value};
use simk::dec::{mix, Dec};
use simk::runner::{Check, RunOpts, RunOut, Tier};
use simk::sched::{Kernel, Sim, SimCfg, Violation};
use std::cell::{Cell, RefCell};
use std::collections::BTreeSet;
use std::num::NonZeroUsize;

pub struct C09;

#[derive(Clone, Copy, PartialEq, Debug)]
enum Class {
    Unit,
    Count,
    Fd,
    Pid,
    Addr,
    Off,
    U64,
    Uid,
}

#[derive(Debug, Clone, Copy, PartialEq)]
enum Dec0 {
    Ok(Option<u64>),
    Err(Option<i32>),
}

struct W {
    name: &'static str,
    class: Class,
    sys: &'static str,
    call: fn() -> Dec0,
}

thread_local! {
    static SCRIPT: RefCell<Vec<usize>> = const { RefCell::new(Vec::new()) };
    static POS: Cell<usize> = const { Cell::new(0) };
    static CALLS: Cell<usize> = const { Cell::new(0) };
    static LIMIT: Cell<usize> = const { Cell::new(0) };
    static SEEN_NR: RefCell<BTreeSet<usize>> = const { RefCell::new(BTreeSet::new()) };
}

struct Forced;

impl Kernel for Forced {
    fn syscall(&self, nr: usize, a: [usize; 6]) -> usize {
        SEEN_NR.with(|s| {
            s.borrow_mut().insert(nr);
        });
        let c = CALLS.with(|c| {
            c.set(c.get() + 1);
            c.get()
        });
        if c > LIMIT.with(Cell::get) {
            panic!("reissue-limit");
        }
        let v = SCRIPT.with(|s| {
            let s = s.borrow();
            let p = POS.with(Cell::get);
            let v = s[p.min(s.len() - 1)];
            POS.with(|x| x.set(p + 1));
            v
        });
        // fixtures: a forced success must be a well-formed success
        if !simk::kern::is_err(v) {
            unsafe {
                match nr {
                    sc::nr::PIPE2 => {
                        let p = a[0] as *mut i32;
                        *p = 5;
                        *p.add(1) = 6;
                    }
                    sc::nr::NEWFSTATAT => std::ptr::write_bytes(a[2] as *mut u8, 0, std::mem::size_of::<Stat>()),
                    sc::nr::UNAME => std::ptr::write_bytes(a[0] as *mut u8, 0, std::mem::size_of::<UtsName>()),
                    sc::nr::CLOCK_GETTIME => std::ptr::write_bytes(a[1] as *mut u8, 0, 16),
                    sc::nr::IOCTL if a[1] == 0x5401 => std::ptr::write_bytes(a[2] as *mut u8, 0, std::mem::size_of::<Termios>()),
                    _ => {}
                }
            }
        }
        v
    }
}

fn fd(n: i32) -> Fd {
    Fd::try_new(n).unwrap()
}
const P: &UnixStr = UnixStr::from_str_checked("/nonexistent/verif\0");
const Q: &UnixStr = UnixStr::from_str_checked("/nonexistent/verif2\0");

fn unit(r: rusl::Result<()>) -> Dec0 {
    match r {
        Ok(()) => Dec0::Ok(None),
        Err(e) => Dec0::Err(e.code.map(|c| c.raw())),
    }
}
fn val<T: Into<i128>>(r: rusl::Result<T>) -> Dec0 {
    match r {
        Ok(v) => Dec0::Ok(Some(v.into() as u64)),
        Err(e) => Dec0::Err(e.code.map(|c| c.raw())),
    }
}
fn count(r: rusl::Result<usize>) -> Dec0 {
    match r {
        Ok(v) => Dec0::Ok(Some(v as u64)),
        Err(e) => Dec0::Err(e.code.map(|c| c.raw())),
    }
}
fn fdr(r: rusl::Result<Fd>) -> Dec0 {
    match r {
        Ok(v) => Dec0::Ok(Some(v.value() as u64)),
        Err(e) => Dec0::Err(e.code.map(|c| c.raw())),
    }
}
fn anyv<T>(r: rusl::Result<T>) -> Dec0 {
    match r {
        Ok(_) => Dec0::Ok(None),
        Err(e) => Dec0::Err(e.code.map(|c| c.raw())),
    }
}

fn table() -> Vec<W> {
    use rusl::network as n;
    use rusl::process as p;
    use rusl::select as s;
    use rusl::unistd as u;
    macro_rules! w {
        ($name:expr, $class:ident, $sys:expr, $body:expr) => {
            W { name: $name, class: Class::$class, sys: $sys, call: || $body }
        };
    }
    vec![
        w!("futex_wait", Unit, "FUTEX", {
            let a = core::sync::atomic::AtomicU32::new(0);
            unit(rusl::futex::futex_wait(&a, 0, FutexFlags::PRIVATE, None))
        }),
        w!("futex_wake", Count, "FUTEX", {
            let a = core::sync::atomic::AtomicU32::new(0);
            count(rusl::futex::futex_wake(&a, 1))
        }),
        w!("ioctl", Count, "IOCTL", count(unsafe { rusl::ioctl::ioctl(fd(3), 0x1234, 0) })),
        w!("accept_unix", Fd, "ACCEPT4", match n::accept_unix(fd(3), SocketFlags::empty()) {
            Ok((f, _)) => Dec0::Ok(Some(f.value() as u64)),
            Err(e) => Dec0::Err(e.code.map(|c| c.raw())),
        }),
        w!("accept_inet", Fd, "ACCEPT4", match n::accept_inet(fd(3), SocketFlags::empty()) {
            Ok((f, _)) => Dec0::Ok(Some(f.value() as u64)),
            Err(e) => Dec0::Err(e.code.map(|c| c.raw())),
        }),
        w!("bind_unix", Unit, "BIND", unit(n::bind_unix(fd(3), &SocketAddressUnix::try_from_unix(P).unwrap()))),
        w!("bind_inet", Unit, "BIND", unit(n::bind_inet(fd(3), &SocketAddressInet::new([127, 0, 0, 1], 1)))),
        w!("connect_unix", Unit, "CONNECT", unit(n::connect_unix(fd(3), &SocketAddressUnix::try_from_unix(P).unwrap()))),
        w!("connect_inet", Unit, "CONNECT", unit(n::connect_inet(fd(3), &SocketAddressInet::new([127, 0, 0, 1], 1)))),
        w!("listen", Unit, "LISTEN", unit(n::listen(fd(3), NonNegativeI32::try_new(1).unwrap()))),
        w!("socket", Fd, "SOCKET", fdr(n::socket(AddressFamily::AF_UNIX, SocketOptions::new(SocketType::SOCK_STREAM, SocketFlags::empty()), 0))),
        w!("get_unix_sock_name", Unit, "GETSOCKNAME", anyv(n::get_unix_sock_name(fd(3)))),
        w!("get_inet_sock_name", Unit, "GETSOCKNAME", anyv(n::get_inet_sock_name(fd(3)))),
        w!("sendmsg", Count, "SENDMSG", {
            let b = [1u8, 2, 3];
            let io = [IoSlice::new(&b)];
            let g = MsgHdrBorrow::create_send(None, &io, None);
            count(n::sendmsg(fd(3), &g, 0))
        }),
        w!("recvmsg", Count, "RECVMSG", {
            let mut b = [0u8; 8];
            let mut io = [IoSliceMut::new(&mut b)];
            let mut h = MsgHdrBorrow::create_recv(&mut io, None);
            count(n::recvmsg(fd(3), &mut h, 0))
        }),
        // no error channel: only "the kernel's value unchanged, one kernel entry per invocation"
        w!("get_pid", Pid, "GETPID", Dec0::Ok(Some(p::get_pid() as u32 as u64))),
        w!("fork", Pid, "FORK", val(unsafe { p::fork() })),
        w!("clone", Pid, "CLONE", val(unsafe { p::clone(&CloneArgs::new(CloneFlags::empty())) })),
        w!("clone3", U64, "CLONE3", match unsafe { p::clone3(&mut Clone3Args::new(CloneFlags::empty())) } {
            Ok(v) => Dec0::Ok(Some(v)),
            Err(e) => Dec0::Err(e.code.map(|c| c.raw())),
        }),
        w!("execve", Unit, "EXECVE", {
            let argv = [P.as_ptr(), core::ptr::null()];
            let envp = [core::ptr::null::<u8>()];
            unit(unsafe { p::execve(P, argv.as_ptr(), envp.as_ptr()) })
        }),
        w!("add_signal_action", Unit, "RT_SIGACTION", unit(unsafe { p::add_signal_action(p::CatchSignal::Hup, p::SaSignalaction::Dfl) })),
        w!("wait_pid", Pid, "WAIT4", match p::wait_pid(-1, WaitPidFlags::empty()) {
            Ok(r) => Dec0::Ok(Some(r.pid as u32 as u64)),
            Err(e) => Dec0::Err(e.code.map(|c| c.raw())),
        }),
        w!("epoll_create", Fd, "EPOLL_CREATE1", fdr(s::epoll_create(true))),
        w!("epoll_ctl", Unit, "EPOLL_CTL", unit(s::epoll_ctl(fd(3), EpollOp::Add, fd(4), &EpollEvent::new(1, EpollEventMask::EPOLLIN)))),
        w!("epoll_del", Unit, "EPOLL_CTL", unit(s::epoll_del(fd(3), fd(4)))),
        w!("epoll_wait", Count, "EPOLL_PWAIT", {
            let mut ev = [EpollEvent::new(0, EpollEventMask::EPOLLIN); 2];
            count(s::epoll_wait(fd(3), &mut ev, 0))
        }),
        w!("ppoll", Count, "PPOLL", {
            let mut pf = [PollFd::new(fd(3), PollEvents::POLLIN)];
            count(s::ppoll(&mut pf, None, None))
        }),
        w!("tcgetattr", Unit, "IOCTL", anyv(rusl::termios::tcgetattr(fd(3)))),
        w!("tcsetattr", Unit, "IOCTL", {
            let t: Termios = unsafe { core::mem::zeroed() };
            unit(rusl::termios::tcsetattr(fd(3), SetAction::NOW, &t))
        }),
        w!("clock_get_time", Unit, "CLOCK_GETTIME", anyv(rusl::time::clock_get_time(ClockId::CLOCK_MONOTONIC))),
        w!("nanosleep", Unit, "NANOSLEEP", unit(rusl::time::nanosleep(&TimeSpec::new(0, 1), None))),
        w!("nanosleep_same_ptr", Unit, "NANOSLEEP", {
            let mut t = TimeSpec::new(0, 1);
            unit(rusl::time::nanosleep_same_ptr(&mut t))
        }),
        w!("chdir", Unit, "CHDIR", unit(u::chdir(P))),
        w!("close", Unit, "CLOSE", unit(u::close(fd(3)))),
        w!("copy_file_range", Count, "COPY_FILE_RANGE", count(u::copy_file_range(fd(3), 0, fd(4), 0, 10))),
        w!("dup2", Fd, "DUP3", unit(u::dup2(fd(3), fd(4)))),
        w!("dup3", Fd, "DUP3", unit(u::dup3(fd(3), fd(4), true))),
        // degenerate but legal arguments: the kernel still has to be asked, exactly once
        w!("dup2(same fd)", Fd, "DUP3", unit(u::dup2(fd(3), fd(3)))),
        w!("read(empty buffer)", Count, "READ", {
            let mut b = [0u8; 0];
            count(u::read(fd(3), &mut b))
        }),
        w!("write(empty buffer)", Count, "WRITE", count(u::write(fd(3), b""))),
        w!("get_dents(empty buffer)", Count, "GETDENTS64", {
            let mut b = [0u8; 0];
            count(u::get_dents(fd(3), &mut b))
        }),
        w!("copy_file_range(len 0)", Count, "COPY_FILE_RANGE", count(u::copy_file_range(fd(3), 0, fd(3), 0, 0))),
        w!("ppoll(no fds)", Count, "PPOLL", {
            let mut pf: [PollFd; 0] = [];
            count(s::ppoll(&mut pf, Some(&TimeSpec::new(0, 0)), None))
        }),
        w!("epoll_wait(no room)", Count, "EPOLL_PWAIT", {
            let mut ev: [EpollEvent; 0] = [];
            count(s::epoll_wait(fd(3), &mut ev, 0))
        }),
        w!("futex_wake(0 waiters)", Count, "FUTEX", {
            let a = core::sync::atomic::AtomicU32::new(0);
            count(rusl::futex::futex_wake(&a, 0))
        }),
        w!("setpgid(self)", Unit, "SETPGID", unit(u::setpgid(0, 0))),
        w!("rename(same path)", Unit, "RENAMEAT2", unit(u::rename(P, P))),
        w!("fcntl_get_file_status", Fd, "FCNTL", match u::fcntl_get_file_status(fd(3)) {
            Ok(f) => Dec0::Ok(Some(f.bits().value() as u64)),
            Err(e) => Dec0::Err(e.code.map(|c| c.raw())),
        }),
        w!("fcntl_set_file_status", Unit, "FCNTL", unit(u::fcntl_set_file_status(fd(3), OpenFlags::O_NONBLOCK))),
        w!("fcntl_dup_fd_cloexec", Fd, "FCNTL", fdr(u::fcntl_dup_fd_cloexec(fd(3), fd(3)))),
        w!("get_dents", Count, "GETDENTS64", {
            let mut b = [0u8; 64];
            count(u::get_dents(fd(3), &mut b))
        }),
        w!("get_uid", Uid, "GETUID", val(u::get_uid())),
        w!("mkdir", Unit, "MKDIRAT", unit(u::mkdir(P, Mode::empty()))),
        w!("mkdir_at", Unit, "MKDIRAT", unit(u::mkdir_at(fd(3), P, Mode::empty()))),
        w!("mmap", Addr, "MMAP", count(unsafe {
            u::mmap(None, NonZeroUsize::new(4096).unwrap(), MemoryProtection::PROT_READ, MapRequiredFlag::MapPrivate, MapAdditionalFlags::MAP_ANONYMOUS, None, 0)
        })),
        w!("munmap", Unit, "MUNMAP", unit(unsafe { u::munmap(0x1000, NonZeroUsize::new(4096).unwrap()) })),
        w!("mount", Unit, "MOUNT", unit(u::mount(P, Q, FilesystemType::TMPFS, Mountflags::empty(), None))),
        w!("mount_data", Unit, "MOUNT", unit(u::mount(P, Q, FilesystemType::TMPFS, Mountflags::empty(), Some(P)))),
        w!("unmount", Unit, "UMOUNT2", unit(u::unmount(P))),
        w!("open_raw", Fd, "OPENAT", fdr(unsafe { u::open_raw(P.as_ptr() as usize, OpenFlags::O_RDONLY) })),
        w!("open", Fd, "OPENAT", fdr(u::open(P, OpenFlags::O_RDONLY))),
        w!("open_mode", Fd, "OPENAT", fdr(u::open_mode(P, OpenFlags::O_RDONLY, Mode::empty()))),
        w!("open_at", Fd, "OPENAT", fdr(u::open_at(fd(3), P, OpenFlags::O_RDONLY))),
        w!("open_at_mode", Fd, "OPENAT", fdr(u::open_at_mode(fd(3), P, OpenFlags::O_RDONLY, Mode::empty()))),
        w!("pipe", Unit, "PIPE2", anyv(u::pipe())),
        w!("pipe2", Unit, "PIPE2", anyv(u::pipe2(OpenFlags::O_CLOEXEC))),
        w!("read", Count, "READ", {
            let mut b = [0u8; 8];
            count(u::read(fd(3), &mut b))
        }),
        w!("readv", Count, "READV", {
            let mut b = [0u8; 8];
            let mut io = [IoSliceMut::new(&mut b)];
            count(u::readv(fd(3), &mut io))
        }),
        w!("rename", Unit, "RENAMEAT2", unit(u::rename(P, Q))),
        w!("rename_flags", Unit, "RENAMEAT2", unit(u::rename_flags(P, Q, RenameFlags::empty()))),
        w!("rename_at", Unit, "RENAMEAT2", unit(u::rename_at(fd(3), P, fd(4), Q))),
        w!("rename_at2", Unit, "RENAMEAT2", unit(u::rename_at2(fd(3), P, fd(4), Q, RenameFlags::empty()))),
        w!("lseek", Off, "LSEEK", match u::lseek(fd(3), 0, u::Whence::SET) {
            Ok(v) => Dec0::Ok(Some(v as u64)),
            Err(e) => Dec0::Err(e.code.map(|c| c.raw())),
        }),
        w!("setgid", Unit, "SETGID", unit(u::setgid(1))),
        w!("setpgid", Unit, "SETPGID", unit(u::setpgid(0, 0))),
        w!("setsid", Unit, "SETSID", unit(u::setsid())),
        w!("setuid", Unit, "SETUID", unit(u::setuid(1))),
        w!("stat", Unit, "NEWFSTATAT", anyv(u::stat(P))),
        w!("statat", Unit, "NEWFSTATAT", anyv(u::statat(fd(3), P))),
        w!("stat_fd", Unit, "NEWFSTATAT", anyv(u::stat_fd(fd(3)))),
        w!("swapon", Unit, "SWAPON", unit(u::swapon(P, 0))),
        w!("uname", Unit, "UNAME", anyv(u::uname())),
        w!("unlink", Unit, "UNLINKAT", unit(u::unlink(P))),
        w!("unlink_flags", Unit, "UNLINKAT", unit(u::unlink_flags(P, u::UnlinkFlags::at_removedir()))),
        w!("unlink_at", Unit, "UNLINKAT", unit(u::unlink_at(fd(3), P, u::UnlinkFlags::empty()))),
        w!("rmdir", Unit, "UNLINKAT", unit(u::rmdir(fd(3)))),
        w!("unshare", Unit, "UNSHARE", unit(u::unshare(CloneFlags::empty()))),
        w!("write", Count, "WRITE", count(u::write(fd(3), b"abc"))),
        w!("writev", Count, "WRITEV", {
            let b = [1u8, 2];
            let io = [IoSlice::new(&b)];
            count(u::writev(fd(3), &io))
        }),
        w!("io_uring_setup", Fd, "IO_URING_SETUP", fdr(rusl::io_uring::io_uring_setup(4, &mut IoUringParams::new(IoUringParamFlags::empty(), 0, 0)))),
        w!("io_uring_register_files", Unit, "IO_URING_REGISTER", unit(rusl::io_uring::io_uring_register_files(fd(3), &[fd(4)]))),
        w!("io_uring_register_io_slices", Unit, "IO_URING_REGISTER", {
            let mut b = [0u8; 8];
            let io = [IoSliceMut::new(&mut b)];
            unit(rusl::io_uring::io_uring_register_io_slices(fd(3), &io))
        }),
        w!("io_uring_register_buffers", Unit, "IO_URING_REGISTER", {
            let mut b = [0u8; 8];
            let io = [IoSliceMut::new(&mut b)];
            unit(unsafe { rusl::io_uring::io_uring_register_buffers(fd(3), &io) })
        }),
        w!("io_uring_enter", Count, "IO_URING_ENTER", count(rusl::io_uring::io_uring_enter(fd(3), 1, 0, IoUringEnterFlags::empty()))),
    ]
}

fn success_values(class: Class) -> Vec<usize> {
    let mut v: Vec<usize> = (0..=200).collect();
    v.extend([255, 256, 1023, 1024, 4094, 4095, 4096, 4097, 65535, 65536, i32::MAX as usize]);
    match class {
        Class::Fd | Class::Pid => {}
        Class::Uid => v.extend([u32::MAX as usize - 1, u32::MAX as usize]),
        Class::Unit | Class::Count | Class::Addr | Class::Off | Class::U64 => {
            v.extend([
                1usize << 31,
                u32::MAX as usize,
                1usize << 32,
                (1usize << 32) + 16,
                0x7fff_dead_b000,
                i64::MAX as usize,
                1usize << 63,
                usize::MAX - 0xffff,
                (-4097isize) as usize,
                (-4096isize) as usize,
            ]);
        }
    }
    v
}

enum Verdict {
    Good,
    Bad(&'static str, String),
}

fn run_forced(w: &W, script: Vec<usize>, limit: usize) -> (Result<Dec0, String>, usize) {
    SCRIPT.with(|s| *s.borrow_mut() = script);
    POS.with(|p| p.set(0));
    CALLS.with(|c| c.set(0));
    LIMIT.with(|l| l.set(limit));
    let r = std::panic::catch_unwind(w.call);
    let calls = CALLS.with(Cell::get);
    match r {
        Ok(d) => (Ok(d), calls),
        Err(_) => {
            let (msg, _) = simk::sched::take_last_panic().unwrap_or_default();
            (Err(msg), calls)
        }
    }
}

fn judge_single(w: &W, v: usize) -> Verdict {
    let (r, calls) = run_forced(w, vec![v], 9);
    let is_err = v >= (-4095isize) as usize;
    match r {
        Err(msg) if msg == "reissue-limit" => Verdict::Bad("reissue", format!("kernel re-entered more than 8 times for return value {}", v as isize)),
        Err(msg) => Verdict::Bad("panic", format!("panicked for return value {}: {msg}", v as isize)),
        Ok(d) => {
            if calls != 1 {
                return Verdict::Bad("call-count", format!("kernel entered {calls} times for return value {}", v as isize));
            }
            if is_err {
                let want = -(v as isize) as i32;
                match d {
                    Dec0::Err(Some(c)) if c == want => Verdict::Good,
                    Dec0::Err(c) => Verdict::Bad("wrong-errno", format!("kernel returned -{want}, wrapper reported code {c:?}")),
                    Dec0::Ok(_) => Verdict::Bad("error-as-success", format!("kernel returned -{want}, wrapper returned Ok")),
                }
            } else {
                match d {
                    Dec0::Err(c) => Verdict::Bad("success-as-error", format!("kernel returned {} ({v:#x}), wrapper returned Err({c:?})", v as isize)),
                    Dec0::Ok(None) => Verdict::Good,
                    Dec0::Ok(Some(got)) => {
                        let want = match w.class {
                            Class::Pid | Class::Uid => v as u32 as u64,
                            _ => v as u64,
                        };
                        if got == want {
                            Verdict::Good
                        } else {
                            Verdict::Bad("value-changed", format!("kernel returned {v:#x}, wrapper returned {got:#x}"))
                        }
                    }
                }
            }
        }
    }
}

fn fmt_vals(vals: &[isize]) -> String {
    if vals.len() <= 4 {
        vals.iter().map(ToString::to_string).collect::<Vec<_>>().join(",")
    } else {
        format!("{}-values[{}..{}]", vals.len(), vals.iter().min().unwrap(), vals.iter().max().unwrap())
    }
}

/// number of sub-cases per wrapper: 0 = errno sweep, 1 = success values, 2 = EBUSY-prefix scripts (dup only)
const PARTS: u64 = 3;

impl Check for C09 {
    fn id(&self) -> &'static str {
        "C09"
    }
    fn level(&self) -> &'static str {
        "fault_enumeration"
    }
    fn engine(&self) -> &'static str {
        "simk forced-return kernel (no real system call is made)"
    }
    fn cases(&self, _tier: Tier) -> u64 {
        table().len() as u64 * PARTS
    }
    fn exhaustive(&self, _tier: Tier) -> bool {
        true
    }
    fn workers(&self, _tier: Tier) -> usize {
        8
    }
    fn rule(&self) -> String {
        "complete enumeration: for each exported rusl wrapper (table in c09.rs; result class unit/count/fd/pid/address/offset/u64/uid) x (a) every errno 1..=4095 forced as -errno, (b) every success value of its class: 0..=200 (every errno-sized integer incl. 16), 255, 256, 1023, 1024, 4094..4097, 65535, 65536, i32::MAX and for count/address/offset/unit classes 2^31, 2^32-1, 2^32, 2^32+16, a user-space address, i64::MAX, 2^63, -65536, -4097, -4096 as unsigned, (c) for dup2/dup3 scripts of j=1..6 x -EBUSY followed by every final value of (a) sampled and (b). One evaluation = one (wrapper, forced return script); all are distinct and each decodes a different register value, so distinct_nontrivial = evaluations".into()
    }
    fn assumptions(&self) -> Vec<String> {
        vec![
            "excluded: exit (never returns), success values of execve (success does not return), the errno sweep of get_pid and all of clock_get_real_time/clock_get_monotonic_time (infallible signatures: no error to decode), composites (setup_io_uring: C12/C18)".into(),
            "fd/pid classes are forced only up to i32::MAX (kernel contract)".into(),
            "out-parameters of a forced success come from fixtures (pipe2 fds, zeroed stat/utsname/timespec/termios)".into(),
        ]
    }
    fn components(&self) -> Value {
        json!({"real": ["every rusl wrapper function incl. bail_on_below_zero!, Fd::coerce_from_register, is_syscall_error"], "stub": ["the kernel: return register scripted, never entered"]})
    }
    fn extra(&self, _tier: Tier) -> Value {
        // inventory of syscall! sites in rusl/src (non-test code) vs. the table
        let mut names: BTreeSet<String> = BTreeSet::new();
        fn walk(dir: &std::path::Path, out: &mut BTreeSet<String>) {
            let Ok(rd) = std::fs::read_dir(dir) else { return };
            for e in rd.flatten() {
                let p = e.path();
                if p.is_dir() {
                    walk(&p, out);
                } else if p.extension().is_some_and(|x| x == "rs") && !p.ends_with("test.rs") {
                    let Ok(s) = std::fs::read_to_string(&p) else { continue };
                    let s = s.split("#[cfg(test)]").next().unwrap_or("").to_string();
                    let mut rest = s.as_str();
                    while let Some(i) = rest.find("syscall!(") {
                        let tail = &rest[i + 9..];
                        let name: String = tail.trim_start().chars().take_while(|c| c.is_ascii_uppercase() || c.is_ascii_digit() || *c == '_').collect();
                        if !name.is_empty() {
                            out.insert(name);
                        }
                        rest = tail;
                    }
                }
            }
        }
        walk(std::path::Path::new("/repo/rusl/src"), &mut names);
        let covered: BTreeSet<String> = table().iter().map(|w| w.sys.to_string()).collect();
        let uncovered: Vec<&String> = names.iter().filter(|n| !covered.contains(*n)).collect();
        json!({"syscall_names_in_rusl_source": names.len(), "syscall_names_reached_by_table": covered.len(), "syscall_names_not_reached": uncovered, "wrappers_in_table": table().len()})
    }

    fn run(&self, case: u64, dec: Dec, opts: &RunOpts) -> RunOut {
        let tab = table();
        let w = &tab[(case / PARTS) as usize];
        let part = case % PARTS;
        let mut sim = Sim::new(dec, SimCfg { record: opts.record, ..SimCfg::default() });
        let k = Forced;
        sim.set_kernel(&k);
        // no simulated threads: install the simulator as current without running coroutines
        let mut out = RunOut::default();
        let mut bad: std::collections::BTreeMap<&'static str, (Vec<isize>, String)> = std::collections::BTreeMap::new();
        let mut evals = 0u64;
        let mut shapes = Vec::new();
        simk::sched::with_installed(&mut sim, || {
            let mut note = |kind: &'static str, v: isize, d: String| {
                let e = bad.entry(kind).or_insert_with(|| (Vec::new(), d));
                e.0.push(v);
            };
            match part {
                0 => {
                    if w.name == "get_pid" {
                        // its signature cannot carry an error: nothing to decode
                        return;
                    }
                    for e in 1..=4095usize {
                        let v = (-(e as isize)) as usize;
                        if w.sys == "DUP3" && e == 16 {
                            // a constant -EBUSY may legitimately be retried for ever; part 2 scripts it
                            continue;
                        }
                        evals += 1;
                        shapes.push(mix(&[case, v as u64]));
                        if let Verdict::Bad(kind, d) = judge_single(w, v) {
                            note(kind, v as isize, d);
                        }
                    }
                }
                1 => {
                    if w.name == "execve" {
                        return;
                    }
                    for v in success_values(w.class) {
                        evals += 1;
                        shapes.push(mix(&[case, v as u64]));
                        if let Verdict::Bad(kind, d) = judge_single(w, v) {
                            note(kind, v as isize, d);
                        }
                    }
                }
                _ => {
                    if w.sys != "DUP3" {
                        return;
                    }
                    let mut finals: Vec<usize> = success_values(Class::Fd);
                    finals.extend((1..=133usize).map(|e| (-(e as isize)) as usize));
                    for j in 1..=6usize {
                        for &f in &finals {
                            if f == (-16isize) as usize {
                                continue;
                            }
                            let mut script = vec![(-16isize) as usize; j];
                            script.push(f);
                            evals += 1;
                            shapes.push(mix(&[case, j as u64, f as u64]));
                            let (r, calls) = run_forced(w, script, j + 1 + 8);
                            let is_err = f >= (-4095isize) as usize;
                            // retrying the documented EBUSY race is allowed, not required: a wrapper
                            // that reports the first -EBUSY after one entry also decodes correctly
                            let good = match &r {
                                Ok(Dec0::Ok(_)) => !is_err && calls == j + 1,
                                Ok(Dec0::Err(Some(16))) if calls == 1 => true,
                                Ok(Dec0::Err(Some(c))) => is_err && calls == j + 1 && *c == -(f as isize) as i32,
                                _ => false,
                            };
                            if !good {
                                note("ebusy-script", f as isize, format!("{j} x -EBUSY then {}: result {r:?} after {calls} kernel entries (expected {})", f as isize, j + 1));
                            }
                        }
                    }
                }
            }
        });
        out.evals = evals;
        out.sub_shapes = shapes;
        out.hash = mix(&[case, evals, bad.len() as u64]);
        out.shape = out.hash;
        out.nontrivial = false;
        out.counters.insert("fault.forced_errno_returns", if part == 0 { evals } else { 0 });
        out.counters.insert("fault.forced_success_values", if part == 1 { evals } else { 0 });
        out.counters.insert("fault.forced_ebusy_scripts", if part == 2 { evals } else { 0 });
        let part_name = ["errno-sweep", "success-values", "ebusy-scripts"][part as usize];
        if opts.record {
            out.sample = Some(json!({"wrapper": w.name, "syscall": w.sys, "class": format!("{:?}", w.class), "part": part_name, "evaluations": evals, "example": "return register forced to -13 => expect Err(code=13), one kernel entry"}));
            out.events.push(format!("{} [{}]: {} forced returns, {} failing kinds", w.name, part_name, evals, bad.len()));
        }
        if let Some((kind, (vals, d))) = bad.into_iter().next() {
            out.violation = Some(Violation {
                sig: format!("{}|{part_name}|{kind}|{}", w.name, fmt_vals(&vals)),
                detail: format!("{}: {d} ({} value(s) fail this way)", w.name, vals.len()),
            });
        }
        out.decisions = std::mem::take(&mut sim.dec.log);
        out
    }
}
