//! C04, engine-B cases — footprint of tiny-std's own global allocator wrapper.
//!
//! `GlobalDlMalloc` (tiny-std/src/allocator/dlmalloc.rs, features `global-allocator` +
//! `threaded`) is private: it only exists as the `#[global_allocator]` of a no-libc binary.
//! `probes/allocprobe` is such a binary; it repeats a generated allocate-batch / free-batch round
//! on 2..4 real threads (or on main alone) and the ptrace simulator `crates/ptsim` schedules it:
//! one runnable thread at a time, futex emulated, thread choice at every system call and right
//! after every atomic instruction (breakpoints on the lock-prefixed / xchg instructions of the
//! probe's text), single-step bursts.  The tracer's mapping ledger (cross-checked against
//! /proc/<pid>/maps) gives the exact number of bytes the process has mapped at each ROUND_END,
//! when no worker thread is alive; the growth oracle is the one of the engine-A cases.

use ptsim::proto::*;
use ptsim::{Cfg, End};
use serde_json::json;
use simk::dec::{hash_str, mix, Dec, K};
use simk::runner::{harness_error, verif_root, RunOpts, RunOut};
use simk::sched::Violation;
use std::collections::HashMap;
use std::path::{Path, PathBuf};
use std::sync::Mutex;

struct Scn {
    rounds: usize,
    threads: usize,
    inner: usize,
    /// per thread (one entry when threads == 0): sizes and free order
    plans: Vec<(Vec<usize>, Vec<usize>)>,
}

impl Scn {
    fn args(&self) -> Vec<String> {
        let b = self.plans[0].0.len();
        let mut a: Vec<String> = vec![MODE_TRACED.to_string(), self.rounds.to_string(), self.threads.to_string(), self.inner.to_string(), b.to_string()];
        for (sizes, order) in &self.plans {
            a.extend(sizes.iter().map(ToString::to_string));
            a.extend(order.iter().map(ToString::to_string));
        }
        a
    }
    /// bytes requested at the instant every thread holds its whole batch
    fn peak_live(&self) -> usize {
        self.plans.iter().map(|p| p.0.iter().sum::<usize>()).sum()
    }
}

fn gen_size(dec: &mut Dec, profile: u32) -> usize {
    let class = match profile {
        // mixed: small / medium / large
        0 => dec.choose(K::Arg, 20),
        // medium and large
        1 => 7 + dec.choose(K::Arg, 13),
        // large only
        _ => 12,
    };
    match class {
        0..=6 => 8 + dec.choose(K::Arg, 505) as usize,
        7..=11 => 1024 + dec.choose(K::Arg, 48 * 1024) as usize,
        _ => 65536 + dec.choose(K::Arg, if profile == 2 { 960 * 1024 } else { 448 * 1024 }) as usize,
    }
}

fn gen_scn(dec: &mut Dec) -> Scn {
    // 1 case in 6 is single-threaded: main does the churn itself
    let mut threads = if dec.chance(K::Cfg, 1, 6) { 0 } else { 2 + dec.choose(K::Cfg, 3) as usize };
    let mut profile = dec.choose(K::Cfg, 3);
    let mut b = if profile == 2 { 2 + dec.choose(K::Cfg, 3) as usize } else { 2 + dec.choose(K::Cfg, 7) as usize };
    let mut inner = if b > 4 { 1 + dec.choose(K::Cfg, 2) as usize } else { 1 + dec.choose(K::Cfg, 4) as usize };
    // 64..200 rounds, fewer when a round is big: an ordinary run should stay below a second (every
    // allocator call costs two atomic-instruction stops; spawning a thread costs about ten calls)
    let mut budget = 1500;
    // 1 multi-threaded case in 6 is a long one (4-6 s): 3..4 threads, large blocks only, several
    // iterations per thread -- enough contended frees for a slow leak to clear the 8 MiB floor
    if threads >= 2 && dec.chance(K::Cfg, 1, 6) {
        threads = 3 + dec.choose(K::Cfg, 2) as usize;
        profile = 2;
        b = 3;
        inner = 4 + dec.choose(K::Cfg, 2) as usize;
        budget = 6500;
    }
    let work = threads.max(1) * (inner * b + 10);
    let max_rounds = (budget / work).clamp(64, 200);
    let rounds = 64 + dec.choose(K::Cfg, (max_rounds - 64 + 1) as u32) as usize;
    let mut plans = Vec::new();
    for _ in 0..threads.max(1) {
        let sizes: Vec<usize> = (0..b).map(|_| gen_size(dec, profile)).collect();
        let mut order: Vec<usize> = (0..b).collect();
        match dec.choose(K::Arg, 3) {
            0 => {}
            1 => order.reverse(),
            _ => {
                for i in (1..b).rev() {
                    let j = dec.choose(K::Arg, i as u32 + 1) as usize;
                    order.swap(i, j);
                }
            }
        }
        plans.push((sizes, order));
    }
    Scn { rounds, threads, inner, plans }
}

fn probe_path(profile: &str) -> PathBuf {
    let dir = std::env::var("PTSIM_PROBE_DIR").map_or_else(|_| verif_root().join("target").join("probes"), PathBuf::from);
    dir.join(profile).join("allocprobe")
}

/// Addresses of the atomic instructions (lock prefix, xchg with a memory operand) in the probe's
/// text, from `objdump -d`; computed once per process and binary.
fn atomic_sites(probe: &Path) -> (Vec<u64>, Vec<u64>) {
    static CACHE: Mutex<Option<HashMap<PathBuf, (Vec<u64>, Vec<u64>)>>> = Mutex::new(None);
    let mut g = CACHE.lock().unwrap();
    let map = g.get_or_insert_with(HashMap::new);
    if let Some(v) = map.get(probe) {
        return v.clone();
    }
    let out = std::process::Command::new("objdump").arg("-d").arg("--no-show-raw-insn").arg(probe).output();
    let Ok(out) = out else { harness_error("C04 engine B: cannot run objdump (needed to locate the probe's atomic instructions)") };
    if !out.status.success() {
        harness_error("C04 engine B: objdump failed on the probe");
    }
    let mut v = Vec::new();
    let mut cas = Vec::new();
    for l in String::from_utf8_lossy(&out.stdout).lines() {
        let Some((addr, ins)) = l.split_once(":\t") else { continue };
        let ins = ins.trim_start();
        let atomic = ins.starts_with("lock ") || (ins.starts_with("xchg") && ins.contains('('));
        if atomic {
            if let Ok(a) = u64::from_str_radix(addr.trim(), 16) {
                v.push(a);
                if ins.starts_with("lock cmpxchg") {
                    cas.push(a);
                }
            }
        }
    }
    v.sort_unstable();
    v.dedup();
    cas.sort_unstable();
    cas.dedup();
    map.insert(probe.to_path_buf(), (v.clone(), cas.clone()));
    (v, cas)
}

pub fn c04_engine_b(case: u64, mut dec: Dec, opts: &RunOpts) -> RunOut {
    let scn = gen_scn(&mut dec);
    // every 4th engine-B case runs the debug build (the allocator's debug assertions are on)
    let debug_probe = (case / 12) % 4 == 3 && probe_path("debug").exists();
    let probe = probe_path(if debug_probe { "debug" } else { "release" });
    if !probe.exists() {
        harness_error(&format!("{} is missing: run bin/setup (or bin/check C04) to build the probes", probe.display()));
    }
    let mut cfg = Cfg::new(probe.clone(), scn.args());
    cfg.record = opts.record;
    cfg.max_bursts = 24;
    cfg.burst_den = 300;
    cfg.max_stops = 3_000_000;
    // right behind an atomic instruction: 2..6 instructions later, every other time (when another thread can run)
    cfg.atomic_extra_den = 2;
    cfg.atomic_extra_min = 2;
    cfg.atomic_extra_steps = 6;
    cfg.hold_max = 12;
    cfg.prefer_uniform = true;
    if scn.threads >= 2 {
        // extra steps after every kind of atomic instruction: a contended lock is taken with xchg
        (cfg.atomic_sites, _) = atomic_sites(&probe);
    }
    let out = ptsim::run(&cfg, &mut dec);
    let mut ro = RunOut::default();
    match &out.end {
        End::Harness(m) => harness_error(&format!("ptsim: {m} (C04 case {case})")),
        End::Watchdog => {
            ro.counters.insert("probe.b_nonreplayable_watchdog_runs", 1);
        }
        End::Budget => {
            ro.counters.insert("probe.b_stop_budget_exhausted_runs", 1);
        }
        _ => {}
    }
    if let Some(m) = &out.ledger_mismatch {
        harness_error(&format!("ptsim: mapping ledger disagrees with the kernel: {m} (C04 case {case})"));
    }
    // mapped bytes at every ROUND_END: no worker is alive, its stack is unmapped
    let mapped: Vec<usize> = out.snapshots.iter().filter(|s| s.kind == R_ROUND_END).map(|s| s.live_bytes as usize).collect();
    let wlen = (scn.rounds / 8).max(1);
    let windows: Vec<usize> = mapped.chunks(wlen).filter(|c| c.len() == wlen).map(|c| c.iter().copied().max().unwrap_or(0)).collect();
    let m_end = mapped.last().copied().unwrap_or(0);
    let peak_live = scn.peak_live();
    let text = String::from_utf8_lossy(&out.text_out).chars().take(300).collect::<String>();
    ro.violation = match &out.end {
        End::Crash { thread, sig, rip, addr } => Some(Violation {
            sig: format!("crash|signal-{sig}|global-allocator"),
            detail: format!("probe thread t{thread} received fatal signal {sig} at instruction {rip:#x}, fault address {addr:#x}, after {} rounds", mapped.len()),
        }),
        End::Deadlock(p) => Some(Violation {
            sig: "deadlock|global-allocator".into(),
            detail: format!("every live thread is parked after {} rounds: {:?}", mapped.len(), p),
        }),
        End::Exited(c) if *c != 0 || mapped.len() != scn.rounds => Some(Violation {
            sig: format!("probe-exit-code|{c}|global-allocator"),
            detail: format!("the probe exited with status {c} after {} of {} rounds; its output: {text:?}", mapped.len(), scn.rounds),
        }),
        End::Exited(_) => crate::c03::growth_violation(&windows, m_end, peak_live, scn.rounds, false).map(|v| Violation {
            sig: format!("{}|global-allocator", v.sig),
            detail: format!(
                "{} worker threads x {} iterations x {} blocks per round through tiny-std's GlobalDlMalloc (real threads under the ptrace scheduler), all joined and everything freed at each round end: {}",
                scn.threads,
                scn.inner,
                scn.plans[0].0.len(),
                v.detail
            ),
        }),
        _ => None,
    };
    let sh = hash_str(&scn.args().join(" "));
    ro.hash = mix(&[out.hash, sh, u64::from(debug_probe)]);
    ro.shape = mix(&[out.shape, sh]);
    ro.sim_ns = out.sim_ns;
    ro.steps = out.stops;
    ro.nontrivial = scn.threads >= 2 && (out.parks >= 1 || out.bursts_multi >= 1);
    let c = &mut ro.counters;
    c.insert("probe.b_runs", 1);
    c.insert("probe.b_single_threaded_runs", u64::from(scn.threads == 0));
    c.insert("probe.b_debug_build_probe_runs", u64::from(debug_probe));
    c.insert("probe.b_rounds", mapped.len() as u64);
    c.insert("probe.b_threads_created", out.threads.len() as u64 - 1);
    c.insert("probe.b_allocator_lock_parks", out.parks.saturating_sub(out.ctid_wakes));
    c.insert("probe.b_join_parks", out.ctid_wakes);
    c.insert("probe.b_atomic_instruction_stops", out.atomic_stops_multi);
    c.insert("probe.b_bursts_with_two_threads_alive", out.bursts_multi);
    c.insert("probe.b_single_steps", out.single_steps);
    c.insert("probe.b_context_switches", out.switches);
    c.insert("probe.b_munmap_calls", out.mappings.iter().map(|m| m.unmaps.len() as u64).sum::<u64>());
    c.insert("probe.b_mappings_created", out.mappings.len() as u64);
    if opts.record {
        let mut ev = vec![format!(
            "engine B scenario ({} probe, scheduling {}): {} rounds, {} threads, {} iterations; per-thread sizes {:?}; free orders {:?}",
            if debug_probe { "debug" } else { "release" },
            out.sched_mode,
            scn.rounds,
            scn.threads,
            scn.inner,
            scn.plans.iter().map(|p| p.0.clone()).collect::<Vec<_>>(),
            scn.plans.iter().map(|p| p.1.clone()).collect::<Vec<_>>()
        )];
        ev.push(format!("mapped bytes at each round end: {mapped:?}"));
        if let Some(r) = out.records.iter().find(|r| r.kind == R_DONE) {
            ev.push(format!("DONE record payload: {:?}", r.v));
        }
        ev.extend(out.events.iter().cloned());
        ro.events = ev;
        ro.sample = Some(json!({
            "variant": "engine B: real threads through tiny-std's GlobalDlMalloc (probes/allocprobe under ptsim)",
            "rounds": scn.rounds, "threads": scn.threads, "iterations": scn.inner,
            "sizes": scn.plans.iter().map(|p| p.0.clone()).collect::<Vec<_>>(),
            "window_maxima_of_mapped_bytes": windows, "mapped_at_end": m_end, "peak_live_bytes": peak_live,
            "probe": if debug_probe { "debug" } else { "release" }, "scheduling": out.sched_mode,
            "stops": out.stops, "atomic_stops": out.atomic_stops, "switches": out.switches, "end": format!("{:?}", out.end),
        }));
    }
    ro.decisions = std::mem::take(&mut dec.log);
    ro
}
