//! C12 — descriptor hygiene on success and on every failure.
//! Each scenario runs on the real kernel behind `simk::fdm::PassKernel`; pass 1 records its
//! system-call trace, then every index of the trace is failed with every plausible errno.

use rusl::platform::{EpollEventMask, Fd, OpenFlags};
use rusl::string::unix_str::{UnixStr, UnixString};
use serde_json::{json, Value};
use simk::dec::{Dec, K};
use simk::fdm::{self, guard_child, plausible_errnos, proc_fds, shared, sys_name, PassKernel, Plan, Side};
use simk::runner::{Check, RunOpts, RunOut, Tier};
use simk::sched::{self, Sim, SimCfg, Violation};
use std::any::Any;
use std::sync::OnceLock;
use tiny_std::fs;
use tiny_std::io::{Read, Write};
use tiny_std::net::{Ip, SocketAddress, TcpListener, TcpStream, TcpTryConnect, UnixListener, UnixStream};
use tiny_std::process::{Command, Stdio};

pub struct C12;

pub struct Ctx<'a> {
    pub dir: String,
    pub k: &'a PassKernel,
    pub port: u16,
}

impl Ctx<'_> {
    pub fn p(&self, name: &str) -> UnixString {
        UnixString::try_from_string(format!("{}/{}", self.dir, name)).unwrap()
    }
}

type Objs = Vec<Box<dyn Any>>;
type ScenFn = fn(&Ctx) -> Result<Objs, tiny_std::Error>;

pub struct Scenario {
    pub name: &'static str,
    pub f: ScenFn,
    pub forks: bool,
}

struct RawFds(Vec<i32>);
impl Drop for RawFds {
    fn drop(&mut self) {
        for fd in &self.0 {
            unsafe { libc::close(*fd) };
        }
    }
}

fn bx<T: Any>(t: T) -> Box<dyn Any> {
    Box::new(t)
}

const TRUE_BIN: &UnixStr = UnixStr::from_str_checked("/bin/true\0");
const MISSING_BIN: &UnixStr = UnixStr::from_str_checked("/nonexistent/verif-bin\0");

fn spawn_with(c: &Ctx, bin: &'static UnixStr, i: Option<Stdio>, o: Option<Stdio>, e: Option<Stdio>) -> Result<Objs, tiny_std::Error> {
    let mut cmd = Command::new(bin)?;
    if let Some(s) = i {
        cmd.stdin(s);
    }
    if let Some(s) = o {
        cmd.stdout(s);
    }
    if let Some(s) = e {
        cmd.stderr(s);
    }
    let r = cmd.spawn();
    guard_child(c.k.harness_pid);
    let mut child = r?;
    let _ = child.wait();
    Ok(vec![bx(child)])
}

fn scenarios() -> Vec<Scenario> {
    macro_rules! s {
        ($name:expr, $f:expr) => {
            Scenario { name: $name, f: $f, forks: false }
        };
        ($name:expr, forks, $f:expr) => {
            Scenario { name: $name, f: $f, forks: true }
        };
    }
    vec![
        s!("File::open", |c| Ok(vec![bx(fs::File::open(&c.p("f1"))?)])),
        s!("File::open(missing)", |c| Ok(vec![bx(fs::File::open(&c.p("missing"))?)])),
        s!("OpenOptions::create", |c| {
            let f = fs::OpenOptions::new().write(true).create(true).truncate(true).open(&c.p("new1"))?;
            Ok(vec![bx(f)])
        }),
        s!("File::copy", |c| {
            let f = fs::File::open(&c.p("f1"))?;
            let g = f.copy(&c.p("copy1"))?;
            Ok(vec![bx(f), bx(g)])
        }),
        s!("fs::copy_file", |c| Ok(vec![bx(fs::copy_file(&c.p("f1"), &c.p("copy2"))?)])),
        s!("fs::read", |c| Ok(vec![bx(fs::read(&c.p("f1"))?)])),
        s!("fs::read_to_string", |c| Ok(vec![bx(fs::read_to_string(&c.p("f1"))?)])),
        s!("fs::write", |c| {
            fs::write(&c.p("w1"), b"hello world")?;
            Ok(vec![])
        }),
        s!("fs::metadata+exists", |c| {
            let m = fs::metadata(&c.p("f1"))?;
            let e = fs::exists(&c.p("f1"))?;
            let e2 = fs::exists(&c.p("missing"))?;
            Ok(vec![bx(m.len()), bx(e), bx(e2)])
        }),
        s!("File::metadata+read+set_nonblocking", |c| {
            let mut f = fs::File::open(&c.p("f1"))?;
            let _ = f.metadata()?;
            f.set_nonblocking()?;
            let mut b = [0u8; 16];
            let _ = f.read(&mut b)?;
            Ok(vec![bx(f)])
        }),
        s!("Directory::open+read", |c| {
            let d = fs::Directory::open(&c.p("d1"))?;
            let mut names = Vec::new();
            for e in d.read() {
                let e = e?;
                names.push(e.file_name()?.to_string());
            }
            Ok(vec![bx(d), bx(names)])
        }),
        s!("DirEntry::open_file/open_dir", |c| {
            let d = fs::Directory::open(&c.p("d1"))?;
            let mut objs: Objs = Vec::new();
            for e in d.read() {
                let e = e?;
                if e.is_relative_reference() {
                    continue;
                }
                match e.file_type() {
                    fs::FileType::RegularFile => objs.push(bx(e.open_file()?)),
                    fs::FileType::Directory => objs.push(bx(e.open_dir()?)),
                    _ => {}
                }
            }
            objs.push(bx(d));
            Ok(objs)
        }),
        s!("Directory::remove_all", |c| {
            let d = fs::Directory::open(&c.p("d1"))?;
            d.remove_all()?;
            Ok(vec![bx(d)])
        }),
        s!("fs::remove_dir_all", |c| {
            fs::remove_dir_all(&c.p("d1"))?;
            Ok(vec![])
        }),
        s!("fs::create_dir_all+remove", |c| {
            fs::create_dir_all(&c.p("x/y/z"))?;
            fs::create_dir(&c.p("single"))?;
            fs::remove_dir(&c.p("single"))?;
            fs::rename(&c.p("f1"), &c.p("f1moved"))?;
            fs::remove_file(&c.p("f1moved"))?;
            Ok(vec![])
        }),
        s!("UnixListener::bind", |c| Ok(vec![bx(UnixListener::bind(&c.p("sock1"))?)])),
        s!("UnixListener::bind(path in use)", |c| {
            let a = UnixListener::bind(&c.p("sock1"))?;
            let b = UnixListener::bind(&c.p("sock1"));
            match b {
                Ok(b) => Ok(vec![bx(a), bx(b)]),
                Err(_) => Ok(vec![bx(a)]),
            }
        }),
        s!("UnixListener::bind(over-long path)", |c| {
            let long = format!("{}/{}", c.dir, "s".repeat(150));
            let p = UnixString::try_from_string(long).unwrap();
            Ok(vec![bx(UnixListener::bind(&p)?)])
        }),
        s!("UnixStream::connect(over-long path)", |c| {
            let long = format!("{}/{}", c.dir, "s".repeat(150));
            let p = UnixString::try_from_string(long).unwrap();
            Ok(vec![bx(UnixStream::connect(&p)?)])
        }),
        s!("UnixStream::try_connect(over-long path)", |c| {
            let long = format!("{}/{}", c.dir, "s".repeat(150));
            let p = UnixString::try_from_string(long).unwrap();
            Ok(vec![bx(UnixStream::try_connect(&p)?)])
        }),
        s!("UnixStream::connect(nobody listening)", |c| Ok(vec![bx(UnixStream::connect(&c.p("nosock"))?)])),
        s!("unix connect+accept+io", |c| {
            let mut l = UnixListener::bind(&c.p("sock2"))?;
            let mut cl = UnixStream::connect(&c.p("sock2"))?;
            let mut sv = l.accept()?;
            cl.write_all(b"ping")?;
            let mut b = [0u8; 4];
            sv.read_exact(&mut b)?;
            Ok(vec![bx(l), bx(cl), bx(sv)])
        }),
        s!("unix try_connect+try_accept", |c| {
            let mut l = UnixListener::bind(&c.p("sock3"))?;
            let none = l.try_accept()?;
            let cl = UnixStream::try_connect(&c.p("sock3"))?;
            let sv = l.try_accept()?;
            Ok(vec![bx(l), bx(none), bx(cl), bx(sv)])
        }),
        s!("unix accept_with_timeout(expires)", |c| {
            let mut l = UnixListener::bind(&c.p("sock4"))?;
            let r = l.accept_with_timeout(core::time::Duration::from_millis(1));
            Ok(vec![bx(l), bx(r.ok())])
        }),
        s!("TcpListener::bind", |c| Ok(vec![bx(TcpListener::bind(&SocketAddress::new(Ip::V4([127, 0, 0, 1]), c.port))?)])),
        s!("TcpListener::bind(port in use)", |c| {
            let a = TcpListener::bind(&SocketAddress::new(Ip::V4([127, 0, 0, 1]), c.port))?;
            let b = TcpListener::bind(&SocketAddress::new(Ip::V4([127, 0, 0, 1]), c.port));
            match b {
                Ok(b) => Ok(vec![bx(a), bx(b)]),
                Err(_) => Ok(vec![bx(a)]),
            }
        }),
        s!("tcp connect+accept+io", |c| {
            let addr = SocketAddress::new(Ip::V4([127, 0, 0, 1]), c.port);
            let mut l = TcpListener::bind(&addr)?;
            let _ = l.local_addr()?;
            let mut cl = TcpStream::connect(&addr)?;
            let mut sv = l.accept()?;
            cl.write_all(b"ping")?;
            let mut b = [0u8; 4];
            sv.read_exact(&mut b)?;
            Ok(vec![bx(l), bx(cl), bx(sv)])
        }),
        s!("tcp try_connect+in-progress+try_accept", |c| {
            let addr = SocketAddress::new(Ip::V4([127, 0, 0, 1]), c.port);
            let mut l = TcpListener::bind(&addr)?;
            let none = l.try_accept()?;
            let cl = match TcpStream::try_connect(&addr)? {
                TcpTryConnect::Connected(s) => s,
                TcpTryConnect::InProgress(p) => p.connect_blocking()?,
            };
            let sv = l.try_accept()?;
            Ok(vec![bx(l), bx(none), bx(cl), bx(sv)])
        }),
        s!("tcp try_connect(in progress)+follow-up on a closed port", |c| {
            // a two-step operation: the socket made by the first step is owned by the in-progress
            // value, a failing follow-up has to give it back
            let addr = SocketAddress::new(Ip::V4([127, 0, 0, 1]), c.port);
            let r = match TcpStream::try_connect(&addr) {
                Ok(TcpTryConnect::Connected(s)) => Some(s),
                Ok(TcpTryConnect::InProgress(p)) => match p.try_connect() {
                    Ok(TcpTryConnect::Connected(s)) => Some(s),
                    Ok(TcpTryConnect::InProgress(p2)) => p2.connect_blocking().ok(),
                    Err(_) => None,
                },
                Err(_) => None,
            };
            Ok(vec![bx(r)])
        }),
        s!("tcp connect(refused)+connect_with_timeout", |c| {
            let addr = SocketAddress::new(Ip::V4([127, 0, 0, 1]), c.port);
            let a = TcpStream::connect(&addr).ok();
            let b = TcpStream::connect_with_timeout(&addr, core::time::Duration::from_millis(2)).ok();
            Ok(vec![bx(a), bx(b)])
        }),
        s!("tcp accept_with_timeout(expires)", |c| {
            let addr = SocketAddress::new(Ip::V4([127, 0, 0, 1]), c.port);
            let mut l = TcpListener::bind(&addr)?;
            let r = l.accept_with_timeout(core::time::Duration::from_millis(1));
            Ok(vec![bx(l), bx(r.ok())])
        }),
        s!("invalid timeouts (Duration::MAX)", |c| {
            // arguments that cannot be converted are one more way for an operation to fail half-way
            let addr = SocketAddress::new(Ip::V4([127, 0, 0, 1]), c.port);
            let mut tl = TcpListener::bind(&addr)?;
            let a = TcpStream::connect_with_timeout(&addr, core::time::Duration::MAX).ok();
            let b = tl.accept_with_timeout(core::time::Duration::MAX).ok();
            let mut ul = UnixListener::bind(&c.p("sock7"))?;
            let d = ul.accept_with_timeout(core::time::Duration::MAX).ok();
            let mut objs: Objs = vec![bx(tl), bx(ul), bx(b), bx(d)];
            if let Some(mut a) = a {
                let mut buf = [0u8; 4];
                let _ = a.read_with_timeout(&mut buf, core::time::Duration::MAX);
                objs.push(bx(a));
            }
            Ok(objs)
        }),
        s!("Command::spawn(inherit)", forks, |c| spawn_with(c, TRUE_BIN, None, None, None)),
        s!("Command::spawn(null,null,null)", forks, |c| spawn_with(c, TRUE_BIN, Some(Stdio::Null), Some(Stdio::Null), Some(Stdio::Null))),
        s!("Command::spawn(pipes)", forks, |c| spawn_with(c, TRUE_BIN, Some(Stdio::MakePipe), Some(Stdio::MakePipe), Some(Stdio::MakePipe))),
        s!("Command::spawn(rawfd stdout)", forks, |c| {
            let f = std::fs::File::create(format!("{}/out.txt", c.dir)).unwrap();
            use std::os::fd::IntoRawFd;
            let raw = f.into_raw_fd();
            c.k.given.borrow_mut().push(raw);
            let r = spawn_with(c, TRUE_BIN, Some(Stdio::Null), Some(Stdio::RawFd(Fd::try_new(raw).unwrap())), None);
            // ownership of the raw descriptor moved into the command; if spawn never took it, release it
            let still = proc_fds().contains(&raw);
            let keep = if still { Some(RawFds(vec![raw])) } else { None };
            let mut objs = r?;
            objs.push(bx(keep));
            Ok(objs)
        }),
        s!("Command::spawn(rawfd shared by stdout and stderr)", forks, |c| {
            // `>file 2>&1`: one caller-given descriptor for two streams
            let f = std::fs::File::create(format!("{}/both.txt", c.dir)).unwrap();
            use std::os::fd::IntoRawFd;
            let raw = f.into_raw_fd();
            c.k.given.borrow_mut().push(raw);
            let st = Stdio::RawFd(Fd::try_new(raw).unwrap());
            let r = spawn_with(c, TRUE_BIN, Some(Stdio::Null), Some(st), Some(st));
            let still = proc_fds().contains(&raw);
            let keep = if still { Some(RawFds(vec![raw])) } else { None };
            let mut objs = r?;
            objs.push(bx(keep));
            Ok(objs)
        }),
        s!("Command::spawn(missing binary)", forks, |c| spawn_with(c, MISSING_BIN, Some(Stdio::MakePipe), Some(Stdio::Null), None)),
        s!("EpollDriver", |c| {
            let e = tiny_std::linux::epoll::EpollDriver::create(true)?;
            let l = UnixListener::bind(&c.p("sock5"))?;
            use tiny_std::unix::fd::AsRawFd;
            // UnixListener exposes no raw fd: register a file instead
            let f = fs::File::open(&c.p("f1"))?;
            let _ = e.register(f.as_raw_fd(), 1, EpollEventMask::EPOLLIN);
            let mut ev = [tiny_std::linux::epoll::EpollEvent::new(0, EpollEventMask::EPOLLIN); 2];
            let _ = e.wait(&mut ev, tiny_std::linux::epoll::EpollTimeout::NoWait);
            Ok(vec![bx(e), bx(l), bx(f)])
        }),
        s!("openpty", |_c| {
            let t = tiny_std::unix::misc::openpty::openpty(None, None, None)?;
            Ok(vec![bx(RawFds(vec![t.master.value(), t.slave.value()]))])
        }),
        s!("openpty(window size)", |_c| {
            // the settings are applied after both descriptors exist
            let ws = rusl::platform::WindowSize::new(24, 80, 0, 0);
            let t = tiny_std::unix::misc::openpty::openpty(None, None, Some(&ws))?;
            Ok(vec![bx(RawFds(vec![t.master.value(), t.slave.value()]))])
        }),
        s!("openpty(slave name that is no terminal)", |_c| {
            let ws = rusl::platform::WindowSize::new(24, 80, 0, 0);
            let t = tiny_std::unix::misc::openpty::openpty(Some(rusl::string::unix_str::UnixStr::from_str_checked("/dev/null\0")), None, Some(&ws))?;
            Ok(vec![bx(RawFds(vec![t.master.value(), t.slave.value()]))])
        }),
        s!("getpwuid_r", |_c| {
            let mut buf = vec![0u8; 1024];
            let found = tiny_std::unix::passwd::getpw_r::getpwuid_r(0, &mut buf)?.is_some();
            Ok(vec![bx(found)])
        }),
        s!("rusl::pipe2", |_c| {
            let p = rusl::unistd::pipe2(OpenFlags::O_CLOEXEC)?;
            Ok(vec![bx(RawFds(vec![p.in_pipe.value(), p.out_pipe.value()]))])
        }),
        s!("setup_io_uring+drop", |_c| {
            let u = rusl::io_uring::setup_io_uring(8, rusl::platform::IoUringParamFlags::empty(), 0, 0)?;
            Ok(vec![bx(u)])
        }),
        s!("sendmsg/recvmsg SCM_RIGHTS", |c| {
            use rusl::platform::*;
            let l = UnixListener::bind(&c.p("sock6"))?;
            let cl = UnixStream::connect(&c.p("sock6"))?;
            let mut l = l;
            let sv = l.accept()?;
            use tiny_std::unix::fd::AsRawFd;
            let f = fs::File::open(&c.p("f1"))?;
            let payload = [7u8; 4];
            let io = [IoSlice::new(&payload)];
            let fds = [f.as_raw_fd()];
            let send = MsgHdrBorrow::create_send(None, &io, Some(ControlMessageSend::ScmRights(&fds)));
            rusl::network::sendmsg(cl.as_raw_fd(), &send, 0)?;
            let mut rb = [0u8; 4];
            let mut rio = [IoSliceMut::new(&mut rb)];
            let mut cbuf = [0u8; 64];
            let mut rh = MsgHdrBorrow::create_recv(&mut rio, Some(&mut cbuf));
            rusl::network::recvmsg(sv.as_raw_fd(), &mut rh, 0)?;
            let mut got = Vec::new();
            for m in rh.control_messages() {
                let ControlMessageSend::ScmRights(fds) = m;
                for fd in fds {
                    got.push(fd.value());
                }
            }
            Ok(vec![bx(l), bx(cl), bx(sv), bx(f), bx(RawFds(got))])
        }),
    ]
}

fn prepare_dir(dir: &str) {
    let _ = std::fs::remove_dir_all(dir);
    std::fs::create_dir_all(format!("{dir}/d1/sub/deeper")).unwrap();
    std::fs::write(format!("{dir}/f1"), b"content of f1: 0123456789 abcdefghijklmnopqrstuvwxyz\n".repeat(40)).unwrap();
    for i in 0..5 {
        std::fs::write(format!("{dir}/d1/file{i}"), format!("file {i}")).unwrap();
    }
    std::fs::write(format!("{dir}/d1/sub/inner"), b"inner").unwrap();
    std::fs::write(format!("{dir}/d1/sub/deeper/leaf"), b"leaf").unwrap();
}

pub struct ScenOut {
    pub violation: Option<Violation>,
    pub trace: Vec<usize>,
    pub child_trace: Vec<usize>,
    pub fired: bool,
    pub result_ok: bool,
    pub events: Vec<String>,
    pub hash: u64,
    pub returned_in_child: bool,
    /// (parent call index, errno) of the faults the seeded multi-fault mode fired
    pub random_fired: Vec<(u32, i32)>,
}

/// Run one scenario under an optional single-fault plan and judge descriptor hygiene.
thread_local! {
    /// second fault of a two-fault case: (parent call index, errno); consulted by run_scenario
    static SECOND: std::cell::Cell<Option<(u32, i32)>> = const { std::cell::Cell::new(None) };
}

pub fn run_scenario(sc: &Scenario, plan: Option<Plan>, random: Option<u32>, dec: Dec, record: bool, slot: u64, low_fd_free: bool) -> (ScenOut, Dec) {
    let dir = format!("/verif/work/c12.{}.{}", unsafe { libc::getpid() }, slot % 4);
    prepare_dir(&dir);
    // descriptor-table state is part of "every": with descriptor 0 closed the kernel hands out
    // 0 for the next open/socket/pipe, a number that code special-casing the standard streams
    // would treat differently
    let saved0 = if low_fd_free {
        let s = unsafe { libc::fcntl(0, libc::F_DUPFD_CLOEXEC, 100) };
        if s >= 0 {
            unsafe { libc::close(0) };
        }
        s
    } else {
        -1
    };
    let baseline = proc_fds();
    let k = PassKernel::new();
    k.plan.set(plan);
    let mut sim = Sim::new(dec, SimCfg { record, ..SimCfg::default() });
    let random_fired: std::rc::Rc<std::cell::RefCell<Vec<(u32, i32)>>> = std::rc::Rc::new(std::cell::RefCell::new(Vec::new()));
    if let Some(p) = random {
        // seeded multi-fault mode: every parent call may fail
        let kp: *const PassKernel = &k;
        let rf = random_fired.clone();
        let f = move |n: usize, _a: [usize; 6]| -> Option<usize> {
            let s = sched::sim()?;
            let k = unsafe { &*kp };
            if k.in_child.get() || n == sc::nr::CLOSE || n == sc::nr::EXIT || n == sc::nr::MUNMAP {
                return None;
            }
            if s.dec.chance(K::Fault, p, 64) {
                let es = plausible_errnos(n);
                let e = es[s.dec.choose(K::Fault, es.len() as u32) as usize];
                k.fault_fired.set(true);
                rf.borrow_mut().push((k.parent_calls.get(), e));
                k.trace.borrow_mut().push(n);
                k.parent_calls.set(k.parent_calls.get() + 1);
                s.count("fault.random_errno");
                s.trace.ev(|| format!("fault: {} -> -{e}", sys_name(n)));
                return Some(simk::kern::neg(e));
            }
            None
        };
        *k.extra.borrow_mut() = Some(Box::new(f));
    }
    let second = SECOND.with(std::cell::Cell::get);
    let second_fired = std::rc::Rc::new(std::cell::Cell::new(None::<usize>));
    if let (Some((j, e2)), None) = (second, random) {
        // two-fault case: the plan's fault first, then parent call j fails with e2
        let kp: *const PassKernel = &k;
        let sf = second_fired.clone();
        let f = move |n: usize, _a: [usize; 6]| -> Option<usize> {
            let k = unsafe { &*kp };
            if k.in_child.get() || k.parent_calls.get() != j || n == sc::nr::CLOSE || n == sc::nr::EXIT || n == sc::nr::MUNMAP {
                return None;
            }
            k.fault_fired.set(true);
            sf.set(Some(n));
            k.trace.borrow_mut().push(n);
            k.parent_calls.set(j + 1);
            if let Some(s) = sched::sim() {
                s.count("fault.second_errno_fired");
                s.trace.ev(|| format!("fault (second): {} -> -{e2}", sys_name(n)));
            }
            Some(simk::kern::neg(e2))
        };
        *k.extra.borrow_mut() = Some(Box::new(f));
    }
    sim.set_kernel(&k);
    let ctx = Ctx { dir: dir.clone(), k: &k, port: 20000 + ((unsafe { libc::getpid() } as u32 * 4 + (slot % 4) as u32) % 40000) as u16 };
    let mut result_ok = false;
    let mut panic_v = None;
    let mut mid: Vec<i32> = Vec::new();
    sched::with_installed(&mut sim, || {
        let r = std::panic::catch_unwind(std::panic::AssertUnwindSafe(|| {
            let r = (sc.f)(&ctx);
            guard_child(k.harness_pid);
            r
        }));
        guard_child(k.harness_pid);
        match r {
            Ok(Ok(objs)) => {
                result_ok = true;
                mid = proc_fds();
                drop(objs);
            }
            Ok(Err(_)) => {
                mid = proc_fds();
            }
            Err(_) => {
                let (msg, loc) = sched::take_last_panic().unwrap_or_default();
                let loc = sched::short_loc(&loc);
                panic_v = Some(Violation { sig: format!("{}|panic|{loc}", sc.name), detail: format!("panic at {loc}: {msg}") });
            }
        }
    });
    guard_child(k.harness_pid);
    *k.extra.borrow_mut() = None;
    let (_reaped, _killed) = if sc.forks { fdm::reap_children() } else { (0, 0) };
    let after = proc_fds();
    let trace = k.trace.borrow().clone();
    let sh = shared();
    let child_trace: Vec<usize> = sh.child_trace[..sh.child_trace_len as usize].iter().map(|&x| x as usize).collect();
    let fired = k.fault_fired.get() || sh.child_fault_fired != 0;
    let fail_label = match plan {
        Some(p) if p.side == Side::Parent && (p.index as usize) < trace.len() => PassKernel::label_of(&trace, p.index as usize),
        Some(p) if p.side == Side::Child && (p.index as usize) < child_trace.len() => format!("child:{}", PassKernel::label_of(&child_trace, p.index as usize)),
        Some(_) => "ok-path".to_string(),
        None => {
            if random.is_some() {
                "random-faults".to_string()
            } else {
                "ok-path".to_string()
            }
        }
    };
    let fail_label = match second_fired.get() {
        Some(n2) => format!("{fail_label}+then-{}", sys_name(n2)),
        None => fail_label,
    };
    let mut violation = panic_v;
    if violation.is_none() {
        if let Some(i) = k.issues.borrow().first() {
            violation = Some(Violation { sig: format!("{}|{fail_label}|{}|{}", sc.name, i.kind, i.origin), detail: format!("{}: with {fail_label} failing: {}", sc.name, i.detail) });
        }
    }
    if violation.is_none() {
        let leaked: Vec<i32> = after.iter().copied().filter(|fd| !baseline.contains(fd)).collect();
        if !leaked.is_empty() {
            let fds = k.fds.borrow();
            let origins: Vec<String> = leaked.iter().map(|fd| fds.get(fd).map_or_else(|| format!("fd{fd}"), |i| i.origin.clone())).collect();
            violation = Some(Violation {
                sig: format!("{}|{fail_label}|leak|{}", sc.name, origins.join("+")),
                detail: format!("{}: with {fail_label} failing (operation returned {}): descriptor(s) {:?} from {} stay open after the results were dropped", sc.name, if result_ok { "Ok" } else { "Err" }, leaked, origins.join(", ")),
            });
        }
        for fd in &leaked {
            unsafe { libc::close(*fd) };
        }
        let lost: Vec<i32> = baseline.iter().copied().filter(|fd| !after.contains(fd)).collect();
        if violation.is_none() && !lost.is_empty() {
            violation = Some(Violation { sig: format!("{}|{fail_label}|closed-foreign", sc.name), detail: format!("descriptors {lost:?} that existed before the operation are gone") });
        }
    }
    if saved0 >= 0 {
        unsafe {
            libc::dup2(saved0, 0);
            libc::close(saved0);
        }
    }
    if violation.is_none() && sh.returned_in_child != 0 {
        // not judged by C12 (C13's clause); counted
        sim.count("probe.child_returned_into_caller");
    }
    let _ = mid;
    let _ = std::fs::remove_dir_all(&dir);
    let mut h = simk::dec::hash_str(sc.name);
    for n in &trace {
        h = simk::dec::mix(&[h, *n as u64]);
    }
    h = simk::dec::mix(&[h, plan.map_or(0, |p| u64::from(p.index) << 16 | p.errno as u64 | if p.side == Side::Child { 1 << 40 } else { 0 }), u64::from(result_ok), u64::from(low_fd_free)]);
    let events = sim.trace.events.take().unwrap_or_default();
    let rfv = random_fired.borrow().clone();
    let mut h = h;
    for (i, e) in &rfv {
        h = simk::dec::mix(&[h, u64::from(*i), *e as u64]);
    }
    let out = ScenOut { violation, trace, child_trace, fired, result_ok, events, hash: h, returned_in_child: sh.returned_in_child != 0, random_fired: rfv };
    let dec = std::mem::replace(&mut sim.dec, Dec::from_list(Vec::new()));
    (out, dec)
}

struct Table {
    cases: Vec<(usize, Option<Plan>, bool)>,
    /// two-fault cases: scenario, first fault, second fault (parent call index, errno)
    pairs: Vec<(usize, Plan, (u32, i32))>,
}

static TABLE: OnceLock<Table> = OnceLock::new();

fn table() -> &'static Table {
    TABLE.get_or_init(|| {
        let scs = scenarios();
        let mut cases = Vec::new();
        let mut pairs = Vec::new();
        for (i, sc) in scs.iter().enumerate() {
            let (o, _) = run_scenario(sc, None, None, Dec::from_list(Vec::new()), false, 0, false);
            cases.push((i, None, false));
            cases.push((i, None, true));
            for (idx, n) in o.trace.iter().enumerate() {
                for &e in plausible_errnos(*n) {
                    cases.push((i, Some(Plan { side: Side::Parent, index: idx as u32, errno: e }), false));
                    if e == plausible_errnos(*n)[0] {
                        cases.push((i, Some(Plan { side: Side::Parent, index: idx as u32, errno: e }), true));
                    }
                }
            }
            // depth 2 on paths that go on after the first fault (a retry after EINTR, a fall-back,
            // an error path that does more than close): every later call of that run fails in turn
            if !sc.forks {
                for (idx, n) in o.trace.iter().enumerate() {
                    for &e in plausible_errnos(*n) {
                        let first = Plan { side: Side::Parent, index: idx as u32, errno: e };
                        let (o1, _) = run_scenario(sc, Some(first), None, Dec::from_list(Vec::new()), false, 0, false);
                        if !o1.fired || o1.violation.is_some() {
                            continue;
                        }
                        for (j, n2) in o1.trace.iter().enumerate().skip(idx + 1) {
                            if *n2 == sc::nr::CLOSE || *n2 == sc::nr::MUNMAP || *n2 == sc::nr::EXIT {
                                continue;
                            }
                            for &e2 in plausible_errnos(*n2) {
                                pairs.push((i, first, (j as u32, e2)));
                            }
                        }
                    }
                }
            }
            for (idx, n) in o.child_trace.iter().enumerate() {
                if *n == sc::nr::EXIT {
                    continue;
                }
                let es = plausible_errnos(*n);
                // the child side of spawn: every plausible errno too (the statement's quantifier says so)
                for &e in es {
                    cases.push((i, Some(Plan { side: Side::Child, index: idx as u32, errno: e }), false));
                }
            }
        }
        Table { cases, pairs }
    })
}

impl Check for C12 {
    fn id(&self) -> &'static str {
        "C12"
    }
    fn level(&self) -> &'static str {
        "fault_enumeration"
    }
    fn engine(&self) -> &'static str {
        "simk (engine A): pass-through kernel with descriptor model and single-fault plans"
    }
    fn cases(&self, tier: Tier) -> u64 {
        (table().cases.len() + table().pairs.len()) as u64 + if tier == Tier::Thorough { 200_000 } else { 3_000 }
    }
    fn exhaustive(&self, _tier: Tier) -> bool {
        false
    }
    fn workers(&self, _tier: Tier) -> usize {
        12
    }
    fn rule(&self) -> String {
        "enumeration part (complete): for each of the scenarios in c12.rs (public fd-creating operations incl. invalid-argument variants), pass 1 records the system-call trace on the real kernel, then every call index of that trace (parent side, and child side of fork for spawn) is failed - the call is not executed - with every plausible errno of that call (table in simk::fdm); plus the fault-free run; the fault-free run and one errno per call index are repeated with descriptor 0 closed beforehand (the kernel then hands out 0 to the operation). depth 2 (complete over the recorded continuations, scenarios without fork): for every single fault after which the operation goes on (retry after EINTR, fall-back, error path with further calls), every later call of that run other than close/munmap fails in turn with every plausible errno. seeded part: scenario drawn by seed, every call fails with probability 1..4/64 (multi-fault). Oracle after each run: the process's real descriptor set (/proc/self/fd) after dropping the operation's results equals the set before; the model flags a close of a descriptor the scenario neither opened nor was given and a second close of the same descriptor (a descriptor handed to the operation by the caller may be closed by it once). non-trivial = a fault actually fired; distinct = hash of (scenario, trace, plan, outcome)".into()
    }
    fn assumptions(&self) -> Vec<String> {
        vec![
            "a failed close still releases the descriptor (Linux semantics): close faults execute the real call and report the error".into(),
            "scenario set-up calls are part of the enumerated trace".into(),
            "the enumeration part is complete over (scenario, call index, plausible errno); the errno table is a chosen subset of what the kernel can return".into(),
        ]
    }
    fn components(&self) -> Value {
        json!({"real": ["tiny-std fs/net/process/epoll/pty/passwd code, rusl wrappers", "the Linux kernel (files on disk, unix and loopback sockets, pipes, fork/exec)"], "stub": ["the failing call (replaced by -errno at the sc seam)"]})
    }
    fn extra(&self, _tier: Tier) -> Value {
        json!({"scenarios": scenarios().iter().map(|s| s.name).collect::<Vec<_>>(), "single_fault_cases": table().cases.len(), "two_fault_cases": table().pairs.len()})
    }
    fn run(&self, case: u64, mut dec: Dec, opts: &RunOpts) -> RunOut {
        let scs = scenarios();
        let t = table();
        let mut second = None;
        let (si, plan, random, low) = if (case as usize) < t.cases.len() {
            let (si, p, low) = t.cases[case as usize];
            (si, p, None, low)
        } else if (case as usize) < t.cases.len() + t.pairs.len() {
            let (si, p, sec) = t.pairs[case as usize - t.cases.len()];
            second = Some(sec);
            (si, Some(p), None, false)
        } else {
            let si = dec.choose(K::Op, scs.len() as u32) as usize;
            let p = 1 + dec.choose(K::Cfg, 4);
            (si, None, Some(p), dec.chance(K::Cfg, 1, 3))
        };
        let sc = &scs[si];
        SECOND.with(|c| c.set(second));
        let (mut o, mut dec) = run_scenario(sc, plan, random, dec, opts.record, case, low);
        SECOND.with(|c| c.set(None));
        if random.is_some() && o.violation.is_some() {
            // fault minimisation: does one of the fired faults alone reproduce a violation? then
            // report it under that single-fault signature (the same one the enumeration part uses)
            for (idx, e) in o.random_fired.clone() {
                let (o2, _) = run_scenario(sc, Some(Plan { side: Side::Parent, index: idx, errno: e }), None, Dec::from_list(Vec::new()), false, case, low);
                if o2.violation.is_some() && o2.fired {
                    o.violation = o2.violation;
                    break;
                }
            }
        }
        let mut out = RunOut::default();
        out.violation = o.violation;
        out.hash = o.hash;
        out.shape = o.hash;
        out.nontrivial = o.fired;
        out.events = o.events;
        out.decisions = std::mem::take(&mut dec.log);
        out.counters.insert("fault.single_errno_fired", u64::from(o.fired && random.is_none()));
        out.counters.insert("fault.random_mode_runs_with_a_fault", u64::from(o.fired && random.is_some()));
        out.counters.insert("fault.two_fault_cases", u64::from(second.is_some()));
        out.counters.insert("probe.plan_not_reached", u64::from(plan.is_some() && !o.fired));
        out.counters.insert("probe.operation_returned_ok_despite_fault", u64::from(o.fired && o.result_ok));
        out.counters.insert("probe.child_returned_into_caller", u64::from(o.returned_in_child));
        out.counters.insert("syscalls_traced", o.trace.len() as u64);
        out.counters.insert("probe.run_with_descriptor_0_free", u64::from(low));
        if opts.record {
            out.sample = Some(json!({"scenario": sc.name, "plan": plan.map(|p| format!("{:?} call {} -> errno {}", p.side, p.index, p.errno)), "descriptor_0_closed_beforehand": low, "trace": o.trace.iter().map(|n| sys_name(*n)).collect::<Vec<_>>(), "child_trace": o.child_trace.iter().map(|n| sys_name(*n)).collect::<Vec<_>>(), "returned_ok": o.result_ok}));
        }
        out
    }
}
