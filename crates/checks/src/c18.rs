//! C18 — io_uring operations agree with their direct system-call twins; teardown releases the
//! descriptor and every mapping exactly once.  The REAL kernel executes the ring; the simulator
//! controls the generated batches, the system-call seam (setup/teardown ledger, setup faults) and
//! normalises the kernel's completion order by user_data.

use rusl::io_uring::{io_uring_enter, setup_io_uring};
use rusl::platform::*;
use rusl::string::unix_str::UnixString;
use serde_json::{json, Value};
use simk::dec::{Dec, K};
use simk::kern::{self, is_err, neg};
use simk::runner::{Check, RunOpts, RunOut, Tier};
use simk::sched::{self, Kernel, Sim, SimCfg, Violation};
use std::cell::{Cell, RefCell};
use std::collections::BTreeMap;
use std::os::unix::ffi::OsStrExt;

pub struct C18;

/// Pass-through kernel with a mapping/descriptor ledger for the ring and setup faults.
struct Ledger {
    ring_fd: Cell<i32>,
    maps: RefCell<Vec<(usize, usize, u32)>>,
    foreign_unmaps: RefCell<Vec<(usize, usize)>>,
    closes_of_ring: Cell<u32>,
    fail_call: Cell<Option<(u32, i32)>>,
    setup_calls: Cell<u32>,
    fired: Cell<bool>,
    n_enter: Cell<u64>,
}

impl Kernel for Ledger {
    fn syscall(&self, nr: usize, a: [usize; 6]) -> usize {
        let setup_phase = matches!(nr, sc::nr::IO_URING_SETUP | sc::nr::MMAP);
        if setup_phase {
            let i = self.setup_calls.get();
            self.setup_calls.set(i + 1);
            if let Some((at, e)) = self.fail_call.get() {
                if at == i {
                    self.fired.set(true);
                    return neg(e);
                }
            }
        }
        match nr {
            sc::nr::IO_URING_SETUP => {
                let r = kern::real(nr, a);
                if !is_err(r) {
                    self.ring_fd.set(r as i32);
                }
                r
            }
            sc::nr::MMAP => {
                let r = kern::real(nr, a);
                if !is_err(r) && a[4] as i32 == self.ring_fd.get() && self.ring_fd.get() >= 0 {
                    self.maps.borrow_mut().push((r, a[1], 0));
                }
                r
            }
            sc::nr::MUNMAP => {
                let mut hit = false;
                for m in self.maps.borrow_mut().iter_mut() {
                    if m.0 == a[0] && m.1 == a[1] {
                        m.2 += 1;
                        hit = true;
                    }
                }
                if !hit {
                    self.foreign_unmaps.borrow_mut().push((a[0], a[1]));
                    // do not let a stray munmap damage the harness
                    return 0;
                }
                if self.maps.borrow().iter().any(|m| m.0 == a[0] && m.1 == a[1] && m.2 > 1) {
                    // second release of the same range: recorded, not executed
                    return 0;
                }
                kern::real(nr, a)
            }
            sc::nr::CLOSE => {
                if a[0] as i32 == self.ring_fd.get() {
                    self.closes_of_ring.set(self.closes_of_ring.get() + 1);
                    if self.closes_of_ring.get() > 1 {
                        return neg(9);
                    }
                }
                kern::real(nr, a)
            }
            sc::nr::IO_URING_ENTER => {
                self.n_enter.set(self.n_enter.get() + 1);
                kern::real(nr, a)
            }
            _ => kern::real(nr, a),
        }
    }
}

fn teardown_verdict(l: &Ledger, label: &str) -> Option<Violation> {
    for (i, m) in l.maps.borrow().iter().enumerate() {
        if m.2 == 0 {
            return Some(Violation { sig: format!("teardown|mapping-not-released|{label}"), detail: format!("ring mapping #{i} ({} bytes) is still mapped after drop / failed setup", m.1) });
        }
        if m.2 > 1 {
            return Some(Violation { sig: format!("teardown|mapping-released-twice|{label}"), detail: format!("ring mapping #{i} ({} bytes) was unmapped {} times", m.1, m.2) });
        }
    }
    if let Some((a, len)) = l.foreign_unmaps.borrow().first() {
        let _ = a;
        return Some(Violation { sig: format!("teardown|foreign-range-unmapped|{label}"), detail: format!("munmap of a {len}-byte range that is not one of the ring's mappings (wrong address or length)") });
    }
    if l.ring_fd.get() >= 0 {
        match l.closes_of_ring.get() {
            1 => {}
            0 => return Some(Violation { sig: format!("teardown|ring-fd-not-closed|{label}"), detail: "the io_uring descriptor is still open".into() }),
            n => return Some(Violation { sig: format!("teardown|ring-fd-closed-twice|{label}"), detail: format!("closed {n} times") }),
        }
    }
    None
}

#[derive(Clone, Debug)]
enum Op {
    Mkdir(usize),
    Open(usize, bool),
    Writev(usize, Vec<u8>, usize),
    Readv(usize, usize),
    Statx(usize),
    Rename(usize, usize),
    Unlink(usize, bool),
    Close(usize),
    Timeout,
    Socket,
}

fn dir_digest(dir: &str) -> BTreeMap<Vec<u8>, (bool, Vec<u8>)> {
    let mut m = BTreeMap::new();
    if let Ok(rd) = std::fs::read_dir(dir) {
        for e in rd.flatten() {
            let md = e.metadata().ok();
            let isdir = md.as_ref().is_some_and(std::fs::Metadata::is_dir);
            let content = if isdir { Vec::new() } else { std::fs::read(e.path()).unwrap_or_default() };
            m.insert(e.file_name().as_bytes().to_vec(), (isdir, content));
        }
    }
    m
}

fn run_ops(dec: Dec, opts: &RunOpts, slot: u64, nbatches: usize) -> RunOut {
    let base = format!("/verif/work/c18.{}.{}", unsafe { libc::getpid() }, slot % 2);
    let _ = std::fs::remove_dir_all(&base);
    let (da, db) = (format!("{base}/ring"), format!("{base}/twin"));
    std::fs::create_dir_all(&da).unwrap();
    std::fs::create_dir_all(&db).unwrap();
    let mut sim = Sim::new(dec, SimCfg { record: opts.record, ..SimCfg::default() });
    let entries = 1u32 << sim.dec.choose(K::Cfg, 7);
    let led = Ledger { ring_fd: Cell::new(-1), maps: RefCell::new(Vec::new()), foreign_unmaps: RefCell::new(Vec::new()), closes_of_ring: Cell::new(0), fail_call: Cell::new(None), setup_calls: Cell::new(0), fired: Cell::new(false), n_enter: Cell::new(0) };
    sim.set_kernel(&led);
    let mut viol: Option<Violation> = None;
    let mut log: Vec<String> = Vec::new();
    let mut nops = 0u64;
    let mut nerr_ops = 0u64;
    sched::with_installed(&mut sim, || {
        let r = std::panic::catch_unwind(std::panic::AssertUnwindSafe(|| -> Option<Violation> {
            let s = sched::sim().unwrap();
            // set-up flag combinations the running kernel accepts (big SQEs / CQEs change the slot stride)
            let flags = match s.dec.choose(K::Cfg, 4) {
                0 => IoUringParamFlags::empty(),
                1 => IoUringParamFlags::IORING_SETUP_SQE128,
                2 => IoUringParamFlags::IORING_SETUP_CQE32,
                _ => IoUringParamFlags::IORING_SETUP_SQE128 | IoUringParamFlags::IORING_SETUP_CQE32,
            };
            let mut ring = match setup_io_uring(entries, flags, 0, 0) {
                Ok(r) => r,
                Err(_) => match setup_io_uring(entries, IoUringParamFlags::empty(), 0, 0) {
                    Ok(r) => r,
                    Err(e) => return Some(Violation { sig: "ops|setup-failed".into(), detail: format!("{e:?}") }),
                },
            };
            let dfa = rusl::unistd::open(&UnixString::try_from_string(da.clone()).unwrap(), OpenFlags::O_RDONLY | OpenFlags::O_DIRECTORY).unwrap();
            let dfb = rusl::unistd::open(&UnixString::try_from_string(db.clone()).unwrap(), OpenFlags::O_RDONLY | OpenFlags::O_DIRECTORY).unwrap();
            let names: Vec<UnixString> = (0..8).map(|i| UnixString::try_from_string(format!("n{i}")).unwrap()).collect();
            let mut fds_a: Vec<Option<Fd>> = vec![None; 6];
            let mut fds_b: Vec<Option<Fd>> = vec![None; 6];
            let mut next_ud: u64 = 1;
            for _b in 0..nbatches {
                let bsize = 1 + s.dec.choose(K::Op, entries.min(8)) as usize;
                // independent entries: each touches its own name / descriptor slot
                let mut used_names = [false; 8];
                let mut used_slots = [false; 6];
                let mut content_op_used = false;
                let mut ops: Vec<Op> = Vec::new();
                for _ in 0..bsize {
                    let n = s.dec.choose(K::Arg, 8) as usize;
                    let sl = s.dec.choose(K::Arg, 6) as usize;
                    let op = match s.dec.choose(K::Op, 12) {
                        0 => Op::Mkdir(n),
                        1 | 2 => Op::Open(n, s.dec.chance(K::Arg, 3, 4)),
                        3 | 4 => {
                            let len = *s.dec.pick(K::Arg, &[1usize, 7, 100, 4096, 9000]);
                            let sd = s.dec.choose(K::Arg, 250) as u8;
                            Op::Writev(sl, (0..len).map(|i| (i as u8).wrapping_add(sd)).collect(), 1 + s.dec.choose(K::Arg, 3) as usize)
                        }
                        5 => Op::Readv(sl, *s.dec.pick(K::Arg, &[1usize, 16, 5000])),
                        6 => Op::Statx(n),
                        7 => Op::Rename(n, s.dec.choose(K::Arg, 8) as usize),
                        8 => Op::Unlink(n, s.dec.chance(K::Arg, 1, 2)),
                        9 => Op::Close(sl),
                        10 => Op::Timeout,
                        _ => Op::Socket,
                    };
                    let (nn, ss): (Vec<usize>, Vec<usize>) = match &op {
                        Op::Mkdir(n) | Op::Statx(n) | Op::Unlink(n, _) => (vec![*n], vec![]),
                        Op::Open(n, _) => (vec![*n], vec![sl]),
                        Op::Rename(a, b) => (vec![*a, *b], vec![]),
                        Op::Writev(x, ..) | Op::Readv(x, _) | Op::Close(x) => (vec![], vec![*x]),
                        Op::Timeout | Op::Socket => (vec![], vec![]),
                    };
                    if nn.iter().any(|x| used_names[*x]) || ss.iter().any(|x| used_slots[*x]) || matches!(&op, Op::Rename(a, b) if a == b) {
                        continue;
                    }
                    // two descriptors may designate the same file: at most one operation per batch
                    // that reads or writes file content or size keeps the entries independent
                    if matches!(op, Op::Writev(..) | Op::Readv(..) | Op::Statx(_)) {
                        if content_op_used {
                            continue;
                        }
                        content_op_used = true;
                    }
                    if let Op::Open(..) = op {
                        if fds_a[sl].is_some() {
                            continue;
                        }
                    }
                    for x in nn {
                        used_names[x] = true;
                    }
                    for x in ss {
                        used_slots[x] = true;
                    }
                    ops.push(match op {
                        Op::Open(n, c) => Op::Open(n * 8 + sl, c),
                        o => o,
                    });
                }
                if ops.is_empty() {
                    continue;
                }
                // buffers that must outlive submission
                let ts = TimeSpec::new(0, 1_000_000);
                let mut rbufs: Vec<Vec<u8>> = ops.iter().map(|o| if let Op::Readv(_, l) = o { vec![0u8; *l] } else { Vec::new() }).collect();
                let mut statxs: Vec<Statx> = ops.iter().map(|_| unsafe { core::mem::zeroed() }).collect();
                let mut iovs_w: Vec<Vec<IoSlice>> = Vec::new();
                let mut iovs_r: Vec<Vec<IoSliceMut>> = Vec::new();
                for (i, o) in ops.iter().enumerate() {
                    match o {
                        Op::Writev(_, data, parts) => {
                            let step = data.len().div_ceil(*parts).max(1);
                            iovs_w.push(data.chunks(step).map(IoSlice::new).collect());
                        }
                        _ => iovs_w.push(Vec::new()),
                    }
                    let _ = i;
                }
                for rb in &mut rbufs {
                    let p: &mut [u8] = unsafe { std::slice::from_raw_parts_mut(rb.as_mut_ptr(), rb.len()) };
                    iovs_r.push(vec![IoSliceMut::new(p)]);
                }
                // submit
                let mut uds: Vec<u64> = Vec::new();
                let mut expected_bad_fd = vec![false; ops.len()];
                for (i, o) in ops.iter().enumerate() {
                    let ud = next_ud;
                    next_ud += 1;
                    uds.push(ud);
                    let fl = IoUringSQEFlags::empty();
                    let bad = Fd::try_new(1_000_000).unwrap();
                    let e = unsafe {
                        match o {
                            Op::Mkdir(n) => IoUringSubmissionQueueEntry::new_mkdirat(Some(dfa), &names[*n], Mode::from(0o755), ud, fl),
                            Op::Open(x, creat) => IoUringSubmissionQueueEntry::new_openat(Some(dfa), &names[*x / 8], if *creat { OpenFlags::O_RDWR | OpenFlags::O_CREAT } else { OpenFlags::O_RDWR }, Mode::from(0o644), ud, fl),
                            Op::Writev(sl, _, _) => {
                                expected_bad_fd[i] = fds_a[*sl].is_none();
                                IoUringSubmissionQueueEntry::new_writev(fds_a[*sl].unwrap_or(bad), iovs_w[i].as_ptr() as usize, iovs_w[i].len() as u32, ud, fl)
                            }
                            Op::Readv(sl, _) => {
                                expected_bad_fd[i] = fds_a[*sl].is_none();
                                IoUringSubmissionQueueEntry::new_readv(fds_a[*sl].unwrap_or(bad), iovs_r[i].as_mut_ptr() as usize, 1, ud, fl)
                            }
                            Op::Statx(n) => IoUringSubmissionQueueEntry::new_statx(Some(dfa), &names[*n], StatxFlags::empty(), StatxMask::STATX_SIZE | StatxMask::STATX_TYPE, &mut statxs[i], ud, fl),
                            Op::Rename(a, b) => IoUringSubmissionQueueEntry::new_rename_at(Some(dfa), Some(dfa), &names[*a], &names[*b], RenameFlags::empty(), ud, fl),
                            Op::Unlink(n, rm) => IoUringSubmissionQueueEntry::new_unlink_at(Some(dfa), &names[*n], *rm, ud, fl),
                            Op::Close(sl) => {
                                expected_bad_fd[i] = fds_a[*sl].is_none();
                                IoUringSubmissionQueueEntry::new_close(fds_a[*sl].unwrap_or(bad), ud, fl)
                            }
                            Op::Timeout => IoUringSubmissionQueueEntry::new_timeout(&ts, true, None, ud, fl),
                            Op::Socket => IoUringSubmissionQueueEntry::new_socket(AddressFamily::AF_UNIX, SocketOptions::new(SocketType::SOCK_STREAM, SocketFlags::SOCK_CLOEXEC), 0, ud, fl),
                        }
                    };
                    let Some(slot) = ring.get_next_sqe_slot() else {
                        return Some(Violation { sig: "ops|no-sqe-slot".into(), detail: format!("no slot for entry {i} of a batch of {} on a ring of {entries}", ops.len()) });
                    };
                    unsafe { slot.write(e) };
                }
                ring.flush_submission_queue();
                let mut waited = 0;
                let mut got: BTreeMap<u64, i32> = BTreeMap::new();
                while got.len() < ops.len() {
                    match io_uring_enter(ring.fd, (ops.len() - waited.min(ops.len())) as u32, (ops.len() - got.len()) as u32, IoUringEnterFlags::IORING_ENTER_GETEVENTS) {
                        Ok(_) => {}
                        Err(e) if e.code == Some(rusl::error::Errno::EINTR) => continue,
                        Err(e) => return Some(Violation { sig: "ops|enter-failed".into(), detail: format!("{e:?}") }),
                    }
                    waited = ops.len();
                    while let Some(c) = ring.get_next_cqe() {
                        let (ud, res) = (c.0.user_data, c.0.res);
                        if !uds.contains(&ud) {
                            return Some(Violation { sig: "ops|completion-with-foreign-user-data".into(), detail: format!("completion carries user_data {ud} which was not submitted in this batch") });
                        }
                        if got.insert(ud, res).is_some() {
                            return Some(Violation { sig: "ops|duplicate-completion".into(), detail: format!("two completions for user_data {ud}") });
                        }
                    }
                }
                if let Some(c) = ring.get_next_cqe() {
                    return Some(Violation { sig: "ops|extra-completion".into(), detail: format!("an extra completion (user_data {}) after all {} were reaped", c.0.user_data, ops.len()) });
                }
                // twin: the equivalent direct calls in the twin directory
                for (i, o) in ops.iter().enumerate() {
                    nops += 1;
                    let res = got[&uds[i]];
                    let errno_of = |r: isize| -> i32 { if r < 0 { -(unsafe { *libc::__errno_location() }) } else { r as i32 } };
                    let cn = |n: usize| std::ffi::CString::new(format!("n{n}")).unwrap();
                    let twin: i32 = match o {
                        Op::Mkdir(n) => errno_of(unsafe { libc::mkdirat(dfb.value(), cn(*n).as_ptr(), 0o755) } as isize),
                        Op::Open(x, creat) => {
                            let r = unsafe { libc::openat(dfb.value(), cn(*x / 8).as_ptr(), if *creat { libc::O_RDWR | libc::O_CREAT } else { libc::O_RDWR }, 0o644) };
                            if r >= 0 {
                                fds_b[*x % 8] = Some(Fd::try_new(r).unwrap());
                            }
                            errno_of(r as isize)
                        }
                        Op::Writev(sl, data, _) => match fds_b[*sl] {
                            Some(f) => errno_of(unsafe { libc::pwrite(f.value(), data.as_ptr().cast(), data.len(), 0) }),
                            None => -9,
                        },
                        Op::Readv(sl, len) => match fds_b[*sl] {
                            Some(f) => {
                                let mut b = vec![0u8; *len];
                                let r = unsafe { libc::pread(f.value(), b.as_mut_ptr().cast(), *len, 0) };
                                if r >= 0 && res >= 0 && b[..r as usize] != rbufs[i][..(res as usize).min(rbufs[i].len())] {
                                    return Some(Violation { sig: "ops|readv|wrong-data".into(), detail: format!("readv through the ring returned different bytes than pread ({res} vs {r} bytes)") });
                                }
                                errno_of(r)
                            }
                            None => -9,
                        },
                        Op::Statx(n) => {
                            let mut st: libc::stat = unsafe { std::mem::zeroed() };
                            let r = unsafe { libc::fstatat(dfb.value(), cn(*n).as_ptr(), &mut st, 0) };
                            if r == 0 && res == 0 && statxs[i].size() != st.st_size as u64 {
                                return Some(Violation { sig: "ops|statx|wrong-size".into(), detail: format!("statx size {} vs fstatat {}", statxs[i].size(), st.st_size) });
                            }
                            errno_of(r as isize)
                        }
                        Op::Rename(a, b) => errno_of(unsafe { libc::renameat(dfb.value(), cn(*a).as_ptr(), dfb.value(), cn(*b).as_ptr()) } as isize),
                        Op::Unlink(n, rm) => errno_of(unsafe { libc::unlinkat(dfb.value(), cn(*n).as_ptr(), if *rm { libc::AT_REMOVEDIR } else { 0 }) } as isize),
                        Op::Close(sl) => match fds_b[*sl].take() {
                            Some(f) => errno_of(unsafe { libc::close(f.value()) } as isize),
                            None => -9,
                        },
                        Op::Timeout => -62,
                        Op::Socket => {
                            let r = unsafe { libc::socket(libc::AF_UNIX, libc::SOCK_STREAM | libc::SOCK_CLOEXEC, 0) };
                            if r >= 0 {
                                unsafe { libc::close(r) };
                            }
                            if r >= 0 { 0 } else { errno_of(-1) }
                        }
                    };
                    // ring-side bookkeeping of descriptors
                    let norm_res = match o {
                        Op::Open(x, _) => {
                            if res >= 0 {
                                fds_a[*x % 8] = Some(Fd::try_new(res).unwrap());
                            }
                            res.min(0)
                        }
                        Op::Socket => {
                            if res >= 0 {
                                unsafe { libc::close(res) };
                            }
                            res.min(0)
                        }
                        Op::Close(sl) => {
                            if res == 0 {
                                fds_a[*sl] = None;
                            }
                            res
                        }
                        _ => res,
                    };
                    let norm_twin = match o {
                        Op::Open(..) => twin.min(0),
                        _ => twin,
                    };
                    if norm_res < 0 {
                        nerr_ops += 1;
                    }
                    log.push(format!("{o:?} -> ring {norm_res} twin {norm_twin}").chars().take(90).collect());
                    if norm_res != norm_twin {
                        let name = format!("{o:?}");
                        let kind = name.split('(').next().unwrap_or("op").to_string();
                        return Some(Violation { sig: format!("ops|{kind}|result-differs"), detail: format!("{name}: completion res {res}, the direct system call gives {twin}").chars().take(300).collect() });
                    }
                }
                let (a, b) = (dir_digest(&da), dir_digest(&db));
                if a != b {
                    return Some(Violation { sig: "ops|side-effects-differ".into(), detail: format!("after a batch of {:?} the ring's directory and the twin's differ: {:?} vs {:?}", ops.iter().map(|o| format!("{o:?}").chars().take(20).collect::<String>()).collect::<Vec<_>>(), a.keys().map(|k| String::from_utf8_lossy(k).to_string()).collect::<Vec<_>>(), b.keys().map(|k| String::from_utf8_lossy(k).to_string()).collect::<Vec<_>>()) });
                }
            }
            for f in fds_a.iter().chain(fds_b.iter()).flatten() {
                unsafe { libc::close(f.value()) };
            }
            unsafe {
                libc::close(dfa.value());
                libc::close(dfb.value());
            }
            drop(ring);
            teardown_verdict(&led, "after-batches")
        }));
        viol = match r {
            Ok(v) => v,
            Err(_) => {
                let (msg, loc) = sched::take_last_panic().unwrap_or_default();
                let loc = sched::short_loc(&loc);
                Some(Violation { sig: format!("panic|{loc}"), detail: format!("panic at {loc}: {msg}") })
            }
        };
    });
    let _ = std::fs::remove_dir_all(&base);
    let mut out = RunOut::default();
    out.violation = viol;
    let mut h = u64::from(entries);
    for l in &log {
        h = simk::dec::mix(&[h, simk::dec::hash_str(l)]);
    }
    out.hash = h;
    out.shape = h;
    out.nontrivial = nops >= 4 && nerr_ops >= 1;
    out.evals = 0;
    out.counters.insert("ops.compared_with_twin", nops);
    out.counters.insert("ops.negative_results", nerr_ops);
    out.counters.insert("io_uring_enter_calls", led.n_enter.get());
    out.counters.insert("probe.single_mmap_kernel", u64::from(led.maps.borrow().len() == 2));
    if opts.record {
        out.events = log.clone();
        out.sample = Some(json!({"kind": "operation batches vs direct twins", "ring_entries": entries, "batches": nbatches, "ops": log.iter().take(12).collect::<Vec<_>>(), "ring_mappings": led.maps.borrow().len()}));
    }
    out.decisions = std::mem::take(&mut sim.dec.log);
    out
}

/// Setup/teardown under faults: real kernel or the ring stub of C17 (both mmap layouts).
fn run_teardown(dec: Dec, opts: &RunOpts) -> RunOut {
    let mut sim = Sim::new(dec, SimCfg { record: opts.record, ..SimCfg::default() });
    let use_stub = sim.dec.chance(K::Cfg, 1, 2);
    let entries = 1u32 << sim.dec.choose(K::Cfg, 4);
    let fail = if sim.dec.chance(K::Fault, 1, 2) { Some((sim.dec.choose(K::Fault, 4), *sim.dec.pick(K::Fault, &[12, 1, 14]))) } else { None };
    let mut viol = None;
    let mut label = String::new();
    let mut fired = false;
    if use_stub {
        let single = sim.dec.chance(K::Cfg, 1, 2);
        let stub = crate::c17::RingStub::new(entries, entries * 2, single, false, false, 0, 0);
        // stub-side fault: only the setup call itself (the stub has no failing mmaps)
        stub.fail_setup.set(matches!(fail, Some((0, _))));
        sim.set_kernel(&stub);
        label = format!("stub-{}", if single { "single-mmap" } else { "two-mmaps" });
        sched::with_installed(&mut sim, || {
            let r = setup_io_uring(entries, IoUringParamFlags::empty(), 0, 0);
            fired = stub.fail_setup.get();
            drop(r);
            let maps = stub.maps.borrow().clone();
            let unmaps = stub.unmaps.borrow().clone();
            for (i, m) in maps.iter().enumerate() {
                let n = unmaps.iter().filter(|u| *u == m).count();
                if n == 0 {
                    viol = Some(Violation { sig: format!("teardown|mapping-not-released|{label}"), detail: format!("ring mapping #{i} ({} bytes) never unmapped", m.1) });
                } else if n > 1 {
                    viol = Some(Violation { sig: format!("teardown|mapping-released-twice|{label}"), detail: format!("ring mapping #{i} ({} bytes) unmapped {n} times: under IORING_FEAT_SINGLE_MMAP the completion ring shares the submission ring's mapping", m.1) });
                }
            }
            if viol.is_none() {
                if let Some(u) = unmaps.iter().find(|u| !maps.contains(u)) {
                    viol = Some(Violation { sig: format!("teardown|foreign-range-unmapped|{label}"), detail: format!("munmap of {} bytes that is not one of the ring's mappings", u.1) });
                }
            }
            if viol.is_none() && stub.fd.get() >= 0 && stub.closes.get() != 1 {
                viol = Some(Violation { sig: format!("teardown|ring-fd-closed-{}-times|{label}", stub.closes.get()), detail: "ring descriptor".into() });
            }
        });
    } else {
        let led = Ledger { ring_fd: Cell::new(-1), maps: RefCell::new(Vec::new()), foreign_unmaps: RefCell::new(Vec::new()), closes_of_ring: Cell::new(0), fail_call: Cell::new(fail), setup_calls: Cell::new(0), fired: Cell::new(false), n_enter: Cell::new(0) };
        sim.set_kernel(&led);
        label = "real-kernel".into();
        sched::with_installed(&mut sim, || {
            let r = setup_io_uring(entries, IoUringParamFlags::empty(), 0, 0);
            fired = led.fired.get();
            if fired && r.is_ok() {
                viol = Some(Violation { sig: "setup|error-swallowed".into(), detail: "a failing setup call was reported as success".into() });
            }
            drop(r);
            if viol.is_none() {
                viol = teardown_verdict(&led, if fired { "after-failed-setup" } else { "after-drop" });
            }
        });
    }
    let mut out = RunOut::default();
    out.violation = viol;
    out.hash = simk::dec::mix(&[u64::from(entries), u64::from(use_stub), u64::from(fired), simk::dec::hash_str(&label), fail.map_or(0, |f| u64::from(f.0) << 8 | f.1 as u64)]);
    out.shape = out.hash;
    out.nontrivial = fired;
    out.counters.insert("fault.setup_call_failed", u64::from(fired));
    out.counters.insert("probe.teardown_checked", 1);
    if opts.record {
        out.events = vec![format!("setup+drop on {label}, entries {entries}, fault {fail:?} fired {fired}")];
        out.sample = Some(json!({"kind": "setup/teardown ledger", "backend": label, "entries": entries, "fault": format!("{fail:?}"), "fired": fired}));
    }
    out.decisions = std::mem::take(&mut sim.dec.log);
    out
}

impl Check for C18 {
    fn id(&self) -> &'static str {
        "C18"
    }
    fn level(&self) -> &'static str {
        "exploration"
    }
    fn engine(&self) -> &'static str {
        "simk (engine A): pass-through to the real kernel ring with a setup/teardown ledger; ring stub for the single-mmap layout"
    }
    fn cases(&self, tier: Tier) -> u64 {
        match tier {
            Tier::Quick => 6_000,
            Tier::Thorough => 400_000,
        }
    }
    fn workers(&self, _tier: Tier) -> usize {
        8
    }
    fn rule(&self) -> String {
        "even cases = one ring (1..64 entries) driven with 4 (thorough: up to 40) seeded batches of 1..8 independent entries drawn from mkdirat, openat (create or not), writev (1..3 iovecs), readv, statx, renameat, unlinkat (file/dir), close, timeout, socket, incl. operations that must fail (missing names, closed descriptors); each batch is reaped completely, completions are matched by user_data (the kernel's completion order is not controlled) and every result is compared with the equivalent direct system call executed in a twin directory, then both directories are compared; exactly one completion per submission. odd cases = setup + drop with a mapping/descriptor ledger at the system-call seam, on the real kernel and on the ring stub (both IORING_FEAT_SINGLE_MMAP and two-mapping layouts), with io_uring_setup or the 1st/2nd/3rd mmap failing by decision: every ring mapping unmapped exactly once with its own length, nothing else unmapped, descriptor closed exactly once, nothing left after a failed setup. non-trivial = batch run with >=4 compared operations incl. a failing one, or a setup fault that fired; distinct = hash of configuration and results".into()
    }
    fn assumptions(&self) -> Vec<String> {
        vec![
            "the real kernel executes the ring: its completion order and worker threads are not controlled; results are normalised by user_data and batches contain mutually independent entries".into(),
            "fixed-buffer read/write, connect/accept, sendmsg/recvmsg, poll_add and linked chains are not generated".into(),
            "descriptor-returning operations are compared by success/errno, not by number".into(),
        ]
    }
    fn components(&self) -> Value {
        json!({"real": ["rusl SQE constructors, setup_io_uring, io_uring_enter, IoUring ring code and Drop", "the kernel's io_uring implementation (operation batches)", "libc direct calls as twins"], "stub": ["ring stub for the single-mmap teardown layout", "failing setup calls (-errno at the sc seam)"]})
    }
    fn run(&self, case: u64, dec: Dec, opts: &RunOpts) -> RunOut {
        if case % 2 == 1 {
            run_teardown(dec, opts)
        } else {
            let nb = if opts.tier == Tier::Thorough && case % 16 == 0 { 40 } else { 4 };
            run_ops(dec, opts, case, nb)
        }
    }
}
