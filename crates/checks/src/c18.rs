//! C18 — io_uring operations agree with their direct system-call twins; teardown releases the
//! descriptor and every mapping exactly once.  The REAL kernel executes the ring; the simulator
//! controls the generated batches, the system-call seam (setup/teardown ledger, setup faults) and
//! normalises the kernel's completion order by user_data.

use rusl::io_uring::{io_uring_enter, setup_io_uring};
use rusl::platform::*;
use rusl::string::unix_str::UnixString;
use serde_json::{json, Value};
use simk::dec::{Dec, K};
use simk::kern::{self, is_err, neg};
use simk::runner::{Check, RunOpts, RunOut, Tier};
use simk::sched::{self, Kernel, Sim, SimCfg, Violation};
use std::cell::{Cell, RefCell};
use std::collections::BTreeMap;
use std::os::unix::ffi::OsStrExt;

pub struct C18;

/// Pass-through kernel with a mapping/descriptor ledger for the ring and setup faults.
struct Ledger {
    ring_fd: Cell<i32>,
    maps: RefCell<Vec<(usize, usize, u32)>>,
    foreign_unmaps: RefCell<Vec<(usize, usize)>>,
    closes_of_ring: Cell<u32>,
    fail_call: Cell<Option<(u32, i32)>>,
    setup_calls: Cell<u32>,
    fired: Cell<bool>,
    n_enter: Cell<u64>,
}

impl Kernel for Ledger {
    fn syscall(&self, nr: usize, a: [usize; 6]) -> usize {
        let setup_phase = matches!(nr, sc::nr::IO_URING_SETUP | sc::nr::MMAP);
        if setup_phase {
            let i = self.setup_calls.get();
            self.setup_calls.set(i + 1);
            if let Some((at, e)) = self.fail_call.get() {
                if at == i {
                    self.fired.set(true);
                    return neg(e);
                }
            }
        }
        match nr {
            sc::nr::IO_URING_SETUP => {
                let r = kern::real(nr, a);
                if !is_err(r) {
                    self.ring_fd.set(r as i32);
                }
                r
            }
            sc::nr::MMAP => {
                let r = kern::real(nr, a);
                if !is_err(r) && a[4] as i32 == self.ring_fd.get() && self.ring_fd.get() >= 0 {
                    self.maps.borrow_mut().push((r, a[1], 0));
                }
                r
            }
            sc::nr::MUNMAP => {
                let mut hit = false;
                for m in self.maps.borrow_mut().iter_mut() {
                    if m.0 == a[0] && m.1 == a[1] {
                        m.2 += 1;
                        hit = true;
                    }
                }
                if !hit {
                    self.foreign_unmaps.borrow_mut().push((a[0], a[1]));
                    // do not let a stray munmap damage the harness
                    return 0;
                }
                if self.maps.borrow().iter().any(|m| m.0 == a[0] && m.1 == a[1] && m.2 > 1) {
                    // second release of the same range: recorded, not executed
                    return 0;
                }
                kern::real(nr, a)
            }
            sc::nr::CLOSE => {
                if a[0] as i32 == self.ring_fd.get() {
                    self.closes_of_ring.set(self.closes_of_ring.get() + 1);
                    if self.closes_of_ring.get() > 1 {
                        return neg(9);
                    }
                }
                kern::real(nr, a)
            }
            sc::nr::IO_URING_ENTER => {
                self.n_enter.set(self.n_enter.get() + 1);
                const GETEVENTS: usize = 1;
                const EXT_ARG: usize = 8;
                if a[2] > 0 && a[3] & GETEVENTS != 0 && a[3] & EXT_ARG == 0 {
                    // a wait for completions is bounded (watchdog, real time): a ring that lost an
                    // entry must end the run with a verdict, not hang it
                    let ts: [i64; 2] = [5, 0];
                    let arg: [u64; 3] = [0, 0, ts.as_ptr() as u64];
                    kern::real(nr, [a[0], a[1], a[2], a[3] | EXT_ARG, arg.as_ptr() as usize, 24])
                } else {
                    kern::real(nr, a)
                }
            }
            _ => kern::real(nr, a),
        }
    }
}

fn teardown_verdict(l: &Ledger, label: &str) -> Option<Violation> {
    for (i, m) in l.maps.borrow().iter().enumerate() {
        if m.2 == 0 {
            return Some(Violation { sig: format!("teardown|mapping-not-released|{label}"), detail: format!("ring mapping #{i} ({} bytes) is still mapped after drop / failed setup", m.1) });
        }
        if m.2 > 1 {
            return Some(Violation { sig: format!("teardown|mapping-released-twice|{label}"), detail: format!("ring mapping #{i} ({} bytes) was unmapped {} times", m.1, m.2) });
        }
    }
    if let Some((a, len)) = l.foreign_unmaps.borrow().first() {
        let _ = a;
        return Some(Violation { sig: format!("teardown|foreign-range-unmapped|{label}"), detail: format!("munmap of a {len}-byte range that is not one of the ring's mappings (wrong address or length)") });
    }
    if l.ring_fd.get() >= 0 {
        match l.closes_of_ring.get() {
            1 => {}
            0 => return Some(Violation { sig: format!("teardown|ring-fd-not-closed|{label}"), detail: "the io_uring descriptor is still open".into() }),
            n => return Some(Violation { sig: format!("teardown|ring-fd-closed-twice|{label}"), detail: format!("closed {n} times") }),
        }
    }
    None
}

#[derive(Clone, Debug)]
enum Op {
    Mkdir(usize),
    /// name*8+slot, variant (flag kind | mode kind << 4, see `open_variant`)
    Open(usize, u32),
    Writev(usize, Vec<u8>, usize),
    Readv(usize, usize),
    Statx(usize),
    Rename(usize, usize),
    Unlink(usize, bool),
    Close(usize),
    Timeout,
    Socket,
}

/// flag kind (low 4 bits) and mode kind of an openat entry: the wrapper's flags, the same flags for
/// the direct call, the mode
fn open_variant(v: u32) -> (OpenFlags, i32, u32) {
    let (f, l) = match v & 15 {
        0 => (OpenFlags::O_RDWR, libc::O_RDWR),
        4 => (OpenFlags::O_RDWR | OpenFlags::O_CREAT | OpenFlags::O_EXCL, libc::O_RDWR | libc::O_CREAT | libc::O_EXCL),
        5 => (OpenFlags::O_WRONLY | OpenFlags::O_CREAT | OpenFlags::O_APPEND, libc::O_WRONLY | libc::O_CREAT | libc::O_APPEND),
        6 => (OpenFlags::O_RDWR | OpenFlags::O_TMPFILE, libc::O_RDWR | libc::O_TMPFILE),
        7 => (OpenFlags::O_WRONLY | OpenFlags::O_TMPFILE, libc::O_WRONLY | libc::O_TMPFILE),
        8 => (OpenFlags::O_RDONLY | OpenFlags::O_DIRECTORY, libc::O_RDONLY | libc::O_DIRECTORY),
        9 => (OpenFlags::O_RDWR | OpenFlags::O_CREAT | OpenFlags::O_TRUNC, libc::O_RDWR | libc::O_CREAT | libc::O_TRUNC),
        _ => (OpenFlags::O_RDWR | OpenFlags::O_CREAT, libc::O_RDWR | libc::O_CREAT),
    };
    let mode = [0o644, 0o600, 0o640, 0o755, 0o444, 0o666, 0o200][(v >> 4) as usize % 7];
    (f, l, mode)
}

fn open_truncates(v: u32) -> bool {
    v & 15 == 9
}

/// (st_mode, F_GETFL) of an open descriptor
fn fd_facts(fd: i32) -> (u32, i32) {
    let mut st: libc::stat = unsafe { std::mem::zeroed() };
    let r = unsafe { libc::fstat(fd, &mut st) };
    (if r == 0 { st.st_mode } else { u32::MAX }, unsafe { libc::fcntl(fd, libc::F_GETFL) })
}

fn dir_digest(dir: &str) -> BTreeMap<Vec<u8>, (bool, Vec<u8>)> {
    let mut m = BTreeMap::new();
    if let Ok(rd) = std::fs::read_dir(dir) {
        for e in rd.flatten() {
            let md = e.metadata().ok();
            let isdir = md.as_ref().is_some_and(std::fs::Metadata::is_dir);
            let mut content = if isdir { Vec::new() } else { std::fs::read(e.path()).unwrap_or_default() };
            // permission bits are part of what mkdirat / openat were asked for
            use std::os::unix::fs::PermissionsExt;
            let mode = md.as_ref().map_or(0, |m| m.permissions().mode() & 0o7777);
            content.extend_from_slice(&mode.to_le_bytes());
            m.insert(e.file_name().as_bytes().to_vec(), (isdir, content));
        }
    }
    m
}

fn run_ops(dec: Dec, opts: &RunOpts, slot: u64, nbatches: usize) -> RunOut {
    let base = format!("/verif/work/c18.{}.{}", unsafe { libc::getpid() }, slot % 2);
    let _ = std::fs::remove_dir_all(&base);
    let (da, db) = (format!("{base}/ring"), format!("{base}/twin"));
    std::fs::create_dir_all(&da).unwrap();
    std::fs::create_dir_all(&db).unwrap();
    let mut sim = Sim::new(dec, SimCfg { record: opts.record, ..SimCfg::default() });
    // requested sizes: powers of two and sizes the kernel rounds up
    let entries = if sim.dec.chance(K::Cfg, 1, 3) { 1 + sim.dec.choose(K::Cfg, 64) } else { 1u32 << sim.dec.choose(K::Cfg, 7) };
    let led = Ledger { ring_fd: Cell::new(-1), maps: RefCell::new(Vec::new()), foreign_unmaps: RefCell::new(Vec::new()), closes_of_ring: Cell::new(0), fail_call: Cell::new(None), setup_calls: Cell::new(0), fired: Cell::new(false), n_enter: Cell::new(0) };
    sim.set_kernel(&led);
    let mut viol: Option<Violation> = None;
    let mut log: Vec<String> = Vec::new();
    let mut nops = 0u64;
    let mut nerr_ops = 0u64;
    let mut nopen_cmp = 0u64;
    let mut ntmpfile = 0u64;
    sched::with_installed(&mut sim, || {
        let r = std::panic::catch_unwind(std::panic::AssertUnwindSafe(|| -> Option<Violation> {
            let s = sched::sim().unwrap();
            // set-up flag combinations the running kernel accepts (big SQEs / CQEs change the slot stride)
            let flags = match s.dec.choose(K::Cfg, 4) {
                0 => IoUringParamFlags::empty(),
                1 => IoUringParamFlags::IORING_SETUP_SQE128,
                2 => IoUringParamFlags::IORING_SETUP_CQE32,
                _ => IoUringParamFlags::IORING_SETUP_SQE128 | IoUringParamFlags::IORING_SETUP_CQE32,
            };
            let mut ring = match setup_io_uring(entries, flags, 0, 0) {
                Ok(r) => r,
                Err(_) => match setup_io_uring(entries, IoUringParamFlags::empty(), 0, 0) {
                    Ok(r) => r,
                    Err(e) => return Some(Violation { sig: "ops|setup-failed".into(), detail: format!("{e:?}") }),
                },
            };
            let dfa = rusl::unistd::open(&UnixString::try_from_string(da.clone()).unwrap(), OpenFlags::O_RDONLY | OpenFlags::O_DIRECTORY).unwrap();
            let dfb = rusl::unistd::open(&UnixString::try_from_string(db.clone()).unwrap(), OpenFlags::O_RDONLY | OpenFlags::O_DIRECTORY).unwrap();
            let names: Vec<UnixString> = (0..8).map(|i| UnixString::try_from_string(format!("n{i}")).unwrap()).collect();
            let mut fds_a: Vec<Option<Fd>> = vec![None; 6];
            let mut fds_b: Vec<Option<Fd>> = vec![None; 6];
            let mut next_ud: u64 = 1;
            for _b in 0..nbatches {
                let bsize = 1 + s.dec.choose(K::Op, entries.min(8)) as usize;
                // independent entries: each touches its own name / descriptor slot
                let mut used_names = [false; 8];
                let mut used_slots = [false; 6];
                let mut content_op_used = false;
                let mut ops: Vec<Op> = Vec::new();
                for _ in 0..bsize {
                    let n = s.dec.choose(K::Arg, 8) as usize;
                    let sl = s.dec.choose(K::Arg, 6) as usize;
                    let op = match s.dec.choose(K::Op, 12) {
                        0 => Op::Mkdir(n),
                        1 | 2 => Op::Open(n, s.dec.choose(K::Arg, 12) | s.dec.choose(K::Arg, 7) << 4),
                        3 | 4 => {
                            let len = *s.dec.pick(K::Arg, &[1usize, 7, 100, 4096, 9000]);
                            let sd = s.dec.choose(K::Arg, 250) as u8;
                            Op::Writev(sl, (0..len).map(|i| (i as u8).wrapping_add(sd)).collect(), 1 + s.dec.choose(K::Arg, 3) as usize)
                        }
                        5 => Op::Readv(sl, *s.dec.pick(K::Arg, &[1usize, 16, 5000])),
                        6 => Op::Statx(n),
                        7 => Op::Rename(n, s.dec.choose(K::Arg, 8) as usize),
                        8 => Op::Unlink(n, s.dec.chance(K::Arg, 1, 2)),
                        9 => Op::Close(sl),
                        10 => Op::Timeout,
                        _ => Op::Socket,
                    };
                    let (nn, ss): (Vec<usize>, Vec<usize>) = match &op {
                        Op::Mkdir(n) | Op::Statx(n) | Op::Unlink(n, _) => (vec![*n], vec![]),
                        Op::Open(n, _) => (vec![*n], vec![sl]),
                        Op::Rename(a, b) => (vec![*a, *b], vec![]),
                        Op::Writev(x, ..) | Op::Readv(x, _) | Op::Close(x) => (vec![], vec![*x]),
                        Op::Timeout | Op::Socket => (vec![], vec![]),
                    };
                    if nn.iter().any(|x| used_names[*x]) || ss.iter().any(|x| used_slots[*x]) || matches!(&op, Op::Rename(a, b) if a == b) {
                        continue;
                    }
                    // two descriptors may designate the same file: at most one operation per batch
                    // that reads or writes file content or size keeps the entries independent
                    if matches!(op, Op::Writev(..) | Op::Readv(..) | Op::Statx(_)) || matches!(op, Op::Open(_, v) if open_truncates(v)) {
                        if content_op_used {
                            continue;
                        }
                        content_op_used = true;
                    }
                    if let Op::Open(..) = op {
                        if fds_a[sl].is_some() {
                            continue;
                        }
                    }
                    for x in nn {
                        used_names[x] = true;
                    }
                    for x in ss {
                        used_slots[x] = true;
                    }
                    ops.push(match op {
                        Op::Open(n, c) => Op::Open(n * 8 + sl, c),
                        o => o,
                    });
                }
                if ops.is_empty() {
                    continue;
                }
                // buffers that must outlive submission
                let ts = TimeSpec::new(0, 1_000_000);
                let mut rbufs: Vec<Vec<u8>> = ops.iter().map(|o| if let Op::Readv(_, l) = o { vec![0u8; *l] } else { Vec::new() }).collect();
                let mut statxs: Vec<Statx> = ops.iter().map(|_| unsafe { core::mem::zeroed() }).collect();
                let mut iovs_w: Vec<Vec<IoSlice>> = Vec::new();
                let mut iovs_r: Vec<Vec<IoSliceMut>> = Vec::new();
                for (i, o) in ops.iter().enumerate() {
                    match o {
                        Op::Writev(_, data, parts) => {
                            let step = data.len().div_ceil(*parts).max(1);
                            iovs_w.push(data.chunks(step).map(IoSlice::new).collect());
                        }
                        _ => iovs_w.push(Vec::new()),
                    }
                    let _ = i;
                }
                for rb in &mut rbufs {
                    let p: &mut [u8] = unsafe { std::slice::from_raw_parts_mut(rb.as_mut_ptr(), rb.len()) };
                    iovs_r.push(vec![IoSliceMut::new(p)]);
                }
                // submit
                let mut uds: Vec<u64> = Vec::new();
                let mut expected_bad_fd = vec![false; ops.len()];
                for (i, o) in ops.iter().enumerate() {
                    let ud = next_ud;
                    next_ud += 1;
                    uds.push(ud);
                    let fl = IoUringSQEFlags::empty();
                    let bad = Fd::try_new(1_000_000).unwrap();
                    let e = unsafe {
                        match o {
                            Op::Mkdir(n) => IoUringSubmissionQueueEntry::new_mkdirat(Some(dfa), &names[*n], Mode::from(0o755), ud, fl),
                            Op::Open(x, v) => IoUringSubmissionQueueEntry::new_openat(Some(dfa), &names[*x / 8], open_variant(*v).0, Mode::from(open_variant(*v).2), ud, fl),
                            Op::Writev(sl, _, _) => {
                                expected_bad_fd[i] = fds_a[*sl].is_none();
                                IoUringSubmissionQueueEntry::new_writev(fds_a[*sl].unwrap_or(bad), iovs_w[i].as_ptr() as usize, iovs_w[i].len() as u32, ud, fl)
                            }
                            Op::Readv(sl, _) => {
                                expected_bad_fd[i] = fds_a[*sl].is_none();
                                IoUringSubmissionQueueEntry::new_readv(fds_a[*sl].unwrap_or(bad), iovs_r[i].as_mut_ptr() as usize, 1, ud, fl)
                            }
                            Op::Statx(n) => IoUringSubmissionQueueEntry::new_statx(Some(dfa), &names[*n], StatxFlags::empty(), StatxMask::STATX_SIZE | StatxMask::STATX_TYPE, &mut statxs[i], ud, fl),
                            Op::Rename(a, b) => IoUringSubmissionQueueEntry::new_rename_at(Some(dfa), Some(dfa), &names[*a], &names[*b], RenameFlags::empty(), ud, fl),
                            Op::Unlink(n, rm) => IoUringSubmissionQueueEntry::new_unlink_at(Some(dfa), &names[*n], *rm, ud, fl),
                            Op::Close(sl) => {
                                expected_bad_fd[i] = fds_a[*sl].is_none();
                                IoUringSubmissionQueueEntry::new_close(fds_a[*sl].unwrap_or(bad), ud, fl)
                            }
                            Op::Timeout => IoUringSubmissionQueueEntry::new_timeout(&ts, true, None, ud, fl),
                            Op::Socket => IoUringSubmissionQueueEntry::new_socket(AddressFamily::AF_UNIX, SocketOptions::new(SocketType::SOCK_STREAM, SocketFlags::SOCK_CLOEXEC), 0, ud, fl),
                        }
                    };
                    let Some(slot) = ring.get_next_sqe_slot() else {
                        return Some(Violation { sig: "ops|no-sqe-slot".into(), detail: format!("no slot for entry {i} of a batch of {} on a ring of {entries}", ops.len()) });
                    };
                    unsafe { slot.write(e) };
                }
                ring.flush_submission_queue();
                let mut waited = 0;
                let mut got: BTreeMap<u64, i32> = BTreeMap::new();
                while got.len() < ops.len() {
                    match io_uring_enter(ring.fd, (ops.len() - waited.min(ops.len())) as u32, (ops.len() - got.len()) as u32, IoUringEnterFlags::IORING_ENTER_GETEVENTS) {
                        Ok(_) => {}
                        Err(e) if e.code == Some(rusl::error::Errno::EINTR) => continue,
                        Err(e) if e.code == Some(rusl::error::Errno::ETIME) => return Some(Violation { sig: "ops|completion-missing".into(), detail: format!("{} of {} submitted entries produced no completion within 5 s", ops.len() - got.len(), ops.len()) }),
                        Err(e) => return Some(Violation { sig: "ops|enter-failed".into(), detail: format!("{e:?}") }),
                    }
                    waited = ops.len();
                    while let Some(c) = ring.get_next_cqe() {
                        let (ud, res) = (c.0.user_data, c.0.res);
                        if !uds.contains(&ud) {
                            return Some(Violation { sig: "ops|completion-with-foreign-user-data".into(), detail: format!("completion carries user_data {ud} which was not submitted in this batch") });
                        }
                        if got.insert(ud, res).is_some() {
                            return Some(Violation { sig: "ops|duplicate-completion".into(), detail: format!("two completions for user_data {ud}") });
                        }
                    }
                }
                if let Some(c) = ring.get_next_cqe() {
                    return Some(Violation { sig: "ops|extra-completion".into(), detail: format!("an extra completion (user_data {}) after all {} were reaped", c.0.user_data, ops.len()) });
                }
                // twin: the equivalent direct calls in the twin directory
                for (i, o) in ops.iter().enumerate() {
                    nops += 1;
                    let res = got[&uds[i]];
                    let errno_of = |r: isize| -> i32 { if r < 0 { -(unsafe { *libc::__errno_location() }) } else { r as i32 } };
                    let cn = |n: usize| std::ffi::CString::new(format!("n{n}")).unwrap();
                    let twin: i32 = match o {
                        Op::Mkdir(n) => errno_of(unsafe { libc::mkdirat(dfb.value(), cn(*n).as_ptr(), 0o755) } as isize),
                        Op::Open(x, v) => {
                            let r = unsafe { libc::openat(dfb.value(), cn(*x / 8).as_ptr(), open_variant(*v).1, open_variant(*v).2) };
                            if r >= 0 {
                                fds_b[*x % 8] = Some(Fd::try_new(r).unwrap());
                            }
                            errno_of(r as isize)
                        }
                        Op::Writev(sl, data, _) => match fds_b[*sl] {
                            Some(f) => errno_of(unsafe { libc::pwrite(f.value(), data.as_ptr().cast(), data.len(), 0) }),
                            None => -9,
                        },
                        Op::Readv(sl, len) => match fds_b[*sl] {
                            Some(f) => {
                                let mut b = vec![0u8; *len];
                                let r = unsafe { libc::pread(f.value(), b.as_mut_ptr().cast(), *len, 0) };
                                if r >= 0 && res >= 0 && b[..r as usize] != rbufs[i][..(res as usize).min(rbufs[i].len())] {
                                    return Some(Violation { sig: "ops|readv|wrong-data".into(), detail: format!("readv through the ring returned different bytes than pread ({res} vs {r} bytes)") });
                                }
                                errno_of(r)
                            }
                            None => -9,
                        },
                        Op::Statx(n) => {
                            let mut st: libc::stat = unsafe { std::mem::zeroed() };
                            let r = unsafe { libc::fstatat(dfb.value(), cn(*n).as_ptr(), &mut st, 0) };
                            if r == 0 && res == 0 && statxs[i].size() != st.st_size as u64 {
                                return Some(Violation { sig: "ops|statx|wrong-size".into(), detail: format!("statx size {} vs fstatat {}", statxs[i].size(), st.st_size) });
                            }
                            errno_of(r as isize)
                        }
                        Op::Rename(a, b) => errno_of(unsafe { libc::renameat(dfb.value(), cn(*a).as_ptr(), dfb.value(), cn(*b).as_ptr()) } as isize),
                        Op::Unlink(n, rm) => errno_of(unsafe { libc::unlinkat(dfb.value(), cn(*n).as_ptr(), if *rm { libc::AT_REMOVEDIR } else { 0 }) } as isize),
                        Op::Close(sl) => match fds_b[*sl].take() {
                            Some(f) => errno_of(unsafe { libc::close(f.value()) } as isize),
                            None => -9,
                        },
                        Op::Timeout => -62,
                        Op::Socket => {
                            let r = unsafe { libc::socket(libc::AF_UNIX, libc::SOCK_STREAM | libc::SOCK_CLOEXEC, 0) };
                            if r >= 0 {
                                unsafe { libc::close(r) };
                            }
                            if r >= 0 { 0 } else { errno_of(-1) }
                        }
                    };
                    // ring-side bookkeeping of descriptors
                    let norm_res = match o {
                        Op::Open(x, _) => {
                            if res >= 0 {
                                fds_a[*x % 8] = Some(Fd::try_new(res).unwrap());
                            }
                            res.min(0)
                        }
                        Op::Socket => {
                            if res >= 0 {
                                unsafe { libc::close(res) };
                            }
                            res.min(0)
                        }
                        Op::Close(sl) => {
                            if res == 0 {
                                fds_a[*sl] = None;
                            }
                            res
                        }
                        _ => res,
                    };
                    let norm_twin = match o {
                        Op::Open(..) => twin.min(0),
                        _ => twin,
                    };
                    if norm_res < 0 {
                        nerr_ops += 1;
                    }
                    log.push(format!("{o:?} -> ring {norm_res} twin {norm_twin}").chars().take(90).collect());
                    if norm_res != norm_twin {
                        let name = format!("{o:?}");
                        let kind = name.split('(').next().unwrap_or("op").to_string();
                        return Some(Violation { sig: format!("ops|{kind}|result-differs"), detail: format!("{name}: completion res {res}, the direct system call gives {twin}").chars().take(300).collect() });
                    }
                    if let Op::Open(x, v) = o {
                        if res >= 0 && twin >= 0 {
                            // what was opened, not only that something was: type, permission bits
                            // (an O_TMPFILE inode has no name the directory digest could see) and
                            // the status flags of the open file description
                            let (sa, sb) = (fd_facts(res as i32), fd_facts(twin));
                            nopen_cmp += 1;
                            if open_variant(*v).1 & libc::O_TMPFILE == libc::O_TMPFILE {
                                ntmpfile += 1;
                            }
                            if sa != sb {
                                return Some(Violation { sig: "ops|Open|opened-object-differs".into(), detail: format!("Open(name n{}, flags {:#o}, mode {:#o}): (st_mode, status flags) of the ring's descriptor ({:#o}, {:#o}), of the direct call's ({:#o}, {:#o})", x / 8, open_variant(*v).1, open_variant(*v).2, sa.0, sa.1, sb.0, sb.1) });
                            }
                        }
                    }
                }
                let (a, b) = (dir_digest(&da), dir_digest(&db));
                if a != b {
                    return Some(Violation { sig: "ops|side-effects-differ".into(), detail: format!("after a batch of {:?} the ring's directory and the twin's differ: {:?} vs {:?}", ops.iter().map(|o| format!("{o:?}").chars().take(20).collect::<String>()).collect::<Vec<_>>(), a.keys().map(|k| String::from_utf8_lossy(k).to_string()).collect::<Vec<_>>(), b.keys().map(|k| String::from_utf8_lossy(k).to_string()).collect::<Vec<_>>()) });
                }
            }
            for f in fds_a.iter().chain(fds_b.iter()).flatten() {
                unsafe { libc::close(f.value()) };
            }
            unsafe {
                libc::close(dfa.value());
                libc::close(dfb.value());
            }
            drop(ring);
            teardown_verdict(&led, "after-batches")
        }));
        viol = match r {
            Ok(v) => v,
            Err(_) => {
                let (msg, loc) = sched::take_last_panic().unwrap_or_default();
                let loc = sched::short_loc(&loc);
                Some(Violation { sig: format!("panic|{loc}"), detail: format!("panic at {loc}: {msg}") })
            }
        };
    });
    let _ = std::fs::remove_dir_all(&base);
    let mut out = RunOut::default();
    out.violation = viol;
    let mut h = u64::from(entries);
    for l in &log {
        h = simk::dec::mix(&[h, simk::dec::hash_str(l)]);
    }
    out.hash = h;
    out.shape = h;
    out.nontrivial = nops >= 4 && nerr_ops >= 1;
    out.evals = 0;
    out.counters.insert("ops.compared_with_twin", nops);
    out.counters.insert("ops.negative_results", nerr_ops);
    out.counters.insert("ops.opened_objects_compared", nopen_cmp);
    out.counters.insert("probe.tmpfile_opened_both_sides", ntmpfile);
    out.counters.insert("io_uring_enter_calls", led.n_enter.get());
    out.counters.insert("probe.single_mmap_kernel", u64::from(led.maps.borrow().len() == 2));
    if opts.record {
        out.events = log.clone();
        out.sample = Some(json!({"kind": "operation batches vs direct twins", "ring_entries": entries, "batches": nbatches, "ops": log.iter().take(12).collect::<Vec<_>>(), "ring_mappings": led.maps.borrow().len()}));
    }
    out.decisions = std::mem::take(&mut sim.dec.log);
    out
}

/// Setup/teardown under faults: real kernel or the ring stub of C17 (both mmap layouts).
fn run_teardown(dec: Dec, opts: &RunOpts) -> RunOut {
    let mut sim = Sim::new(dec, SimCfg { record: opts.record, ..SimCfg::default() });
    let use_stub = sim.dec.chance(K::Cfg, 1, 2);
    let entries = 1u32 << sim.dec.choose(K::Cfg, 4);
    let fail = if sim.dec.chance(K::Fault, 1, 2) { Some((sim.dec.choose(K::Fault, 4), *sim.dec.pick(K::Fault, &[12, 1, 14]))) } else { None };
    let mut viol = None;
    let mut label = String::new();
    let mut fired = false;
    if use_stub {
        let single = sim.dec.chance(K::Cfg, 1, 2);
        let stub = crate::c17::RingStub::new(entries, entries * 2, single, false, false, 0, 0);
        // stub-side faults: the setup call itself, or the 1st/2nd/3rd mmap of the ring (the
        // two-mapping layout's failure paths exist only here: real kernels map both rings at once)
        stub.fail_setup.set(matches!(fail, Some((0, _))));
        if let Some((k, _)) = fail {
            if k >= 1 {
                stub.fail_mmap_at.set(Some(k - 1));
            }
        }
        sim.set_kernel(&stub);
        label = format!("stub-{}", if single { "single-mmap" } else { "two-mmaps" });
        sched::with_installed(&mut sim, || {
            let r = setup_io_uring(entries, IoUringParamFlags::empty(), 0, 0);
            fired = stub.fail_setup.get() || stub.mmap_failed.get();
            if stub.mmap_failed.get() && r.is_ok() {
                viol = Some(Violation { sig: "setup|error-swallowed".into(), detail: "a failing mmap of the ring was reported as success".into() });
            }
            drop(r);
            let maps = stub.maps.borrow().clone();
            let unmaps = stub.unmaps.borrow().clone();
            if viol.is_some() {
                return;
            }
            for (i, m) in maps.iter().enumerate() {
                let n = unmaps.iter().filter(|u| *u == m).count();
                if n == 0 {
                    viol = Some(Violation { sig: format!("teardown|mapping-not-released|{label}"), detail: format!("ring mapping #{i} ({} bytes) never unmapped", m.1) });
                } else if n > 1 {
                    viol = Some(Violation { sig: format!("teardown|mapping-released-twice|{label}"), detail: format!("ring mapping #{i} ({} bytes) unmapped {n} times: under IORING_FEAT_SINGLE_MMAP the completion ring shares the submission ring's mapping", m.1) });
                }
            }
            if viol.is_none() {
                if let Some(u) = unmaps.iter().find(|u| !maps.contains(u)) {
                    viol = Some(Violation { sig: format!("teardown|foreign-range-unmapped|{label}"), detail: format!("munmap of {} bytes that is not one of the ring's mappings", u.1) });
                }
            }
            if viol.is_none() && stub.fd.get() >= 0 && stub.closes.get() != 1 {
                viol = Some(Violation { sig: format!("teardown|ring-fd-closed-{}-times|{label}", stub.closes.get()), detail: "ring descriptor".into() });
            }
        });
    } else {
        let led = Ledger { ring_fd: Cell::new(-1), maps: RefCell::new(Vec::new()), foreign_unmaps: RefCell::new(Vec::new()), closes_of_ring: Cell::new(0), fail_call: Cell::new(fail), setup_calls: Cell::new(0), fired: Cell::new(false), n_enter: Cell::new(0) };
        sim.set_kernel(&led);
        label = "real-kernel".into();
        sched::with_installed(&mut sim, || {
            let r = setup_io_uring(entries, IoUringParamFlags::empty(), 0, 0);
            fired = led.fired.get();
            if fired && r.is_ok() {
                viol = Some(Violation { sig: "setup|error-swallowed".into(), detail: "a failing setup call was reported as success".into() });
            }
            drop(r);
            if viol.is_none() {
                viol = teardown_verdict(&led, if fired { "after-failed-setup" } else { "after-drop" });
            }
        });
    }
    let mut out = RunOut::default();
    out.violation = viol;
    out.hash = simk::dec::mix(&[u64::from(entries), u64::from(use_stub), u64::from(fired), simk::dec::hash_str(&label), fail.map_or(0, |f| u64::from(f.0) << 8 | f.1 as u64)]);
    out.shape = out.hash;
    out.nontrivial = fired;
    out.counters.insert("fault.setup_call_failed", u64::from(fired));
    out.counters.insert("probe.teardown_checked", 1);
    if opts.record {
        out.events = vec![format!("setup+drop on {label}, entries {entries}, fault {fail:?} fired {fired}")];
        out.sample = Some(json!({"kind": "setup/teardown ledger", "backend": label, "entries": entries, "fault": format!("{fail:?}"), "fired": fired}));
    }
    out.decisions = std::mem::take(&mut sim.dec.log);
    out
}

// ---------------------------------------------------------------------------------------------
// Socket, poll, fixed-buffer and linked operations against their direct twins.
// ---------------------------------------------------------------------------------------------

type Sqe = IoUringSubmissionQueueEntry;

/// Submit the entries, reap exactly one completion per entry (matched by user_data).
fn submit_reap(ring: &mut IoUring, entries: Vec<(u64, Sqe)>) -> Result<BTreeMap<u64, i32>, Violation> {
    let n = entries.len();
    let uds: Vec<u64> = entries.iter().map(|e| e.0).collect();
    for (i, (_, e)) in entries.into_iter().enumerate() {
        let Some(slot) = ring.get_next_sqe_slot() else {
            return Err(Violation { sig: "ops|no-sqe-slot".into(), detail: format!("no slot for entry {i} of {n}") });
        };
        unsafe { slot.write(e) };
    }
    ring.flush_submission_queue();
    let mut submitted = false;
    let mut got: BTreeMap<u64, i32> = BTreeMap::new();
    while got.len() < n {
        match io_uring_enter(ring.fd, if submitted { 0 } else { n as u32 }, (n - got.len()) as u32, IoUringEnterFlags::IORING_ENTER_GETEVENTS) {
            Ok(_) => {}
            Err(e) if e.code == Some(rusl::error::Errno::EINTR) => continue,
            Err(e) if e.code == Some(rusl::error::Errno::ETIME) => return Err(Violation { sig: "ops|completion-missing".into(), detail: format!("{} of {n} submitted entries produced no completion within 5 s", n - got.len()) }),
            Err(e) => return Err(Violation { sig: "ops|enter-failed".into(), detail: format!("{e:?}") }),
        }
        submitted = true;
        while let Some(c) = ring.get_next_cqe() {
            let (ud, res) = (c.0.user_data, c.0.res);
            if !uds.contains(&ud) {
                return Err(Violation { sig: "ops|completion-with-foreign-user-data".into(), detail: format!("completion carries user_data {ud} which was not submitted in this batch") });
            }
            if got.insert(ud, res).is_some() {
                return Err(Violation { sig: "ops|duplicate-completion".into(), detail: format!("two completions for user_data {ud}") });
            }
        }
    }
    if let Some(c) = ring.get_next_cqe() {
        return Err(Violation { sig: "ops|extra-completion".into(), detail: format!("an extra completion (user_data {}) after all {n} were reaped", c.0.user_data) });
    }
    Ok(got)
}

fn errno() -> i32 {
    unsafe { *libc::__errno_location() }
}

fn sun(path: &str) -> (libc::sockaddr_un, u32) {
    let mut a: libc::sockaddr_un = unsafe { std::mem::zeroed() };
    a.sun_family = libc::AF_UNIX as u16;
    for (i, b) in path.bytes().enumerate() {
        a.sun_path[i] = b as libc::c_char;
    }
    (a, (2 + path.len() + 1) as u32)
}

fn unix_listener(path: &str) -> i32 {
    unsafe {
        let fd = libc::socket(libc::AF_UNIX, libc::SOCK_STREAM | libc::SOCK_CLOEXEC, 0);
        let (a, l) = sun(path);
        if fd < 0 || libc::bind(fd, std::ptr::from_ref(&a).cast(), l) != 0 || libc::listen(fd, 16) != 0 {
            simk::runner::harness_error(&format!("C18: cannot create listener {path}: errno {}", errno()));
        }
        fd
    }
}

fn unix_client(listener_path: &str, own_name: Option<&str>) -> i32 {
    unsafe {
        let fd = libc::socket(libc::AF_UNIX, libc::SOCK_STREAM | libc::SOCK_CLOEXEC, 0);
        if let Some(n) = own_name {
            let (a, l) = sun(n);
            libc::bind(fd, std::ptr::from_ref(&a).cast(), l);
        }
        let (a, l) = sun(listener_path);
        if fd < 0 || libc::connect(fd, std::ptr::from_ref(&a).cast(), l) != 0 {
            simk::runner::harness_error(&format!("C18: cannot connect to {listener_path}: errno {}", errno()));
        }
        fd
    }
}

/// A listening unix socket with an autobound address in the abstract namespace.
fn abstract_listener() -> i32 {
    unsafe {
        let fd = libc::socket(libc::AF_UNIX, libc::SOCK_STREAM | libc::SOCK_CLOEXEC, 0);
        let mut a: libc::sockaddr_un = std::mem::zeroed();
        a.sun_family = libc::AF_UNIX as u16;
        if fd < 0 || libc::bind(fd, std::ptr::from_ref(&a).cast(), 2) != 0 || libc::listen(fd, 16) != 0 {
            simk::runner::harness_error(&format!("C18: cannot create an autobound listener: errno {}", errno()));
        }
        fd
    }
}

fn inet_listener() -> (i32, u16) {
    unsafe {
        let fd = libc::socket(libc::AF_INET, libc::SOCK_STREAM | libc::SOCK_CLOEXEC, 0);
        let mut a: libc::sockaddr_in = std::mem::zeroed();
        a.sin_family = libc::AF_INET as u16;
        a.sin_addr.s_addr = u32::from_ne_bytes([127, 0, 0, 1]);
        let mut l = 16u32;
        if fd < 0 || libc::bind(fd, std::ptr::from_ref(&a).cast(), 16) != 0 || libc::listen(fd, 16) != 0 || libc::getsockname(fd, std::ptr::from_mut(&mut a).cast(), &mut l) != 0 {
            simk::runner::harness_error(&format!("C18: cannot create a loopback listener: errno {}", errno()));
        }
        (fd, u16::from_be(a.sin_port))
    }
}

fn inet_client(port: u16) -> (i32, [u8; 16]) {
    unsafe {
        let fd = libc::socket(libc::AF_INET, libc::SOCK_STREAM | libc::SOCK_CLOEXEC, 0);
        let mut a: libc::sockaddr_in = std::mem::zeroed();
        a.sin_family = libc::AF_INET as u16;
        a.sin_addr.s_addr = u32::from_ne_bytes([127, 0, 0, 1]);
        a.sin_port = port.to_be();
        if fd < 0 || libc::connect(fd, std::ptr::from_ref(&a).cast(), 16) != 0 {
            simk::runner::harness_error(&format!("C18: cannot connect to loopback port {port}: errno {}", errno()));
        }
        let mut own = [0u8; 16];
        let mut l = 16u32;
        libc::getsockname(fd, own.as_mut_ptr().cast(), &mut l);
        (fd, own)
    }
}

fn pair() -> (i32, i32) {
    let mut p = [0i32; 2];
    if unsafe { libc::socketpair(libc::AF_UNIX, libc::SOCK_STREAM | libc::SOCK_CLOEXEC, 0, p.as_mut_ptr()) } != 0 {
        simk::runner::harness_error("C18: socketpair failed");
    }
    (p[0], p[1])
}

fn readable_now(fd: i32) -> bool {
    let mut p = libc::pollfd { fd, events: libc::POLLIN, revents: 0 };
    unsafe { libc::poll(&mut p, 1, 0) == 1 && p.revents & libc::POLLIN != 0 }
}

/// libc sendmsg of `data` in `parts` pieces with `fds` as SCM_RIGHTS.
fn libc_sendmsg(sock: i32, data: &[u8], parts: usize, fds: &[i32]) -> i32 {
    let step = data.len().div_ceil(parts.max(1)).max(1);
    let mut iov: Vec<libc::iovec> = data.chunks(step).map(|c| libc::iovec { iov_base: c.as_ptr() as *mut _, iov_len: c.len() }).collect();
    let mut ctl = vec![0u64; 64];
    let mut h: libc::msghdr = unsafe { std::mem::zeroed() };
    h.msg_iov = iov.as_mut_ptr();
    h.msg_iovlen = iov.len();
    if !fds.is_empty() {
        unsafe {
            h.msg_control = ctl.as_mut_ptr().cast();
            h.msg_controllen = libc::CMSG_SPACE((fds.len() * 4) as u32) as usize;
            let c = libc::CMSG_FIRSTHDR(&h);
            (*c).cmsg_level = libc::SOL_SOCKET;
            (*c).cmsg_type = libc::SCM_RIGHTS;
            (*c).cmsg_len = libc::CMSG_LEN((fds.len() * 4) as u32) as usize;
            std::ptr::copy_nonoverlapping(fds.as_ptr(), libc::CMSG_DATA(c).cast::<i32>(), fds.len());
        }
    }
    let r = unsafe { libc::sendmsg(sock, &h, libc::MSG_NOSIGNAL) };
    if r < 0 { -errno() } else { r as i32 }
}

struct Received {
    res: i32,
    data: Vec<u8>,
    fds: Vec<i32>,
    flags: i32,
}

/// libc recvmsg with the given buffer and control-buffer sizes.
fn libc_recvmsg(sock: i32, buf_len: usize, ctl_len: usize, flags: i32) -> Received {
    let mut buf = vec![0u8; buf_len];
    let mut ctl = vec![0u64; ctl_len.div_ceil(8) + 1];
    let mut iov = libc::iovec { iov_base: buf.as_mut_ptr().cast(), iov_len: buf_len };
    let mut h: libc::msghdr = unsafe { std::mem::zeroed() };
    h.msg_iov = &mut iov;
    h.msg_iovlen = 1;
    if ctl_len > 0 {
        h.msg_control = ctl.as_mut_ptr().cast();
        h.msg_controllen = ctl_len;
    }
    let r = unsafe { libc::recvmsg(sock, &mut h, flags) };
    let mut fds = Vec::new();
    if r >= 0 {
        unsafe {
            let mut c = libc::CMSG_FIRSTHDR(&h);
            while !c.is_null() {
                if (*c).cmsg_level == libc::SOL_SOCKET && (*c).cmsg_type == libc::SCM_RIGHTS {
                    let n = ((*c).cmsg_len - libc::CMSG_LEN(0) as usize) / 4;
                    for i in 0..n {
                        fds.push(libc::CMSG_DATA(c).cast::<i32>().add(i).read_unaligned());
                    }
                }
                c = libc::CMSG_NXTHDR(&h, c);
            }
        }
    }
    buf.truncate(r.max(0) as usize);
    Received { res: if r < 0 { -errno() } else { r as i32 }, data: buf, fds, flags: h.msg_flags }
}

fn close_all(fds: &[i32]) {
    for f in fds {
        if *f > 2 {
            unsafe { libc::close(*f) };
        }
    }
}

const CANARY: u8 = 0xC5;

/// A byte region surrounded by canaries (to catch the kernel writing where it was not told to).
struct Guarded {
    mem: Vec<u8>,
    len: usize,
}

impl Guarded {
    const PAD: usize = 128;
    fn new(len: usize, fill: u8) -> Self {
        let mut mem = vec![CANARY; len + 2 * Self::PAD];
        for b in &mut mem[Self::PAD..Self::PAD + len] {
            *b = fill;
        }
        Self { mem, len }
    }
    fn ptr(&mut self) -> *mut u8 {
        unsafe { self.mem.as_mut_ptr().add(Self::PAD) }
    }
    fn bytes(&self) -> &[u8] {
        &self.mem[Self::PAD..Self::PAD + self.len]
    }
    fn intact(&self) -> bool {
        self.mem[..Self::PAD].iter().all(|b| *b == CANARY) && self.mem[Self::PAD + self.len..].iter().all(|b| *b == CANARY)
    }
}

fn ext_viol(kind: &str, what: &str, detail: String) -> Option<Violation> {
    Some(Violation { sig: format!("ops|{kind}|{what}"), detail: detail.chars().take(400).collect() })
}

#[allow(clippy::too_many_lines)]
fn run_ext_ops(dec: Dec, opts: &RunOpts, slot: u64, rounds: usize) -> RunOut {
    let base = format!("/verif/work/c18x.{}.{}", unsafe { libc::getpid() }, slot % 2);
    let _ = std::fs::remove_dir_all(&base);
    let (da, db) = (format!("{base}/ring"), format!("{base}/twin"));
    std::fs::create_dir_all(&da).unwrap();
    std::fs::create_dir_all(&db).unwrap();
    let mut sim = Sim::new(dec, SimCfg { record: opts.record, ..SimCfg::default() });
    let entries = if sim.dec.chance(K::Cfg, 1, 3) { 2 + sim.dec.choose(K::Cfg, 31) } else { 1u32 << (1 + sim.dec.choose(K::Cfg, 5)) };
    let led = Ledger { ring_fd: Cell::new(-1), maps: RefCell::new(Vec::new()), foreign_unmaps: RefCell::new(Vec::new()), closes_of_ring: Cell::new(0), fail_call: Cell::new(None), setup_calls: Cell::new(0), fired: Cell::new(false), n_enter: Cell::new(0) };
    sim.set_kernel(&led);
    let mut viol: Option<Violation> = None;
    let mut log: Vec<String> = Vec::new();
    let mut nops = 0u64;
    let mut kinds: std::collections::BTreeSet<&'static str> = std::collections::BTreeSet::new();
    let mut counters: Vec<(&'static str, u64)> = Vec::new();
    sched::with_installed(&mut sim, || {
        let r = std::panic::catch_unwind(std::panic::AssertUnwindSafe(|| -> Option<Violation> {
            let s = sched::sim().unwrap();
            let flags = match s.dec.choose(K::Cfg, 4) {
                0 | 1 => IoUringParamFlags::empty(),
                2 => IoUringParamFlags::IORING_SETUP_SQE128,
                _ => IoUringParamFlags::IORING_SETUP_CQE32,
            };
            let mut ring = match setup_io_uring(entries, flags, 0, 0) {
                Ok(r) => r,
                Err(_) => match setup_io_uring(entries, IoUringParamFlags::empty(), 0, 0) {
                    Ok(r) => r,
                    Err(e) => return Some(Violation { sig: "ops|setup-failed".into(), detail: format!("{e:?}") }),
                },
            };
            // registered (fixed) buffers
            let mut reg0 = vec![0u8; 8192];
            let mut reg1 = vec![0u8; 4096];
            let registered = {
                let sl = unsafe { [IoSliceMut::new(std::slice::from_raw_parts_mut(reg0.as_mut_ptr(), reg0.len())), IoSliceMut::new(std::slice::from_raw_parts_mut(reg1.as_mut_ptr(), reg1.len()))] };
                if s.dec.chance(K::Cfg, 1, 2) { rusl::io_uring::io_uring_register_io_slices(ring.fd, &sl).is_ok() } else { unsafe { rusl::io_uring::io_uring_register_buffers(ring.fd, &sl).is_ok() } }
            };
            let (lpa, lpb) = (format!("{base}/la.sock"), format!("{base}/lb.sock"));
            let (la, lb) = (unix_listener(&lpa), unix_listener(&lpb));
            let ((lia, pa), (lib, pb)) = (inet_listener(), inet_listener());
            let (ala, alb) = (abstract_listener(), abstract_listener());
            let cpath = |n: &str| std::ffi::CString::new(n).unwrap();
            let fa = unsafe { libc::open(cpath(&format!("{base}/fa")).as_ptr(), libc::O_RDWR | libc::O_CREAT | libc::O_CLOEXEC, 0o644) };
            let fb = unsafe { libc::open(cpath(&format!("{base}/fb")).as_ptr(), libc::O_RDWR | libc::O_CREAT | libc::O_CLOEXEC, 0o644) };
            let dfa = unsafe { libc::open(cpath(&da).as_ptr(), libc::O_RDONLY | libc::O_DIRECTORY | libc::O_CLOEXEC) };
            let dfb = unsafe { libc::open(cpath(&db).as_ptr(), libc::O_RDONLY | libc::O_DIRECTORY | libc::O_CLOEXEC) };
            let names: Vec<UnixString> = (0..4).map(|i| UnixString::try_from_string(format!("n{i}")).unwrap()).collect();
            let fd_of = |v: i32| Fd::try_new(v).unwrap();
            let mut ud: u64 = 0x5000;
            let no = IoUringSQEFlags::empty();
            let mut verdict: Option<Violation> = None;
            for round in 0..rounds {
                ud += 16;
                let kind = s.dec.choose(K::Op, 11);
                nops += 1;
                let v: Option<Violation> = match kind {
                    // ---- connect
                    0 => {
                        kinds.insert("connect");
                        let target = s.dec.choose(K::Arg, 5);
                        let (ta, tb) = match target {
                            0 | 1 | 4 => (lpa.clone(), lpb.clone()),
                            2 => (format!("{base}/missing-a"), format!("{base}/missing-b")),
                            _ => (format!("{base}/fa"), format!("{base}/fb")),
                        };
                        let sa = unsafe { libc::socket(libc::AF_UNIX, libc::SOCK_STREAM | libc::SOCK_CLOEXEC, 0) };
                        let sb = unsafe { libc::socket(libc::AF_UNIX, libc::SOCK_STREAM | libc::SOCK_CLOEXEC, 0) };
                        // target 4: a listener in the abstract namespace (autobound): there the length
                        // of the address is part of the name
                        let arg = if target == 4 {
                            match rusl::network::get_unix_sock_name(fd_of(ala)) {
                                Ok(a) => a,
                                Err(e) => return ext_viol("Connect", "harness", format!("get_unix_sock_name: {e:?}")),
                            }
                        } else {
                            SocketAddressUnix::try_from_unix(&UnixString::try_from_string(ta.clone()).unwrap()).unwrap()
                        };
                        let e = unsafe { Sqe::new_connect_unix(fd_of(sa), &arg, ud, no) };
                        let got = match submit_reap(&mut ring, vec![(ud, e)]) {
                            Ok(g) => g[&ud],
                            Err(v) => return Some(v),
                        };
                        let (mut a, mut l) = sun(&tb);
                        if target == 4 {
                            l = 110;
                            unsafe { libc::getsockname(alb, std::ptr::from_mut(&mut a).cast(), &mut l) };
                        }
                        let tw = unsafe { libc::connect(sb, std::ptr::from_ref(&a).cast(), l) };
                        let tw = if tw < 0 { -errno() } else { 0 };
                        let (la, lb) = if target == 4 { (ala, alb) } else { (la, lb) };
                        log.push(format!("connect target {target} -> ring {got} twin {tw}"));
                        let mut v = None;
                        if got != tw {
                            v = ext_viol("Connect", "result-differs", format!("connect through the ring to {} gives {got}, connect(2) gives {tw}", if target < 2 { "a listening socket" } else if target == 2 { "a missing path" } else if target == 4 { "a listening socket in the abstract namespace" } else { "a regular file" }));
                        } else if tw == 0 {
                            // side effect: the listener has a connection to hand out
                            let (ra, rb) = (readable_now(la), readable_now(lb));
                            if ra != rb {
                                v = ext_viol("Connect", "side-effects-differ", format!("after a successful connect the ring side's listener has a pending connection: {ra}, the twin's: {rb}"));
                            }
                            for l in [la, lb] {
                                if readable_now(l) {
                                    let f = unsafe { libc::accept4(l, std::ptr::null_mut(), std::ptr::null_mut(), libc::SOCK_CLOEXEC) };
                                    close_all(&[f]);
                                }
                            }
                        }
                        close_all(&[sa, sb]);
                        v
                    }
                    // ---- accept (unix)
                    1 | 2 => {
                        kinds.insert("accept_unix");
                        let named = s.dec.chance(K::Arg, 2, 3);
                        let with_addr = s.dec.chance(K::Arg, 3, 4);
                        let fill = *s.dec.pick(K::Arg, &[0u8, 0, 0xff]);
                        let init_len = *s.dec.pick(K::Arg, &[110u64, 110, 2, 20, 0]);
                        let (na, nb) = (format!("{base}/ca{round}"), format!("{base}/cb{round}"));
                        let ca = unix_client(&lpa, if named { Some(&na) } else { None });
                        let cb = unix_client(&lpb, if named { Some(&nb) } else { None });
                        let mut addr = Guarded::new(110, fill);
                        let mut len = Guarded::new(8, 0);
                        unsafe { len.ptr().cast::<u64>().write_unaligned(init_len) };
                        let (ap, lp) = if with_addr { (addr.ptr().cast::<SocketAddressUnix>(), len.ptr().cast::<u64>()) } else { (std::ptr::null_mut(), std::ptr::null_mut()) };
                        let e = unsafe { Sqe::new_accept_unix(fd_of(la), ap, lp, SocketFlags::SOCK_CLOEXEC, ud, no) };
                        let got = match submit_reap(&mut ring, vec![(ud, e)]) {
                            Ok(g) => g[&ud],
                            Err(v) => return Some(v),
                        };
                        let mut tb = vec![fill; 110];
                        let mut tl: u32 = init_len as u32;
                        let tw = unsafe { if with_addr { libc::accept4(lb, tb.as_mut_ptr().cast(), &mut tl, libc::SOCK_CLOEXEC) } else { libc::accept4(lb, std::ptr::null_mut(), std::ptr::null_mut(), libc::SOCK_CLOEXEC) } };
                        let twr = if tw < 0 { -errno() } else { 0 };
                        log.push(format!("accept_unix named {named} addr {with_addr} len {init_len} -> ring {} twin {twr}", got.min(0)));
                        let mut v = None;
                        if got.min(0) != twr {
                            v = ext_viol("Accept", "result-differs", format!("accept through the ring gives {got}, accept4(2) gives {twr}"));
                        } else if !addr.intact() || !len.intact() {
                            v = ext_viol("Accept", "writes-outside-its-buffers", "bytes next to the address buffer or next to the length word were overwritten".into());
                        } else if with_addr && twr == 0 {
                            let rl = unsafe { len.ptr().cast::<u64>().read_unaligned() };
                            // the twin's address names cb<round>, the ring's ca<round>
                            let mut expect = tb.clone();
                            let at = 2 + base.len() + 2;
                            if named && at < (init_len as usize).min(110) {
                                expect[at] = b'a';
                            }
                            if (rl & 0xffff_ffff) as u32 != tl || rl >> 32 != 0 {
                                v = ext_viol("Accept", "address-length-differs", format!("peer address length: the ring's accept left {rl} in *addr_len (initially {init_len}), accept4(2) returns {tl}"));
                            } else if addr.bytes() != &expect[..] {
                                v = ext_viol("Accept", "address-differs", format!("the peer address written by the ring's accept differs from what accept4(2) writes: {:?} vs {:?}", &addr.bytes()[..24], &expect[..24]));
                            }
                        }
                        close_all(&[ca, cb, got, tw]);
                        if named {
                            let _ = std::fs::remove_file(&na);
                            let _ = std::fs::remove_file(&nb);
                        }
                        v
                    }
                    // ---- accept (inet)
                    3 => {
                        kinds.insert("accept_inet");
                        let with_addr = s.dec.chance(K::Arg, 3, 4);
                        let init_len = *s.dec.pick(K::Arg, &[16u64, 16, 8, 128]);
                        let (ca, own_a) = inet_client(pa);
                        let (cb, own_b) = inet_client(pb);
                        let mut addr = Guarded::new(16, 0);
                        let mut len = Guarded::new(8, 0);
                        unsafe { len.ptr().cast::<u64>().write_unaligned(init_len) };
                        let (ap, lp) = if with_addr { (addr.ptr().cast::<SocketAddressInet>(), len.ptr().cast::<u64>()) } else { (std::ptr::null_mut(), std::ptr::null_mut()) };
                        let e = unsafe { Sqe::new_accept_inet(fd_of(lia), ap, lp, SocketFlags::SOCK_CLOEXEC, ud, no) };
                        let got = match submit_reap(&mut ring, vec![(ud, e)]) {
                            Ok(g) => g[&ud],
                            Err(v) => return Some(v),
                        };
                        let mut tb = [0u8; 16];
                        let mut tl: u32 = init_len as u32;
                        let tw = unsafe { if with_addr { libc::accept4(lib, tb.as_mut_ptr().cast(), &mut tl, libc::SOCK_CLOEXEC) } else { libc::accept4(lib, std::ptr::null_mut(), std::ptr::null_mut(), libc::SOCK_CLOEXEC) } };
                        let twr = if tw < 0 { -errno() } else { 0 };
                        log.push(format!("accept_inet addr {with_addr} len {init_len} -> ring {} twin {twr}", got.min(0)));
                        let mut v = None;
                        if got.min(0) != twr {
                            v = ext_viol("Accept", "result-differs", format!("inet accept through the ring gives {got}, accept4(2) gives {twr}"));
                        } else if !addr.intact() || !len.intact() {
                            v = ext_viol("Accept", "writes-outside-its-buffers", "bytes next to the inet address buffer or next to the length word were overwritten".into());
                        } else if with_addr && twr == 0 {
                            let rl = unsafe { len.ptr().cast::<u64>().read_unaligned() };
                            let n = (init_len as usize).min(16);
                            // each side must name its own client (family, port, 127.0.0.1)
                            if (rl & 0xffff_ffff) as u32 != tl || rl >> 32 != 0 {
                                v = ext_viol("Accept", "address-length-differs", format!("inet peer address length: ring {rl} (initially {init_len}), accept4(2) {tl}"));
                            } else if tb[..n] != own_b[..n] {
                                simk::runner::harness_error("C18: the twin's accept4 did not return its client's address");
                            } else if addr.bytes()[..n] != own_a[..n] || addr.bytes()[n..].iter().any(|b| *b != 0) {
                                v = ext_viol("Accept", "address-differs", format!("the inet peer address written by the ring's accept is {:?}, the client's address is {:?}", addr.bytes(), own_a));
                            }
                        }
                        close_all(&[ca, cb, got, tw]);
                        v
                    }
                    // ---- sendmsg
                    4 => {
                        kinds.insert("sendmsg");
                        let n = *s.dec.pick(K::Arg, &[1usize, 5, 100, 4096, 30_000]);
                        let parts = 1 + s.dec.choose(K::Arg, 3) as usize;
                        let nfds = *s.dec.pick(K::Arg, &[0usize, 0, 1, 2, 5]);
                        let sd = s.dec.choose(K::Arg, 250) as u8;
                        let data: Vec<u8> = (0..n).map(|i| (i as u8).wrapping_mul(7).wrapping_add(sd)).collect();
                        let ((a0, a1), (b0, b1)) = (pair(), pair());
                        let pass: Vec<i32> = (0..nfds).map(|_| unsafe { libc::dup(fa) }).collect();
                        let pass_fd: Vec<Fd> = pass.iter().map(|f| fd_of(*f)).collect();
                        let step = n.div_ceil(parts).max(1);
                        let io: Vec<IoSlice> = data.chunks(step).map(IoSlice::new).collect();
                        let guard = MsgHdrBorrow::create_send(None, &io, if nfds > 0 { Some(ControlMessageSend::ScmRights(&pass_fd)) } else { None });
                        // without descriptors to pass, a third of the sends use the raw-header entry
                        let raw = nfds == 0 && s.dec.chance(K::Arg, 1, 3);
                        let mut raw_iov: Vec<libc::iovec> = data.chunks(step).map(|c| libc::iovec { iov_base: c.as_ptr() as *mut _, iov_len: c.len() }).collect();
                        let raw_hdr = MsgHdr { msg_name: std::ptr::null(), msg_namelen: 0, msg_iov: raw_iov.as_mut_ptr().cast(), msg_iovlen: raw_iov.len(), msg_control: std::ptr::null_mut(), msg_controllen: 0, msg_flags: 0 };
                        let e = unsafe { if raw { Sqe::new_sendmsg_raw(fd_of(a0), std::ptr::from_ref(&raw_hdr), 0, ud, no) } else { Sqe::new_sendmsg(fd_of(a0), &guard, 0, ud, no) } };
                        let got = match submit_reap(&mut ring, vec![(ud, e)]) {
                            Ok(g) => g[&ud],
                            Err(v) => return Some(v),
                        };
                        let tw = libc_sendmsg(b0, &data, parts, &pass);
                        let ra = libc_recvmsg(a1, n + 16, 256, libc::MSG_DONTWAIT);
                        let rb = libc_recvmsg(b1, n + 16, 256, libc::MSG_DONTWAIT);
                        log.push(format!("sendmsg {n} bytes {parts} parts {nfds} fds -> ring {got} twin {tw}"));
                        let mut v = None;
                        if got != tw {
                            v = ext_viol("Sendmsg", "result-differs", format!("sendmsg through the ring gives {got}, sendmsg(2) gives {tw}"));
                        } else if ra.data != rb.data || ra.res != rb.res {
                            v = ext_viol("Sendmsg", "side-effects-differ", format!("the peer of the ring's sendmsg receives {} bytes, the twin's peer {} ({} sent); same bytes: {}", ra.res, rb.res, n, ra.data == rb.data));
                        } else if ra.fds.len() != rb.fds.len() {
                            v = ext_viol("Sendmsg", "side-effects-differ", format!("the peer of the ring's sendmsg receives {} descriptors, the twin's peer {}", ra.fds.len(), rb.fds.len()));
                        }
                        close_all(&ra.fds);
                        close_all(&rb.fds);
                        close_all(&pass);
                        close_all(&[a0, a1, b0, b1]);
                        v
                    }
                    // ---- recvmsg
                    5 => {
                        kinds.insert("recvmsg");
                        let n = *s.dec.pick(K::Arg, &[1usize, 5, 100, 4096]);
                        let buf_len = *s.dec.pick(K::Arg, &[1usize, 64, 5000]);
                        let nfds = *s.dec.pick(K::Arg, &[0usize, 0, 1, 3]);
                        let ctl_len = *s.dec.pick(K::Arg, &[0usize, 16, 20, 24, 32, 64, 200]);
                        let sd = s.dec.choose(K::Arg, 250) as u8;
                        let data: Vec<u8> = (0..n).map(|i| (i as u8).wrapping_mul(3).wrapping_add(sd)).collect();
                        let ((a0, a1), (b0, b1)) = (pair(), pair());
                        let pass: Vec<i32> = (0..nfds).map(|_| unsafe { libc::dup(fa) }).collect();
                        let (s1, s2) = (libc_sendmsg(a1, &data, 1, &pass), libc_sendmsg(b1, &data, 1, &pass));
                        if s1 != n as i32 || s2 != n as i32 {
                            simk::runner::harness_error("C18: harness sendmsg failed");
                        }
                        let mut buf = Guarded::new(buf_len, 0);
                        let mut ctl = Guarded::new(ctl_len.max(1), 0);
                        let bslice: &mut [u8] = unsafe { std::slice::from_raw_parts_mut(buf.ptr(), buf_len) };
                        let cslice: &mut [u8] = unsafe { std::slice::from_raw_parts_mut(ctl.ptr(), ctl_len) };
                        let mut iov = [IoSliceMut::new(bslice)];
                        let mut hdr = MsgHdrBorrow::create_recv(&mut iov, if ctl_len > 0 { Some(cslice) } else { None });
                        let e = unsafe { Sqe::new_recvmsg(fd_of(a0), core::ptr::addr_of_mut!(hdr).cast(), 0, ud, no) };
                        let got = match submit_reap(&mut ring, vec![(ud, e)]) {
                            Ok(g) => g[&ud],
                            Err(v) => return Some(v),
                        };
                        let rb = libc_recvmsg(b0, buf_len, ctl_len, 0);
                        let mut ring_fds: Vec<i32> = Vec::new();
                        if got >= 0 {
                            for m in hdr.control_messages() {
                                let ControlMessageSend::ScmRights(f) = m;
                                ring_fds.extend(f.iter().map(|x| x.value()));
                            }
                        }
                        log.push(format!("recvmsg {n} sent buf {buf_len} ctl {ctl_len} fds {nfds} -> ring {got} twin {}", rb.res));
                        let mut v = None;
                        if got != rb.res {
                            v = ext_viol("Recvmsg", "result-differs", format!("recvmsg through the ring gives {got}, recvmsg(2) gives {}", rb.res));
                        } else if !buf.intact() || !ctl.intact() {
                            v = ext_viol("Recvmsg", "writes-outside-its-buffers", "bytes next to the data or control buffer were overwritten".into());
                        } else if got >= 0 && buf.bytes()[..got as usize] != rb.data[..] {
                            v = ext_viol("Recvmsg", "wrong-data", format!("the ring's recvmsg delivered different bytes than recvmsg(2) ({got} bytes)"));
                        } else if ring_fds.len() != rb.fds.len() {
                            v = ext_viol("Recvmsg", "descriptors-differ", format!("the ring's recvmsg delivered {} descriptors ({:?}), recvmsg(2) delivers {} (control buffer {ctl_len} bytes, {nfds} sent)", ring_fds.len(), ring_fds, rb.fds.len()));
                        } else {
                            // every received descriptor designates the passed file
                            let ino = |f: i32| unsafe {
                                let mut st: libc::stat = std::mem::zeroed();
                                if libc::fstat(f, &mut st) == 0 { Some((st.st_dev, st.st_ino)) } else { None }
                            };
                            let want = ino(fa);
                            if let Some(f) = ring_fds.iter().find(|f| ino(**f) != want) {
                                v = ext_viol("Recvmsg", "descriptors-differ", format!("descriptor {f} reported by the control-message iterator after the ring's recvmsg is not the passed file"));
                                ring_fds.clear();
                            }
                        }
                        close_all(&ring_fds);
                        close_all(&rb.fds);
                        close_all(&pass);
                        close_all(&[a0, a1, b0, b1]);
                        v
                    }
                    // ---- poll_add on a descriptor that is ready
                    6 => {
                        kinds.insert("poll_add");
                        let state = s.dec.choose(K::Arg, 3);
                        let ev: i16 = match (state, s.dec.choose(K::Arg, 3)) {
                            (0, _) | (_, 0) => libc::POLLOUT,
                            (_, 1) => libc::POLLIN,
                            _ => libc::POLLIN | libc::POLLOUT,
                        };
                        let ((a0, a1), (b0, b1)) = (pair(), pair());
                        if state >= 1 {
                            unsafe {
                                libc::write(a1, b"x".as_ptr().cast(), 1);
                                libc::write(b1, b"x".as_ptr().cast(), 1);
                            }
                        }
                        if state == 2 {
                            close_all(&[a1, b1]);
                        }
                        let e = Sqe::new_poll_add(fd_of(a0), { let mut pe = PollEvents::empty(); if ev & libc::POLLIN != 0 { pe = pe | PollEvents::POLLIN; } if ev & libc::POLLOUT != 0 { pe = pe | PollEvents::POLLOUT; } pe }, PollAddMultiFlags::empty(), ud, no);
                        let got = match submit_reap(&mut ring, vec![(ud, e)]) {
                            Ok(g) => g[&ud],
                            Err(v) => return Some(v),
                        };
                        let mut p = libc::pollfd { fd: b0, events: ev, revents: 0 };
                        let tw = unsafe { libc::poll(&mut p, 1, 0) };
                        let mask = i32::from(libc::POLLIN | libc::POLLOUT | libc::POLLERR | libc::POLLHUP | libc::POLLPRI);
                        log.push(format!("poll_add events {ev:#x} state {state} -> ring {got:#x} twin {:#x}", p.revents));
                        let mut v = None;
                        if tw != 1 {
                            simk::runner::harness_error("C18: twin poll not ready");
                        } else if got < 0 || got & mask != i32::from(p.revents) & mask {
                            v = ext_viol("PollAdd", "result-differs", format!("poll_add({ev:#x}) through the ring completes with {got:#x}, poll(2) reports {:#x}", p.revents));
                        }
                        if state == 2 {
                            close_all(&[a0, b0]);
                        } else {
                            close_all(&[a0, a1, b0, b1]);
                        }
                        v
                    }
                    // ---- fixed-buffer write and read
                    7 => {
                        kinds.insert("fixed");
                        if !registered {
                            counters.push(("probe.fixed_buffers_not_registered", 1));
                            None
                        } else {
                            let wlen = *s.dec.pick(K::Arg, &[1usize, 100, 4096, 8192]);
                            let woff = if wlen < 8192 { s.dec.choose(K::Arg, (8192 - wlen) as u32) as usize } else { 0 };
                            let sd = s.dec.choose(K::Arg, 250) as u8;
                            for (i, b) in reg0[woff..woff + wlen].iter_mut().enumerate() {
                                *b = (i as u8).wrapping_mul(5).wrapping_add(sd);
                            }
                            let e = unsafe { Sqe::new_writev_fixed(fd_of(fa), 0, reg0.as_ptr().add(woff) as u64, wlen as u32, ud, no) };
                            let got = match submit_reap(&mut ring, vec![(ud, e)]) {
                                Ok(g) => g[&ud],
                                Err(v) => return Some(v),
                            };
                            let tw = unsafe { libc::pwrite(fb, reg0.as_ptr().add(woff).cast(), wlen, 0) };
                            let tw = if tw < 0 { -errno() } else { tw as i32 };
                            let rlen = *s.dec.pick(K::Arg, &[1usize, 64, 4096]);
                            let roff = if rlen < 4096 { s.dec.choose(K::Arg, (4096 - rlen) as u32) as usize } else { 0 };
                            reg1.fill(0xEE);
                            let e = unsafe { Sqe::new_readv_fixed(fd_of(fa), 1, reg1.as_mut_ptr().add(roff) as u64, rlen as u32, ud + 1, no) };
                            let got_r = match submit_reap(&mut ring, vec![(ud + 1, e)]) {
                                Ok(g) => g[&(ud + 1)],
                                Err(v) => return Some(v),
                            };
                            let mut tbuf = vec![0u8; rlen];
                            let tr = unsafe { libc::pread(fb, tbuf.as_mut_ptr().cast(), rlen, 0) };
                            let tr = if tr < 0 { -errno() } else { tr as i32 };
                            log.push(format!("write_fixed {wlen}@{woff} -> ring {got} twin {tw}; read_fixed {rlen}@{roff} -> ring {got_r} twin {tr}"));
                            let (ca, cb) = (std::fs::read(format!("{base}/fa")).unwrap_or_default(), std::fs::read(format!("{base}/fb")).unwrap_or_default());
                            if got != tw {
                                ext_viol("WriteFixed", "result-differs", format!("write_fixed of {wlen} bytes gives {got}, pwrite(2) gives {tw}"))
                            } else if ca != cb {
                                ext_viol("WriteFixed", "side-effects-differ", format!("after write_fixed the file differs from the twin written with pwrite(2) ({} vs {} bytes)", ca.len(), cb.len()))
                            } else if got_r != tr {
                                ext_viol("ReadFixed", "result-differs", format!("read_fixed of {rlen} bytes gives {got_r}, pread(2) gives {tr}"))
                            } else if got_r >= 0 && (reg1[roff..roff + got_r as usize] != tbuf[..got_r as usize] || reg1[..roff].iter().any(|b| *b != 0xEE) || reg1[roff + got_r as usize..].iter().any(|b| *b != 0xEE)) {
                                ext_viol("ReadFixed", "wrong-data", "read_fixed delivered other bytes than pread(2), or wrote outside the requested part of the registered buffer".into())
                            } else {
                                None
                            }
                        }
                    }
                    // ---- wait for one completion, reap exactly one (no draining in between)
                    9 => {
                        kinds.insert("await_single");
                        let n = 2 + s.dec.choose(K::Arg, 4) as usize;
                        let asynch = s.dec.chance(K::Arg, 3, 4);
                        let dfa_fd = fd_of(dfa);
                        let mut v = None;
                        for i in 0..n {
                            let u = ud + i as u64;
                            let name = UnixString::try_from_string(format!("w{round}_{i}")).unwrap();
                            let e = unsafe { Sqe::new_mkdirat(Some(dfa_fd), &name, Mode::from(0o755), u, if asynch { IoUringSQEFlags::IOSQE_ASYNC } else { no }) };
                            let Some(slot) = ring.get_next_sqe_slot() else {
                                return ext_viol("AwaitSingle", "no-sqe-slot", format!("no submission slot for entry {i} although every earlier entry has completed"));
                            };
                            unsafe { slot.write(e) };
                            ring.flush_submission_queue();
                            loop {
                                match io_uring_enter(ring.fd, 1, 1, IoUringEnterFlags::IORING_ENTER_GETEVENTS) {
                                    Ok(_) => break,
                                    Err(e) if e.code == Some(rusl::error::Errno::EINTR) => {}
                                    Err(e) if e.code == Some(rusl::error::Errno::ETIME) => return ext_viol("AwaitSingle", "completion-missing", "no completion within 5 s".into()),
                                    Err(e) => return ext_viol("AwaitSingle", "enter-failed", format!("{e:?}")),
                                }
                            }
                            // the wait for one completion has returned: one completion is there to reap
                            match ring.get_next_cqe() {
                                Some(c) if c.0.user_data == u && c.0.res == 0 => {}
                                Some(c) => {
                                    v = ext_viol("AwaitSingle", "wrong-completion", format!("entry {i}: reaped user_data {} res {} after waiting for user_data {u}", c.0.user_data, c.0.res));
                                    break;
                                }
                                None => {
                                    v = ext_viol("AwaitSingle", "nothing-to-reap-after-wait", format!("submit one entry, wait for one completion, reap one: at repetition {i} io_uring_enter(min_complete = 1) returned but get_next_cqe() returned None{}", if asynch { " (entries flagged IOSQE_ASYNC)" } else { "" }));
                                    break;
                                }
                            }
                            let twin = std::ffi::CString::new(format!("w{round}_{i}")).unwrap();
                            unsafe { libc::mkdirat(dfb, twin.as_ptr(), 0o755) };
                        }
                        // give the last slot back / pick up what a failed repetition left in flight
                        let mut spins = 0;
                        while v.is_some() && spins < 2000 && ring.get_next_cqe().is_none() {
                            spins += 1;
                            std::thread::sleep(std::time::Duration::from_micros(100));
                        }
                        while ring.get_next_cqe().is_some() {}
                        log.push(format!("await_single x{n} async {asynch} -> {}", if v.is_some() { "violation" } else { "ok" }));
                        v
                    }
                    // ---- more completions than the completion ring holds, polled with the peek call
                    10 => {
                        kinds.insert("overflow_peek");
                        let sq = entries.next_power_of_two() as usize;
                        let cq = 2 * sq;
                        let extra = 1 + s.dec.choose(K::Arg, sq as u32) as usize;
                        let total = cq + extra;
                        let dfa_fd = fd_of(dfa);
                        let mut names: Vec<UnixString> = Vec::with_capacity(total);
                        for i in 0..total {
                            names.push(UnixString::try_from_string(format!("o{round}_{i}")).unwrap());
                        }
                        let mut submitted = 0usize;
                        let mut v = None;
                        // first fill the completion ring exactly, let it settle, then the surplus
                        for phase_end in [cq, total] {
                            while submitted < phase_end && v.is_none() {
                                let n = (phase_end - submitted).min(sq);
                                for i in submitted..submitted + n {
                                    let e = unsafe { Sqe::new_mkdirat(Some(dfa_fd), &names[i], Mode::from(0o755), ud + i as u64, no) };
                                    let Some(slot) = ring.get_next_sqe_slot() else {
                                        return ext_viol("Overflow", "no-sqe-slot", format!("no submission slot for entry {i} although everything flushed so far was submitted"));
                                    };
                                    unsafe { slot.write(e) };
                                }
                                ring.flush_submission_queue();
                                match io_uring_enter(ring.fd, n as u32, 0, IoUringEnterFlags::empty()) {
                                    Ok(_) => submitted += n,
                                    Err(e) => v = ext_viol("Overflow", "enter-failed", format!("submitting {n} entries: {e:?}")),
                                }
                            }
                            std::thread::sleep(std::time::Duration::from_millis(30));
                        }
                        for i in 0..total {
                            let twin = std::ffi::CString::new(format!("o{round}_{i}")).unwrap();
                            unsafe { libc::mkdirat(dfb, twin.as_ptr(), 0o755) };
                        }
                        // reap everything: what did not fit into the ring is handed over by the kernel when
                        // the application asks for events, even without waiting for any
                        let mut seen = std::collections::BTreeSet::new();
                        let t0 = std::time::Instant::now();
                        while v.is_none() && seen.len() < total && t0.elapsed().as_millis() < 3000 {
                            while let Some(c) = ring.get_next_cqe() {
                                let (u, res) = (c.0.user_data, c.0.res);
                                if u < ud || u >= ud + total as u64 || res != 0 || !seen.insert(u) {
                                    v = ext_viol("Overflow", "wrong-completion", format!("completion user_data {u} res {res} (expected each of {total} mkdirat entries once, res 0)"));
                                    break;
                                }
                            }
                            if seen.len() < total {
                                if let Err(e) = io_uring_enter(ring.fd, 0, 0, IoUringEnterFlags::IORING_ENTER_GETEVENTS) {
                                    v = ext_viol("Overflow", "enter-failed", format!("peek: {e:?}"));
                                }
                                std::thread::sleep(std::time::Duration::from_micros(200));
                            }
                        }
                        if v.is_none() && seen.len() < total {
                            v = ext_viol("Overflow", "completion-missing", format!("{} of {total} completions never appeared: {cq} fit the completion ring, the other {extra} were parked by the kernel and have to be handed over when the application polls with io_uring_enter(to_submit 0, min_complete 0, GETEVENTS)", total - seen.len()));
                        }
                        log.push(format!("overflow {total} on cq {cq} -> {}", if v.is_some() { "violation" } else { "all reaped" }));
                        v
                    }
                    // ---- linked chain of directory operations
                    _ => {
                        kinds.insert("linked");
                        #[derive(Debug, Clone)]
                        enum L {
                            Mkdir(usize),
                            Create(usize),
                            Rename(usize, usize),
                            Unlink(usize, bool),
                            CloseBad,
                        }
                        let n = 2 + s.dec.choose(K::Arg, entries.min(5) - 1) as usize;
                        let chain: Vec<L> = (0..n)
                            .map(|_| {
                                let x = s.dec.choose(K::Arg, 4) as usize;
                                match s.dec.choose(K::Arg, 7) {
                                    0 | 1 => L::Mkdir(x),
                                    2 => L::Create(x),
                                    3 => L::Rename(x, s.dec.choose(K::Arg, 4) as usize),
                                    4 => L::CloseBad,
                                    _ => L::Unlink(x, s.dec.chance(K::Arg, 1, 2)),
                                }
                            })
                            .collect();
                        let dfa_fd = fd_of(dfa);
                        let mut sq = Vec::new();
                        for (i, l) in chain.iter().enumerate() {
                            let fl = if i + 1 < chain.len() { IoUringSQEFlags::IOSQE_IO_LINK } else { no };
                            let u = ud + i as u64;
                            let e = unsafe {
                                match l {
                                    L::Mkdir(x) => Sqe::new_mkdirat(Some(dfa_fd), &names[*x], Mode::from(0o755), u, fl),
                                    L::Create(x) => Sqe::new_openat(Some(dfa_fd), &names[*x], OpenFlags::O_RDWR | OpenFlags::O_CREAT | OpenFlags::O_EXCL, Mode::from(0o644), u, fl),
                                    L::Rename(a, b) => Sqe::new_rename_at(Some(dfa_fd), Some(dfa_fd), &names[*a], &names[*b], RenameFlags::empty(), u, fl),
                                    L::Unlink(x, rm) => Sqe::new_unlink_at(Some(dfa_fd), &names[*x], *rm, u, fl),
                                    L::CloseBad => Sqe::new_close(Fd::try_new(1_000_000).unwrap(), u, fl),
                                }
                            };
                            sq.push((u, e));
                        }
                        let got = match submit_reap(&mut ring, sq) {
                            Ok(g) => g,
                            Err(v) => return Some(v),
                        };
                        // twin: the same calls one after the other.  Whether a failing entry severs the
                        // chain depends on the operation and the kernel version (directory operations do
                        // not since 6.x), so the twin follows the ring there and only requires that a
                        // cancelled entry comes after a failed one and that nothing runs after a cancel.
                        let cn = |n: usize| std::ffi::CString::new(format!("n{n}")).unwrap();
                        let mut failed = false;
                        let mut cancelled = false;
                        let mut v = None;
                        for (i, l) in chain.iter().enumerate() {
                            let ring_res = got[&(ud + i as u64)];
                            if ring_res == -125 && !failed && v.is_none() {
                                v = ext_viol("Linked", "cancelled-without-failure", format!("entry {i} of the linked chain {chain:?} was cancelled although no earlier entry failed"));
                            }
                            if ring_res != -125 && cancelled && v.is_none() {
                                v = ext_viol("Linked", "ran-after-cancel", format!("entry {i} of the linked chain {chain:?} ran although an earlier entry of the chain was cancelled"));
                            }
                            if ring_res == -125 {
                                if !cancelled {
                                    counters.push(("probe.linked_chain_severed", 1));
                                }
                                cancelled = true;
                            }
                            let tw: i32 = if ring_res == -125 {
                                -125
                            } else {
                                let r = unsafe {
                                    match l {
                                        L::Mkdir(x) => libc::mkdirat(dfb, cn(*x).as_ptr(), 0o755),
                                        L::Create(x) => {
                                            let f = libc::openat(dfb, cn(*x).as_ptr(), libc::O_RDWR | libc::O_CREAT | libc::O_EXCL, 0o644);
                                            if f >= 0 {
                                                libc::close(f);
                                                0
                                            } else {
                                                f
                                            }
                                        }
                                        L::Rename(a, b) => libc::renameat(dfb, cn(*a).as_ptr(), dfb, cn(*b).as_ptr()),
                                        L::Unlink(x, rm) => libc::unlinkat(dfb, cn(*x).as_ptr(), if *rm { libc::AT_REMOVEDIR } else { 0 }),
                                        L::CloseBad => libc::close(1_000_000),
                                    }
                                };
                                if r < 0 { -errno() } else { 0 }
                            };
                            if tw < 0 {
                                failed = true;
                            }
                            let mut res = ring_res;
                            if let L::Create(_) = l {
                                if res >= 0 {
                                    unsafe { libc::close(res) };
                                    res = 0;
                                }
                            }
                            log.push(format!("linked[{i}] {l:?} -> ring {res} twin {tw}"));
                            if res != tw && v.is_none() {
                                v = ext_viol("Linked", "result-differs", format!("entry {i} of the linked chain {chain:?} completes with {res}; executed one after the other the calls give {tw}"));
                            }
                        }
                        if v.is_none() {
                            let (a, b) = (dir_digest(&da), dir_digest(&db));
                            if a != b {
                                v = ext_viol("Linked", "side-effects-differ", format!("after the linked chain {chain:?} the ring's directory holds {:?}, the twin's {:?}", a.keys().map(|k| String::from_utf8_lossy(k).to_string()).collect::<Vec<_>>(), b.keys().map(|k| String::from_utf8_lossy(k).to_string()).collect::<Vec<_>>()));
                            }
                        }
                        v
                    }
                };
                if v.is_some() {
                    verdict = v;
                    break;
                }
            }
            close_all(&[la, lb, lia, lib, ala, alb, fa, fb, dfa, dfb]);
            drop(ring);
            drop(reg0);
            drop(reg1);
            verdict.or_else(|| teardown_verdict(&led, "after-socket-ops"))
        }));
        viol = match r {
            Ok(v) => v,
            Err(_) => {
                let (msg, loc) = sched::take_last_panic().unwrap_or_default();
                let loc = sched::short_loc(&loc);
                Some(Violation { sig: format!("panic|{loc}"), detail: format!("panic at {loc}: {msg}") })
            }
        };
    });
    let _ = std::fs::remove_dir_all(&base);
    let mut out = RunOut::default();
    out.violation = viol;
    let mut h = u64::from(entries) ^ 0x5151;
    for l in &log {
        h = simk::dec::mix(&[h, simk::dec::hash_str(l)]);
    }
    out.hash = h;
    out.shape = h;
    out.nontrivial = kinds.len() >= 2;
    out.evals = 0;
    out.counters.insert("ops.compared_with_twin", nops);
    out.counters.insert("io_uring_enter_calls", led.n_enter.get());
    for k in &kinds {
        let key: &'static str = match *k {
            "connect" => "ops.kind.connect",
            "accept_unix" => "ops.kind.accept_unix",
            "accept_inet" => "ops.kind.accept_inet",
            "sendmsg" => "ops.kind.sendmsg",
            "recvmsg" => "ops.kind.recvmsg",
            "poll_add" => "ops.kind.poll_add",
            "fixed" => "ops.kind.fixed_buffers",
            "await_single" => "ops.kind.await_single",
            "overflow_peek" => "ops.kind.overflow_peek",
            _ => "ops.kind.linked_chain",
        };
        out.counters.insert(key, 1);
    }
    for (k, n) in counters {
        *out.counters.entry(k).or_insert(0) += n;
    }
    if opts.record {
        out.events = log.clone();
        out.sample = Some(json!({"kind": "socket / poll / fixed-buffer / linked operations vs direct twins", "ring_entries": entries, "rounds": rounds, "ops": log.iter().take(12).collect::<Vec<_>>()}));
    }
    out.decisions = std::mem::take(&mut sim.dec.log);
    out
}

impl Check for C18 {
    fn id(&self) -> &'static str {
        "C18"
    }
    fn level(&self) -> &'static str {
        "exploration"
    }
    fn engine(&self) -> &'static str {
        "simk (engine A): pass-through to the real kernel ring with a setup/teardown ledger; ring stub for the single-mmap layout"
    }
    fn cases(&self, tier: Tier) -> u64 {
        match tier {
            Tier::Quick => 6_000,
            Tier::Thorough => 300_000,
        }
    }
    fn workers(&self, _tier: Tier) -> usize {
        8
    }
    fn rule(&self) -> String {
        "the family of a case is chosen by a hash of its number, a quarter each: (a) one ring (1..64 entries) driven with 4 (thorough: up to 40) seeded batches of 1..8 independent entries drawn from mkdirat, openat (create or not), writev (1..3 iovecs), readv, statx, renameat, unlinkat (file/dir), close, timeout, socket, incl. operations that must fail (missing names, closed descriptors); each batch is reaped completely, completions are matched by user_data (the kernel's completion order is not controlled) and every result is compared with the equivalent direct system call executed in a twin directory, then both directories are compared; exactly one completion per submission. (b) one ring (2..32 entries, plain / SQE128 / CQE32) driven with 6 (thorough: up to 30) seeded rounds drawn from: connect (listening socket, missing path, regular file) vs connect(2) incl. the pending connection it leaves; accept of a pre-connected named or unnamed unix client / loopback TCP client, with or without address buffers, initial length 0/2/8/16/20/110/128, buffers zeroed or 0xff, compared with accept4(2) for result, written length, address bytes and canaries around both buffers; sendmsg (1..30000 bytes, 1..3 iovecs, 0..5 SCM_RIGHTS descriptors) vs sendmsg(2), judged by what the peer receives; recvmsg (data buffer 1..5000, control buffer 0..200 bytes, 0..3 descriptors) vs recvmsg(2) for result, bytes, descriptors found by rusl's control-message iterator (identity by fstat) and canaries; poll_add on a descriptor in a ready state (writable / readable / hung up) vs poll(2); write_fixed + read_fixed on registered buffers at seeded offsets vs pwrite/pread incl. bytes outside the requested range; completion-ring overflow (2 x SQ + 1..SQ mkdirat entries submitted without reaping, then polled with the peek call: every completion must appear once); linked chains of 2..5 dependent directory operations (mkdir, create, rename, unlink, close of a bad descriptor) vs the same calls one after the other (the twin follows the ring on whether a failure severs the chain, which is kernel-version dependent, and requires cancelled entries to form a suffix that starts after a failed entry). (c, half of the cases) setup + drop with a mapping/descriptor ledger at the system-call seam, on the real kernel and on the ring stub (both IORING_FEAT_SINGLE_MMAP and two-mapping layouts), with io_uring_setup or the 1st/2nd/3rd mmap failing by decision: every ring mapping unmapped exactly once with its own length, nothing else unmapped, descriptor closed exactly once, nothing left after a failed setup (the same ledger verdict closes every operation run). non-trivial = batch run with >=4 compared operations incl. a failing one, a socket run with >=2 operation kinds, or a setup fault that fired; distinct = hash of configuration and results".into()
    }
    fn assumptions(&self) -> Vec<String> {
        vec![
            "the real kernel executes the ring: its completion order and worker threads are not controlled; results are normalised by user_data and batches contain mutually independent entries".into(),
            "socket, poll and fixed-buffer operations are submitted one at a time on objects the harness prepared so that they complete at once (pending connection, queued data, ready descriptor): operations that would wait for a second party are not generated".into(),
            "descriptor-returning operations are compared by success/errno, not by number".into(),
        ]
    }
    fn components(&self) -> Value {
        json!({"real": ["rusl SQE constructors, setup_io_uring, io_uring_enter, IoUring ring code and Drop", "the kernel's io_uring implementation (operation batches)", "libc direct calls as twins"], "stub": ["ring stub for the single-mmap teardown layout", "failing setup calls (-errno at the sc seam)"]})
    }
    fn run(&self, case: u64, dec: Dec, opts: &RunOpts) -> RunOut {
        // the family by a hash of the case number (cases are dealt to the workers round-robin: a
        // plain modulus would leave half of the workers with the cheap teardown cases only)
        let hk = simk::dec::mix(&[case, 0xc18]);
        let long = opts.tier == Tier::Thorough && (hk >> 8) % 4 == 0;
        match hk % 4 {
            1 | 3 => run_teardown(dec, opts),
            2 => run_ext_ops(dec, opts, case, if long { 30 } else { 6 }),
            _ => run_ops(dec, opts, case, if long { 40 } else { 4 }),
        }
    }
}
