//! One binary per check: a change in /repo that stops one check's harness from compiling (for
//! instance a changed wrapper signature) must not take the other checks down with it.
#![allow(dead_code)]
#[path = "../c17.rs"]
mod c17;
#[path = "../c18.rs"]
mod c18;

fn main() {
    let argv: Vec<String> = std::env::args().skip(1).collect();
    if argv.first().map(String::as_str) != Some("C18") {
        simk::runner::harness_error("usage: vcheck-C18 C18 [--tier quick|thorough] [--replay file] [--selftest-determinism]");
    }
    simk::runner::main_for(&c18::C18, &argv[1..]);
}
