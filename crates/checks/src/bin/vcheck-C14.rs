//! One binary per check: a change in /repo that stops one check's harness from compiling (for
//! instance a changed wrapper signature) must not take the other checks down with it.
#![allow(dead_code)]
#[path = "../c14.rs"]
mod c14;

fn main() {
    let argv: Vec<String> = std::env::args().skip(1).collect();
    if argv.first().map(String::as_str) != Some("C14") {
        simk::runner::harness_error("usage: vcheck-C14 C14 [--tier quick|thorough] [--replay file] [--selftest-determinism]");
    }
    simk::runner::main_for(&c14::C14, &argv[1..]);
}
