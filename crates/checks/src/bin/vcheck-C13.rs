//! One binary per check: a change in /repo that stops one check's harness from compiling (for
//! instance a changed wrapper signature) must not take the other checks down with it.
#![allow(dead_code)]
#[path = "../c13.rs"]
mod c13;

fn main() {
    let argv: Vec<String> = std::env::args().skip(1).collect();
    if argv.first().map(String::as_str) != Some("C13") {
        simk::runner::harness_error("usage: vcheck-C13 C13 [--tier quick|thorough] [--replay file] [--selftest-determinism]");
    }
    simk::runner::main_for(&c13::C13, &argv[1..]);
}
