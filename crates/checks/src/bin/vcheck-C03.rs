//! One binary per check: a change in /repo that stops one check's harness from compiling (for
//! instance a changed wrapper signature) must not take the other checks down with it.
#![allow(dead_code)]
#[path = "../c03.rs"]
mod c03;
#[path = "../c04b.rs"]
mod c04b;

fn main() {
    let argv: Vec<String> = std::env::args().skip(1).collect();
    if argv.first().map(String::as_str) != Some("C03") {
        simk::runner::harness_error("usage: vcheck-C03 C03 [--tier quick|thorough] [--replay file] [--selftest-determinism]");
    }
    simk::runner::main_for(&c03::C03, &argv[1..]);
}
