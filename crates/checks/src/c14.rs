//! C14 — file-system post-conditions: histories of tiny_std::fs operations on the real kernel file
//! system in a fresh directory, a model tree in the harness, `std::fs` as independent observer,
//! short-transfer / EINTR / small-getdents-window / hard-error faults at the sc seam.

use rusl::string::unix_str::UnixString;
use serde_json::{json, Value};
use simk::dec::{Dec, K};
use simk::fdm::PassKernel;
use simk::kern::neg;
use simk::runner::{Check, RunOpts, RunOut, Tier};
use simk::sched::{self, Sim, SimCfg, Violation};
use std::cell::{Cell, RefCell};
use std::collections::BTreeMap;
use std::os::unix::ffi::{OsStrExt, OsStringExt};
use std::path::{Path, PathBuf};
use tiny_std::fs;
use tiny_std::io::Read;

pub struct C14;

#[derive(Clone, Debug, PartialEq, Eq)]
enum Node {
    File(Vec<u8>),
    Dir,
    Link(Vec<u8>),
    Fifo,
}

type Tree = BTreeMap<Vec<u8>, Node>;

fn node_kind(n: &Node) -> &'static str {
    match n {
        Node::File(_) => "file",
        Node::Dir => "dir",
        Node::Link(_) => "symlink",
        Node::Fifo => "fifo",
    }
}

/// Walk `root` with std::fs (the independent observer); keys are paths relative to root.
fn observe(root: &Path) -> Tree {
    let mut t = Tree::new();
    fn walk(base: &Path, dir: &Path, t: &mut Tree) {
        let Ok(rd) = std::fs::read_dir(dir) else { return };
        for e in rd.flatten() {
            let p = e.path();
            let rel = p.strip_prefix(base).unwrap().as_os_str().as_bytes().to_vec();
            let Ok(md) = std::fs::symlink_metadata(&p) else { continue };
            let ft = md.file_type();
            use std::os::unix::fs::FileTypeExt;
            if ft.is_symlink() {
                t.insert(rel, Node::Link(std::fs::read_link(&p).map(|l| l.into_os_string().into_vec()).unwrap_or_default()));
            } else if ft.is_dir() {
                t.insert(rel, Node::Dir);
                walk(base, &p, t);
            } else if ft.is_fifo() {
                t.insert(rel, Node::Fifo);
            } else {
                t.insert(rel, Node::File(std::fs::read(&p).unwrap_or_default()));
            }
        }
    }
    walk(root, root, &mut t);
    t
}

fn norm(p: &[u8]) -> Vec<u8> {
    let comps: Vec<&[u8]> = p.split(|b| *b == b'/').filter(|c| !c.is_empty() && *c != b".").collect();
    comps.join(&b'/')
}

fn parent_of(p: &[u8]) -> Option<Vec<u8>> {
    p.iter().rposition(|b| *b == b'/').map(|i| p[..i].to_vec())
}

#[derive(Clone, Debug)]
enum Op {
    Write { path: Vec<u8>, data: Vec<u8> },
    Read { path: Vec<u8> },
    ReadToString { path: Vec<u8> },
    Copy { src: Vec<u8>, dst: Vec<u8>, pre_read: usize },
    CopyFile { src: Vec<u8>, dst: Vec<u8> },
    CreateDir { path: Vec<u8> },
    CreateDirAll { path: Vec<u8> },
    RemoveFile { path: Vec<u8> },
    RemoveDir { path: Vec<u8> },
    RemoveDirAll { path: Vec<u8> },
    #[allow(dead_code)]
    Rename { src: Vec<u8>, dst: Vec<u8> },
    Iterate { path: Vec<u8> },
    Exists { path: Vec<u8> },
    Metadata { path: Vec<u8> },
    /// harness-side set-up through std (not an operation under test): populate a tree
    Populate { path: Vec<u8>, entries: u32, depth: u32 },
}

fn op_name(o: &Op) -> &'static str {
    match o {
        Op::Write { .. } => "write",
        Op::Read { .. } => "read",
        Op::ReadToString { .. } => "read_to_string",
        Op::Copy { .. } => "File::copy",
        Op::CopyFile { .. } => "copy_file",
        Op::CreateDir { .. } => "create_dir",
        Op::CreateDirAll { .. } => "create_dir_all",
        Op::RemoveFile { .. } => "remove_file",
        Op::RemoveDir { .. } => "remove_dir",
        Op::RemoveDirAll { .. } => "remove_dir_all",
        Op::Rename { .. } => "rename",
        Op::Iterate { .. } => "Directory::read",
        Op::Exists { .. } => "exists",
        Op::Metadata { .. } => "metadata",
        Op::Populate { .. } => "(populate)",
    }
}

/// Harness-side: give an existing source file a hole (at its end, or all of it) before a copy.
/// "Whatever it held": a sparse source reads as zeros there and the copy must have them too.
fn maybe_make_sparse(dec: &mut Dec, root: &std::path::Path, model: &mut Tree, rel: &[u8]) {
    let key = norm(rel);
    let Some(Node::File(c)) = model.get(&key).cloned() else { return };
    if !dec.chance(K::Arg, 1, 4) {
        return;
    }
    let hole = *dec.pick(K::Arg, &[1usize, 4096, 70_000, 1 << 20]);
    let keep = if dec.chance(K::Arg, 1, 3) { 0 } else { c.len() };
    use std::os::unix::ffi::OsStrExt;
    let p = root.join(std::ffi::OsStr::from_bytes(&key));
    let Ok(f) = std::fs::OpenOptions::new().write(true).open(&p) else { return };
    if f.set_len(keep as u64).is_err() || f.set_len((keep + hole) as u64).is_err() {
        return;
    }
    let mut nc = c[..keep].to_vec();
    nc.resize(keep + hole, 0);
    model.insert(key, Node::File(nc));
    if let Some(s) = sched::sim() {
        s.count("probe.copy_source_with_hole");
    }
}

const NAMES: &[&str] = &["a", "b", "c", "d1", "file.txt", "with space", "ünï", ".hidden", "x"];

fn gen_name(dec: &mut Dec) -> Vec<u8> {
    match dec.choose(K::Arg, 12) {
        0 => vec![b'L'; 255],
        1 => vec![b'm'; 100 + dec.choose(K::Arg, 150) as usize],
        2 => vec![0xff, 0xfe, b'n'],
        3 => vec![b'q'; 1 + dec.choose(K::Arg, 20) as usize],
        _ => NAMES[dec.choose(K::Arg, NAMES.len() as u32) as usize].as_bytes().to_vec(),
    }
}

/// A path relative to the run directory, as logical components.
fn gen_rel(dec: &mut Dec, model: &Tree, want_existing: u32) -> Vec<u8> {
    // bias towards paths that exist in the model (or their children)
    if !model.is_empty() && dec.chance(K::Arg, want_existing, 4) {
        // a third of the time among directories only (a populated directory's entries would
        // otherwise draw nearly every pick away from the directory itself)
        let dirs: Vec<&Vec<u8>> = model.iter().filter(|(_, v)| matches!(v, Node::Dir)).map(|(k, _)| k).collect();
        let keys: Vec<&Vec<u8>> = if !dirs.is_empty() && dec.chance(K::Arg, 1, 3) { dirs } else { model.keys().collect() };
        let k = keys[dec.choose(K::Arg, keys.len() as u32) as usize].clone();
        if dec.chance(K::Arg, 1, 3) {
            let mut k = k;
            k.push(b'/');
            k.extend(gen_name(dec));
            return k;
        }
        return k;
    }
    let n = match dec.choose(K::Arg, 8) {
        0 => 1,
        1..=4 => 1 + dec.choose(K::Arg, 3) as usize,
        5 | 6 => 1 + dec.choose(K::Arg, 8) as usize,
        _ => 3 + dec.choose(K::Arg, 14) as usize,
    };
    let mut p = Vec::new();
    for i in 0..n {
        if i > 0 {
            p.push(b'/');
        }
        p.extend(gen_name(dec));
        if p.len() > 3900 {
            break;
        }
    }
    p
}

/// No component of `p` (optionally except the last) is a symbolic link or fifo in the model:
/// operations that follow links would legitimately act outside the tree.
fn usable(model: &Tree, p: &[u8], last_may_be_link: bool) -> bool {
    let n = norm(p);
    let mut acc: Vec<u8> = Vec::new();
    let comps: Vec<&[u8]> = n.split(|b| *b == b'/').collect();
    for (i, c) in comps.iter().enumerate() {
        if i > 0 {
            acc.push(b'/');
        }
        acc.extend(*c);
        let last = i + 1 == comps.len();
        match model.get(&acc) {
            Some(Node::Link(_)) | Some(Node::Fifo) if !(last && last_may_be_link) => return false,
            _ => {}
        }
    }
    true
}

fn gen_usable(dec: &mut Dec, model: &Tree, want_existing: u32, last_may_be_link: bool) -> Vec<u8> {
    for _ in 0..12 {
        let p = gen_rel(dec, model, want_existing);
        if usable(model, &p, last_may_be_link) {
            return p;
        }
    }
    let mut p = b"fresh-".to_vec();
    p.extend(format!("{}", dec.choose(K::Arg, 1000)).bytes());
    p
}

/// Dress a logical relative path as the string handed to tiny-std.
fn shape(dec: &mut Dec, root: &Path, rel: &[u8]) -> (Vec<u8>, &'static str) {
    let mut s: Vec<u8> = Vec::new();
    let style = dec.choose(K::Arg, 7);
    let mut tag = "relative";
    if style == 1 || style == 2 {
        s.extend(root.as_os_str().as_bytes());
        s.push(b'/');
        tag = "absolute";
    }
    if style == 3 {
        s.extend(b"./");
    }
    for (i, c) in rel.split(|b| *b == b'/').enumerate() {
        if i > 0 {
            s.push(b'/');
            if style == 4 {
                s.push(b'/');
                tag = "repeated-separators";
            }
            if style == 6 {
                // a "." component between two components designates the same path
                s.extend(b"./");
                tag = "dot-components";
            }
        }
        s.extend(c);
    }
    if style == 5 || style == 2 {
        s.push(b'/');
        tag = if tag == "absolute" { "absolute+trailing-slash" } else { "trailing-slash" };
    }
    (s, tag)
}

fn ustr(b: &[u8]) -> UnixString {
    UnixString::try_from_bytes(b).unwrap()
}

fn populate(root: &Path, rel: &[u8], entries: u32, depth: u32, dec: &mut Dec) {
    let base = root.join(std::ffi::OsStr::from_bytes(rel));
    let _ = std::fs::create_dir_all(&base);
    fn fill(dir: &Path, root: &Path, entries: u32, depth: u32, dec: &mut Dec) {
        for i in 0..entries {
            let mut name = gen_name(dec);
            name.extend(format!("{i}").bytes());
            name.truncate(255);
            let p = dir.join(std::ffi::OsStr::from_bytes(&name));
            let kind = dec.choose(K::Arg, 10);
            if std::fs::symlink_metadata(&p).is_ok() {
                // never write through something that is already there (could be a fifo)
                continue;
            }
            match kind {
                0 | 1 if depth > 0 => {
                    if std::fs::create_dir(&p).is_ok() {
                        let sub = dec.choose(K::Arg, 4);
                        fill(&p, root, sub, depth - 1, dec);
                    }
                }
                2 => {
                    let _ = std::os::unix::fs::symlink(root.parent().unwrap().join("sentinel/keep.txt"), &p);
                }
                3 => {
                    let _ = std::os::unix::fs::symlink(root.parent().unwrap().join("sentinel/dir"), &p);
                }
                4 => {
                    let _ = std::os::unix::fs::symlink("dangling-target", &p);
                }
                5 => unsafe {
                    let c = std::ffi::CString::new(p.as_os_str().as_bytes()).unwrap();
                    libc::mkfifo(c.as_ptr(), 0o644);
                },
                _ => {
                    let _ = std::fs::write(&p, format!("content {i}"));
                }
            }
        }
    }
    fill(&base, root, entries, depth, dec);
}

struct Faults {
    short_p: u32,
    eintr_left: Cell<u32>,
    dents_window: Cell<usize>,
    /// hard error on parent call index
    hard: Cell<Option<(u32, i32)>>,
    hard_fired: Cell<bool>,
    counts: RefCell<BTreeMap<&'static str, u64>>,
}

fn diff_trees(model: &Tree, seen: &Tree) -> Option<(String, String)> {
    for (k, v) in model {
        match seen.get(k) {
            None => return Some((format!("missing-{}", node_kind(v)), format!("{} '{}' should exist but does not", node_kind(v), String::from_utf8_lossy(&k[..k.len().min(80)])))),
            Some(s) if node_kind(s) != node_kind(v) => return Some(("wrong-type".into(), format!("'{}' is a {} but should be a {}", String::from_utf8_lossy(&k[..k.len().min(80)]), node_kind(s), node_kind(v)))),
            Some(s) if s != v => {
                let (a, b) = match (s, v) {
                    (Node::File(a), Node::File(b)) => (a.len(), b.len()),
                    _ => (0, 0),
                };
                return Some(("wrong-content".into(), format!("'{}' holds {a} bytes that differ from the expected {b} bytes", String::from_utf8_lossy(&k[..k.len().min(80)]))));
            }
            _ => {}
        }
    }
    for (k, v) in seen {
        if !model.contains_key(k) {
            return Some((format!("unexpected-{}", node_kind(v)), format!("{} '{}' exists but should not", node_kind(v), String::from_utf8_lossy(&k[..k.len().min(80)]))));
        }
    }
    None
}

fn run_history(mut dec0: Dec, record: bool, slot: u64, with_faults: bool, big: bool) -> (Option<Violation>, Vec<String>, BTreeMap<&'static str, u64>, Value, Dec, u64, bool) {
    let base = PathBuf::from(format!("/verif/work/c14.{}.{}", unsafe { libc::getpid() }, slot % 2));
    let _ = std::fs::remove_dir_all(&base);
    let root = base.join("run");
    std::fs::create_dir_all(&root).unwrap();
    std::fs::create_dir_all(base.join("sentinel/dir")).unwrap();
    std::fs::write(base.join("sentinel/keep.txt"), b"sentinel").unwrap();
    std::fs::write(base.join("sentinel/dir/inner.txt"), b"inner sentinel").unwrap();
    let sentinel0 = observe(&base.join("sentinel"));
    let old_cwd = std::env::current_dir().unwrap();
    std::env::set_current_dir(&root).unwrap();

    // generate the history up front where possible; paths depend on the evolving model
    let nops = 1 + dec0.choose(K::Op, 12) as usize;
    let faults = Faults {
        short_p: if with_faults { *dec0.pick(K::Cfg, &[0, 8, 24]) } else { 0 },
        eintr_left: Cell::new(if with_faults { dec0.choose(K::Cfg, 6) } else { 0 }),
        dents_window: Cell::new(if with_faults { *dec0.pick(K::Cfg, &[512usize, 288, 300, 400]) } else { 512 }),
        hard: Cell::new(if with_faults && dec0.chance(K::Cfg, 1, 3) { Some((dec0.choose(K::Cfg, 40), *dec0.pick(K::Cfg, &[5, 28]))) } else { None }),
        hard_fired: Cell::new(false),
        counts: RefCell::new(BTreeMap::new()),
    };
    let k = PassKernel::new();
    let mut sim = Sim::new(dec0, SimCfg { record, ..SimCfg::default() });
    {
        let kp: *const PassKernel = &k;
        let fp: *const Faults = &faults;
        let f = move |n: usize, a: [usize; 6]| -> Option<usize> {
            let s = sched::sim()?;
            let k = unsafe { &*kp };
            let f = unsafe { &*fp };
            let bump = |key: &'static str| {
                *f.counts.borrow_mut().entry(key).or_insert(0) += 1;
            };
            let idx = k.parent_calls.get();
            if let Some((at, e)) = f.hard.get() {
                if at == idx && matches!(n, sc::nr::READ | sc::nr::WRITE | sc::nr::COPY_FILE_RANGE | sc::nr::GETDENTS64 | sc::nr::OPENAT | sc::nr::MKDIRAT | sc::nr::UNLINKAT) {
                    k.parent_calls.set(idx + 1);
                    f.hard_fired.set(true);
                    bump("fault.hard_error");
                    s.trace.ev(|| format!("fault: {} -> -{e}", simk::fdm::sys_name(n)));
                    return Some(neg(e));
                }
            }
            if n == sc::nr::OPENAT {
                // opening a fifo blocks until a partner shows up: the simulation has none, so the
                // open is made non-blocking (read side opens, write side fails with ENXIO)
                let mut st: libc::stat = unsafe { std::mem::zeroed() };
                let r = unsafe { libc::fstatat(a[0] as i32, a[1] as *const libc::c_char, &mut st, 0) };
                if r == 0 && (st.st_mode & libc::S_IFMT) == libc::S_IFIFO {
                    let mut a2 = a;
                    a2[2] |= libc::O_NONBLOCK as usize;
                    k.parent_calls.set(idx + 1);
                    return Some(simk::kern::real(n, a2));
                }
            }
            match n {
                sc::nr::READ | sc::nr::WRITE => {
                    if f.eintr_left.get() > 0 && s.dec.chance(K::Fault, 1, 8) {
                        f.eintr_left.set(f.eintr_left.get() - 1);
                        k.parent_calls.set(idx + 1);
                        bump("fault.eintr");
                        s.trace.ev(|| format!("fault: {} -> EINTR", simk::fdm::sys_name(n)));
                        return Some(neg(4));
                    }
                    if a[2] > 1 && s.dec.chance(K::Fault, f.short_p, 32) {
                        let nl = 1 + s.dec.choose(K::Fault, (a[2] - 1).min(u32::MAX as usize) as u32) as usize;
                        k.parent_calls.set(idx + 1);
                        bump("fault.short_transfer");
                        s.trace.ev(|| format!("fault: {} length {} -> {nl}", simk::fdm::sys_name(n), a[2]));
                        let mut a2 = a;
                        a2[2] = nl;
                        return Some(simk::kern::real(n, a2));
                    }
                    None
                }
                sc::nr::COPY_FILE_RANGE => {
                    if a[4] > 1 && s.dec.chance(K::Fault, f.short_p, 32) {
                        let nl = 1 + s.dec.choose(K::Fault, (a[4] - 1).min(u32::MAX as usize) as u32) as usize;
                        k.parent_calls.set(idx + 1);
                        bump("fault.short_copy_file_range");
                        s.trace.ev(|| format!("fault: copy_file_range length {} -> {nl}", a[4]));
                        let mut a2 = a;
                        a2[4] = nl;
                        return Some(simk::kern::real(n, a2));
                    }
                    None
                }
                sc::nr::GETDENTS64 => {
                    let w = f.dents_window.get();
                    if w < a[2] {
                        k.parent_calls.set(idx + 1);
                        bump("fault.small_getdents_window");
                        let mut a2 = a;
                        a2[2] = w;
                        return Some(simk::kern::real(n, a2));
                    }
                    None
                }
                _ => None,
            }
        };
        *k.extra.borrow_mut() = Some(Box::new(f));
    }
    sim.set_kernel(&k);
    let mut model = Tree::new();
    let mut viol: Option<Violation> = None;
    let mut ops_done: Vec<String> = Vec::new();
    let mut shape_hash = 0u64;
    let mut nontrivial = false;
    sched::with_installed(&mut sim, || {
        let r = std::panic::catch_unwind(std::panic::AssertUnwindSafe(|| {
        for step in 0..nops {
            let s = sched::sim().unwrap();
            let dec = &mut s.dec;
            // choose an operation
            let opk = dec.choose(K::Op, 20);
            let op = match opk {
                0..=2 => {
                    let n = *dec.pick(K::Arg, &[0usize, 1, 10, 100, 4096, 5000, 70000]);
                    let sd = dec.choose(K::Arg, 200) as u8;
                    Op::Write { path: gen_usable(dec, &model, 2, false), data: (0..n).map(|i| (i as u8).wrapping_mul(13).wrapping_add(sd)).collect() }
                }
                3 => Op::Read { path: gen_usable(dec, &model, 3, false) },
                4 => Op::ReadToString { path: gen_usable(dec, &model, 3, false) },
                5 | 6 => {
                    let src = gen_usable(dec, &model, 3, false);
                    let mut dst = gen_usable(dec, &model, 2, false);
                    if norm(&dst) == norm(&src) {
                        // copying a file onto itself has no meaningful post-condition
                        dst.extend(b".copy");
                    }
                    Op::Copy { src, dst, pre_read: *dec.pick(K::Arg, &[0usize, 0, 1, 7, 100000]) }
                }
                7 => {
                    let src = gen_usable(dec, &model, 3, false);
                    let mut dst = gen_usable(dec, &model, 2, false);
                    if norm(&dst) == norm(&src) {
                        dst.extend(b".copy");
                    }
                    Op::CopyFile { src, dst }
                }
                8 => Op::CreateDir { path: gen_usable(dec, &model, 1, false) },
                9..=11 => Op::CreateDirAll { path: gen_usable(dec, &model, 1, false) },
                12 => Op::RemoveFile { path: gen_usable(dec, &model, 3, true) },
                13 => Op::RemoveDir { path: gen_usable(dec, &model, 3, false) },
                14..=16 => Op::RemoveDirAll { path: gen_usable(dec, &model, 3, false) },
                17 => Op::Iterate { path: gen_usable(dec, &model, 3, false) },
                18 => {
                    if dec.chance(K::Arg, 1, 2) {
                        Op::Exists { path: gen_usable(dec, &model, 2, false) }
                    } else {
                        Op::Metadata { path: gen_usable(dec, &model, 3, false) }
                    }
                }
                _ => {
                    let entries = if big && dec.chance(K::Arg, 1, 4) { 300 + dec.choose(K::Arg, 2800) } else { dec.choose(K::Arg, 40) };
                    Op::Populate { path: gen_usable(dec, &model, 0, false), entries, depth: dec.choose(K::Arg, 5) }
                }
            };
            // the logical effect is computed on normalised relative paths
            let label = op_name(&op);
            shape_hash = simk::dec::mix(&[shape_hash, simk::dec::hash_str(label)]);
            let mut tag = "";
            let mut sh = |dec: &mut Dec, rel: &[u8]| -> UnixString {
                let (s, t) = shape(dec, &root, rel);
                tag = t;
                ustr(&s)
            };
            let before_faults = faults.hard_fired.get();
            let mut expect: Option<Tree> = None; // model after the operation if it returns Ok
            let mut ok_impossible: Option<String> = None; // Ok cannot satisfy the post-condition
            let mut read_check: Option<(Vec<u8>, Vec<u8>)> = None;
            let res: Result<(), String> = match &op {
                Op::Populate { path, entries, depth } => {
                    populate(&root, path, *entries, *depth, dec);
                    model = observe(&root);
                    ops_done.push(format!("(populate {} entries depth {})", entries, depth));
                    continue;
                }
                Op::Write { path, data } => {
                    let p = sh(dec, path);
                    let mut m = model.clone();
                    m.insert(norm(path), Node::File(data.clone()));
                    expect = Some(m);
                    fs::write(&p, data).map_err(|e| format!("{e:?}"))
                }
                Op::Read { path } => {
                    let p = sh(dec, path);
                    match fs::read(&p) {
                        Ok(v) => {
                            read_check = Some((norm(path), v));
                            Ok(())
                        }
                        Err(e) => Err(format!("{e:?}")),
                    }
                }
                Op::ReadToString { path } => {
                    let p = sh(dec, path);
                    match fs::read_to_string(&p) {
                        Ok(v) => {
                            read_check = Some((norm(path), v.into_bytes()));
                            Ok(())
                        }
                        Err(e) => Err(format!("{e:?}")),
                    }
                }
                Op::Copy { src, dst, pre_read } => {
                    maybe_make_sparse(dec, &root, &mut model, src);
                    let ps = sh(dec, src);
                    let pd = sh(dec, dst);
                    let mut m = model.clone();
                    if let Some(Node::File(c)) = model.get(&norm(src)) {
                        m.insert(norm(dst), Node::File(c.clone()));
                    }
                    expect = Some(m);
                    (|| -> Result<(), tiny_std::Error> {
                        let mut f = fs::File::open(&ps)?;
                        if *pre_read > 0 {
                            // a handle the caller has already read from
                            let mut b = vec![0u8; *pre_read];
                            let _ = f.read(&mut b)?;
                        }
                        let _g = f.copy(&pd)?;
                        Ok(())
                    })()
                    .map_err(|e| format!("{e:?}"))
                }
                Op::CopyFile { src, dst } => {
                    maybe_make_sparse(dec, &root, &mut model, src);
                    let ps = sh(dec, src);
                    let pd = sh(dec, dst);
                    let mut m = model.clone();
                    if let Some(Node::File(c)) = model.get(&norm(src)) {
                        m.insert(norm(dst), Node::File(c.clone()));
                    }
                    expect = Some(m);
                    fs::copy_file(&ps, &pd).map(|_| ()).map_err(|e| format!("{e:?}"))
                }
                Op::CreateDir { path } => {
                    let p = sh(dec, path);
                    let mut m = model.clone();
                    m.insert(norm(path), Node::Dir);
                    expect = Some(m);
                    fs::create_dir(&p).map_err(|e| format!("{e:?}"))
                }
                Op::CreateDirAll { path } => {
                    let p = sh(dec, path);
                    let mut m = model.clone();
                    let n = norm(path);
                    let mut acc: Vec<u8> = Vec::new();
                    for (i, c) in n.split(|b| *b == b'/').enumerate() {
                        if i > 0 {
                            acc.push(b'/');
                        }
                        acc.extend(c);
                        // "the directory and all its ancestors exist": a component that exists as
                        // something that is not (and does not lead to) a directory rules Ok out
                        let blocked = match m.get(&acc) {
                            Some(Node::File(_) | Node::Fifo) => true,
                            Some(Node::Link(_)) => !root.join(std::ffi::OsStr::from_bytes(&acc)).is_dir(),
                            _ => false,
                        };
                        if blocked && ok_impossible.is_none() {
                            ok_impossible = Some(format!("'{}' exists and is a {}", String::from_utf8_lossy(&acc[..acc.len().min(60)]), node_kind(&m[&acc])));
                        }
                        m.entry(acc.clone()).or_insert(Node::Dir);
                    }
                    expect = Some(m);
                    fs::create_dir_all(&p).map_err(|e| format!("{e:?}"))
                }
                Op::RemoveFile { path } => {
                    let p = sh(dec, path);
                    let mut m = model.clone();
                    m.remove(&norm(path));
                    expect = Some(m);
                    fs::remove_file(&p).map_err(|e| format!("{e:?}"))
                }
                Op::RemoveDir { path } => {
                    let p = sh(dec, path);
                    let mut m = model.clone();
                    m.remove(&norm(path));
                    expect = Some(m);
                    fs::remove_dir(&p).map_err(|e| format!("{e:?}"))
                }
                Op::RemoveDirAll { path } => {
                    let p = sh(dec, path);
                    let n = norm(path);
                    let mut m = model.clone();
                    let mut pre = n.clone();
                    pre.push(b'/');
                    m.retain(|k, _| *k != n && !k.starts_with(&pre));
                    expect = Some(m);
                    fs::remove_dir_all(&p).map_err(|e| format!("{e:?}"))
                }
                Op::Rename { src, dst } => {
                    let ps = sh(dec, src);
                    let pd = sh(dec, dst);
                    let (ns, nd) = (norm(src), norm(dst));
                    let mut m = Tree::new();
                    let mut pre = ns.clone();
                    pre.push(b'/');
                    let mut dpre = nd.clone();
                    dpre.push(b'/');
                    for (k, v) in &model {
                        if *k == ns {
                            m.insert(nd.clone(), v.clone());
                        } else if k.starts_with(&pre) {
                            let mut nk = nd.clone();
                            nk.extend(&k[ns.len()..]);
                            m.insert(nk, v.clone());
                        } else if *k == nd || k.starts_with(&dpre) {
                            // replaced by the renamed object
                        } else {
                            m.insert(k.clone(), v.clone());
                        }
                    }
                    expect = Some(m);
                    if ns == nd || nd.starts_with(&pre) { Err("skipped".into()) } else { fs::rename(&ps, &pd).map_err(|e| format!("{e:?}")) }
                }
                Op::Iterate { path } => {
                    let p = sh(dec, path);
                    let n = norm(path);
                    match fs::Directory::open(&p) {
                        Err(e) => Err(format!("{e:?}")),
                        Ok(d) => {
                            let mut seen: BTreeMap<Vec<u8>, (u32, fs::FileType)> = BTreeMap::new();
                            let mut err = None;
                            for e in d.read() {
                                match e {
                                    Ok(e) => {
                                        let name = match e.file_unix_name() {
                                            Ok(u) => {
                                                let s = u.as_slice();
                                                s[..s.len() - 1].to_vec()
                                            }
                                            Err(x) => {
                                                err = Some(format!("{x:?}"));
                                                break;
                                            }
                                        };
                                        let ent = seen.entry(name).or_insert((0, e.file_type()));
                                        ent.0 += 1;
                                    }
                                    Err(x) => {
                                        err = Some(format!("{x:?}"));
                                        break;
                                    }
                                }
                            }
                            if let Some(e) = err {
                                Err(e)
                            } else {
                                // expected children from the model
                                let mut pre = n.clone();
                                if !pre.is_empty() {
                                    pre.push(b'/');
                                }
                                let mut want: BTreeMap<Vec<u8>, &Node> = BTreeMap::new();
                                for (k, v) in &model {
                                    if k.starts_with(&pre) && k.len() > pre.len() && !k[pre.len()..].contains(&b'/') {
                                        want.insert(k[pre.len()..].to_vec(), v);
                                    }
                                }
                                let is_dir_in_model = n.is_empty() || model.get(&n) == Some(&Node::Dir);
                                if is_dir_in_model && viol.is_none() {
                                    for dot in [&b"."[..], &b".."[..]] {
                                        match seen.remove(dot) {
                                            Some((1, _)) => {}
                                            Some((c, _)) => viol = Some(Violation { sig: "Directory::read|duplicate-entry".into(), detail: format!("entry '{}' yielded {c} times", String::from_utf8_lossy(dot)) }),
                                            None => {}
                                        }
                                    }
                                    for (name, node) in &want {
                                        match seen.get(name) {
                                            None => {
                                                viol = Some(Violation { sig: "Directory::read|missing-entry".into(), detail: format!("iteration over a directory with {} entries never yielded '{}' (name length {})", want.len(), String::from_utf8_lossy(&name[..name.len().min(60)]), name.len()) });
                                                break;
                                            }
                                            Some((c, _)) if *c != 1 => {
                                                viol = Some(Violation { sig: "Directory::read|duplicate-entry".into(), detail: format!("entry yielded {c} times") });
                                                break;
                                            }
                                            Some((_, ft)) => {
                                                let ok = matches!((node, ft), (Node::File(_), fs::FileType::RegularFile) | (Node::Dir, fs::FileType::Directory) | (Node::Link(_), fs::FileType::Symlink) | (Node::Fifo, fs::FileType::Fifo));
                                                if !ok {
                                                    viol = Some(Violation { sig: "Directory::read|wrong-type".into(), detail: format!("entry of kind {} reported as {ft:?}", node_kind(node)) });
                                                    break;
                                                }
                                            }
                                        }
                                    }
                                    if viol.is_none() {
                                        if let Some((name, _)) = seen.iter().find(|(k, _)| !want.contains_key(*k)) {
                                            viol = Some(Violation { sig: "Directory::read|phantom-entry".into(), detail: format!("iteration yielded '{}' which does not exist", String::from_utf8_lossy(&name[..name.len().min(60)])) });
                                        }
                                    }
                                    if want.len() >= 8 {
                                        nontrivial = true;
                                    }
                                }
                                Ok(())
                            }
                        }
                    }
                }
                Op::Exists { path } => {
                    let p = sh(dec, path);
                    match fs::exists(&p) {
                        Ok(b) => {
                            let n = norm(path);
                            let real = root.join(std::ffi::OsStr::from_bytes(&n)).exists();
                            if b != real && viol.is_none() {
                                viol = Some(Violation { sig: "exists|wrong-answer".into(), detail: format!("exists() returned {b}, std says {real}") });
                            }
                            Ok(())
                        }
                        Err(e) => Err(format!("{e:?}")),
                    }
                }
                Op::Metadata { path } => {
                    let p = sh(dec, path);
                    match fs::metadata(&p) {
                        Ok(m) => {
                            if let Some(Node::File(c)) = model.get(&norm(path)) {
                                if m.len() != c.len() as u64 && viol.is_none() {
                                    viol = Some(Violation { sig: "metadata|wrong-length".into(), detail: format!("metadata().len() = {}, file holds {} bytes", m.len(), c.len()) });
                                }
                            }
                            Ok(())
                        }
                        Err(e) => Err(format!("{e:?}")),
                    }
                }
            };
            let hard_now = faults.hard_fired.get() && !before_faults;
            ops_done.push(format!("{label}[{tag}] -> {}", if let Err(e) = &res { format!("Err({})", &e[..e.len().min(60)]) } else { "Ok".into() }));
            sched::sim().unwrap().trace.ev(|| ops_done.last().unwrap().clone());
            shape_hash = simk::dec::mix(&[shape_hash, u64::from(res.is_ok()), simk::dec::hash_str(tag)]);
            if viol.is_some() {
                break;
            }
            match res {
                Ok(()) => {
                    if hard_now && !matches!(op, Op::Exists { .. }) {
                        viol = Some(Violation { sig: format!("{label}|error-swallowed"), detail: format!("{label}: a system call failed with a hard error but the operation returned Ok") });
                        break;
                    }
                    if let Some(why) = &ok_impossible {
                        viol = Some(Violation { sig: format!("{label}|ok-but-not-a-directory"), detail: format!("{label} returned Ok [{tag}] although {why}: the named directory does not exist afterwards") });
                        break;
                    }
                    if let Some((p, got)) = read_check {
                        if let Some(Node::File(c)) = model.get(&p) {
                            if *c != got {
                                viol = Some(Violation { sig: format!("{label}|wrong-data"), detail: format!("{label} returned {} bytes, the file holds {} (first difference at {:?})", got.len(), c.len(), c.iter().zip(got.iter()).position(|(a, b)| a != b)) });
                                break;
                            }
                        }
                    }
                    let seen = observe(&root);
                    if let Some(m) = expect {
                        if let Some((kind, d)) = diff_trees(&m, &seen) {
                            let shape_class = match &op {
                                Op::CreateDirAll { path } => {
                                    let n = norm(path);
                                    let comps = n.split(|b| *b == b'/').count();
                                    let parent_exists = parent_of(&n).is_none_or(|p| model.contains_key(&p));
                                    format!("|{}{}{}", if comps == 1 { "single-component" } else if parent_exists { "parent-exists" } else { "new-ancestors" }, if path.len() > 500 { "+long" } else { "" }, if tag.contains("trailing") { "+trailing-slash" } else { "" })
                                }
                                Op::Copy { pre_read, .. } => format!("|{}", if *pre_read > 0 { "handle-already-read" } else { "fresh-handle" }),
                                _ => String::new(),
                            };
                            let prior = match &op {
                                Op::Copy { dst, .. } | Op::CopyFile { dst, .. } | Op::Write { path: dst, .. } => match model.get(&norm(dst)) {
                                    None => "|dest-absent",
                                    Some(Node::File(_)) => "|dest-existing-file",
                                    Some(_) => "|dest-other",
                                },
                                _ => "",
                            };
                            viol = Some(Violation { sig: format!("{label}{shape_class}{prior}|{kind}"), detail: format!("{label} returned Ok [{tag}] but afterwards {d}") });
                            break;
                        }
                        nontrivial = nontrivial || m != model;
                        model = m;
                    }
                    // links' targets and everything outside the run directory are untouched
                    let s1 = observe(&base.join("sentinel"));
                    if s1 != sentinel0 {
                        viol = Some(Violation { sig: format!("{label}|outside-changed"), detail: format!("{label} changed files outside its tree (targets of symbolic links)") });
                        break;
                    }
                }
                Err(_) => {
                    // no post-condition on failure: resynchronise the model with what is there
                    model = observe(&root);
                }
            }
            let _ = step;
        }
        }));
        if r.is_err() {
            let (msg, loc) = sched::take_last_panic().unwrap_or_default();
            let loc = sched::short_loc(&loc);
            let last = ops_done.last().cloned().unwrap_or_default();
            viol = Some(Violation { sig: format!("panic|{loc}"), detail: format!("panic at {loc}: {msg} (after {} operations, last completed: {last})", ops_done.len()) });
        }
    });
    *k.extra.borrow_mut() = None;
    let _ = std::env::set_current_dir(old_cwd);
    let _ = std::fs::remove_dir_all(&base);
    let events = sim.trace.events.take().unwrap_or_default();
    let counts = faults.counts.borrow().clone();
    let sample = json!({"ops": ops_done, "faults": with_faults, "dents_window": faults.dents_window.get()});
    let dec = std::mem::replace(&mut sim.dec, Dec::from_list(Vec::new()));
    (viol, events, counts, sample, dec, shape_hash, nontrivial)
}

impl Check for C14 {
    fn id(&self) -> &'static str {
        "C14"
    }
    fn level(&self) -> &'static str {
        "exploration"
    }
    fn engine(&self) -> &'static str {
        "simk (engine A): pass-through kernel on a real file system, model tree, std::fs observer"
    }
    fn cases(&self, tier: Tier) -> u64 {
        match tier {
            Tier::Quick => 8_000,
            Tier::Thorough => 400_000,
        }
    }
    fn workers(&self, _tier: Tier) -> usize {
        16
    }
    fn rule(&self) -> String {
        "each case = one seeded history of 1..12 operations (write, read, read_to_string, File::copy incl. from an already-read handle and from a source given a hole (sparse) beforehand, copy_file, create_dir, create_dir_all, remove_file, remove_dir, remove_dir_all, Directory::read iteration, exists, metadata, plus harness-side populate of trees with files/dirs/symlinks to outside and dangling/fifos, fan-out up to 40, thorough up to 3000, depth <=5) in a fresh directory; paths from a small colliding alphabet plus 255-byte, 100..250-byte, non-UTF-8 names, 1..17 components (beyond the 512-byte stack buffer, up to ~4000 bytes), dressed relative/absolute/./, repeated and trailing separators; half of the cases fault-free, half with short read/write/copy_file_range, EINTR, reduced getdents window (288..512) and one hard EIO/ENOSPC. Oracle when an operation returns Ok: the tree observed with std::fs equals the model after that operation, returned data equals the model's, a sentinel tree outside is unchanged, iteration yields each entry exactly once with name and type; Ok after a hard error is a violation. non-trivial = the history changed the tree or iterated a directory of >=8 entries; distinct = hash of (operation, path shape, outcome) sequence".into()
    }
    fn assumptions(&self) -> Vec<String> {
        vec![
            "no post-condition is demanded when an operation returns Err (the model is resynchronised)".into(),
            "the file system is whatever backs /verif/work; the process cwd is the run directory while a history runs".into(),
        ]
    }
    fn components(&self) -> Value {
        json!({"real": ["tiny_std::fs, rusl wrappers", "the kernel file system under /verif/work"], "stub": ["short transfers / EINTR / hard errors / getdents window injected at the sc seam"], "observer": "std::fs"})
    }
    fn run(&self, case: u64, dec: Dec, opts: &RunOpts) -> RunOut {
        // by a hash of the case number (a plain modulus would hand every big case to one worker)
        let hk = simk::dec::mix(&[case, 0xc14]);
        let with_faults = hk % 2 == 1;
        let big = opts.tier == Tier::Thorough && (hk >> 8) % 64 == 0;
        let r = std::panic::catch_unwind(std::panic::AssertUnwindSafe(|| run_history(dec, opts.record, case, with_faults, big)));
        let mut out = RunOut::default();
        match r {
            Ok((viol, events, counts, sample, mut dec, h, nt)) => {
                out.violation = viol;
                out.events = events;
                out.hash = h;
                out.shape = h;
                out.nontrivial = nt;
                out.decisions = std::mem::take(&mut dec.log);
                for (k, v) in counts {
                    out.counters.insert(k, v);
                }
                if opts.record {
                    out.sample = Some(sample);
                }
            }
            Err(_) => {
                let (msg, loc) = sched::take_last_panic().unwrap_or_default();
                let loc = sched::short_loc(&loc);
                out.violation = Some(Violation { sig: format!("panic|{loc}"), detail: format!("panic at {loc}: {msg}") });
            }
        }
        out
    }
}
