//! Development helper: run the probe once under the tracer and print the event log.
//! usage: ptrun <probe> <seed> [--faults] <scenario numbers...>
use simk::dec::Dec;
fn main() {
    let mut argv: Vec<String> = std::env::args().skip(1).collect();
    let probe = argv.remove(0);
    let seed: u64 = argv.remove(0).parse().unwrap();
    let mut cfg = ptsim::Cfg::new(probe.into(), Vec::new());
    if argv.first().map(String::as_str) == Some("--faults") {
        argv.remove(0);
        cfg.faults = ptsim::FaultCfg { mmap_stack: true, clone: true, munmap: false, spurious_futex: false, num: 1, den: 4, max_per_run: 2 };
    }
    let quiet = std::env::var("QUIET").is_ok();
    cfg.args = argv;
    cfg.record = !quiet;
    let mut dec = Dec::from_seed(seed);
    let t0 = std::time::Instant::now();
    let out = ptsim::run(&cfg, &mut dec);
    let el = t0.elapsed();
    for e in &out.events {
        println!("{e}");
    }
    println!(
        "end={:?} hash={:016x} shape={:016x} mode={} records={} stops={} steps={} bursts={} switches={} parks={} wakes={} ctid_wakes={} decisions={} sim_ns={} wall={:?} mismatch={:?}",
        out.end, out.hash, out.shape, out.sched_mode, out.records.len(), out.stops, out.single_steps, out.bursts, out.switches, out.parks, out.wakes, out.ctid_wakes, dec.log.len(), out.sim_ns, el, out.ledger_mismatch
    );
    if !out.text_out.is_empty() {
        println!("text: {}", String::from_utf8_lossy(&out.text_out));
    }
}
