//! ptsim — engine B: a ptrace-based deterministic simulator for real multi-threaded no-libc
//! binaries.  At most one tracee thread runs at any instant; every scheduling choice, fault and
//! futex wake pick is one `Dec::choose`.  See NOTES.md for what is emulated and what is real.
#![cfg(all(target_os = "linux", target_arch = "x86_64"))]

pub mod proto;
mod tracer;

pub use tracer::{
    run, Cfg, CloneEv, End, FaultCfg, Fired, Mapping, Out, Rec, Snapshot, ThreadInfo, Unmap,
};
