//! The tracer.  One run = one execution of the probe under ptrace.
//!
//! Thread states as seen by the scheduler: every live thread is stopped — at a syscall-entry stop
//! whose call has not been performed yet (`Entry`), somewhere in user code (`User`: a fresh
//! thread or the end of a single-step burst), parked by the futex model (`Futex`), held at the
//! probe's end-of-batch barrier (`Barrier`) or woken with a return value pending (`Ret`).  A
//! quantum performs the pending call (really, emulated, or replaced by an injected error) and
//! runs the thread on to its next syscall-entry stop or for k single steps.

use crate::proto::*;
use simk::dec::{Dec, K};
use simk::trace::Trace;
use std::collections::{BTreeMap, HashMap};
use std::ffi::CString;
use std::path::PathBuf;
use std::sync::atomic::{AtomicBool, Ordering};

// ---- configuration -------------------------------------------------------------------------

#[derive(Clone, Debug)]
pub struct FaultCfg {
    /// `mmap` of a thread stack (length == `Cfg::stack_len`, between SPAWNING and SPAWNED) -> ENOMEM
    pub mmap_stack: bool,
    /// `clone` -> EAGAIN / ENOMEM
    pub clone: bool,
    /// `munmap` -> EINVAL (exploration only; not enabled by the registered checks)
    pub munmap: bool,
    /// FUTEX_WAIT returns 0 without having been woken (exploration only: outside the quantifier
    /// of C05/C06, see DESIGN "Scope note")
    pub spurious_futex: bool,
    /// probability num/den at every eligible call
    pub num: u32,
    pub den: u32,
    pub max_per_run: u32,
}

impl FaultCfg {
    pub fn none() -> Self {
        FaultCfg { mmap_stack: false, clone: false, munmap: false, spurious_futex: false, num: 0, den: 1, max_per_run: 0 }
    }
}

#[derive(Clone, Debug)]
pub struct Cfg {
    pub probe: PathBuf,
    pub args: Vec<String>,
    pub record: bool,
    pub faults: FaultCfg,
    /// length of the mapping `thread::spawn` creates for a stack (tiny-std: 8192 * 16 * 16)
    pub stack_len: u64,
    pub max_bursts: u32,
    pub max_burst_len: u32,
    /// give up (End::Budget) after this many ptrace stops
    pub max_stops: u64,
    /// cross-check the mapping ledger with /proc/<pid>/maps at BASELINE / BATCH_END records
    pub proc_maps: bool,
    pub watchdog_ms: u64,
    /// a burst starts with probability 1/burst_den at an ordinary quantum (1/2 after a marker)
    pub burst_den: u32,
    /// addresses of atomic instructions (lock-prefixed, xchg with memory) in the probe's text:
    /// each gets a breakpoint, and the instant right after the instruction is a scheduling point
    pub atomic_sites: Vec<u64>,
    /// after one of these (empty = after any atomic site), with probability 1/atomic_extra_den,
    /// atomic_extra_min..=atomic_extra_steps further instructions run before the scheduling point (the windows
    /// that open right behind a lock acquisition)
    pub cas_sites: Vec<u64>,
    pub atomic_extra_min: u32,
    pub atomic_extra_steps: u32,
    pub atomic_extra_den: u32,
    /// a thread preempted inside such a window is held back for 0..=hold_max further quanta
    /// (drawn) while other threads can run: what the others do meanwhile lands inside the window
    pub hold_max: u32,
    /// a thread preempted inside a window after a marker is held back 0..=window_hold_max quanta
    pub window_hold_max: u32,
    /// the emulated futex wake of a thread's clear-tid word is delivered 0..=max quanta after the
    /// thread's exit (the kernel's zero write is visible at once)
    pub defer_ctid_wake_max: u32,
    /// after the first injected clone failure every later clone of the run fails with EAGAIN too
    pub clone_keeps_failing: bool,
    /// a parked-to-be FUTEX_WAIT is interrupted instead (a signal with a handler, no SA_RESTART):
    /// -EINTR with chance 1/den, at most 3 times per run; 0 = never
    pub futex_eintr_den: u32,
    /// draw the uniform scheduling mode (a thread choice at every scheduling point) in half of
    /// the runs instead of one in six
    pub prefer_uniform: bool,
}

impl Cfg {
    pub fn new(probe: PathBuf, args: Vec<String>) -> Self {
        Cfg {
            probe,
            args,
            record: false,
            faults: FaultCfg::none(),
            stack_len: 8192 * 16 * 16,
            max_bursts: 6,
            max_burst_len: 400,
            max_stops: 400_000,
            proc_maps: true,
            watchdog_ms: 2000,
            burst_den: 40,
            atomic_sites: Vec::new(),
            cas_sites: Vec::new(),
            atomic_extra_min: 1,
            atomic_extra_steps: 6,
            atomic_extra_den: 3,
            hold_max: 0,
            window_hold_max: 0,
            defer_ctid_wake_max: 0,
            clone_keeps_failing: false,
            futex_eintr_den: 0,
            prefer_uniform: false,
        }
    }
}

// ---- results -------------------------------------------------------------------------------

#[derive(Clone, Debug)]
pub struct Rec {
    /// logical index (creation order) of the thread that wrote the record
    pub thread: usize,
    pub kind: u32,
    pub tag: u32,
    pub v: [u64; 7],
}

#[derive(Clone, Debug)]
pub struct Unmap {
    pub thread: usize,
    /// ordinal of this call among the calling thread's system calls
    pub call_no: u32,
    pub off: u64,
    pub len: u64,
    pub result: i64,
    pub injected: bool,
    pub rec_pos: usize,
}

#[derive(Clone, Debug)]
pub struct Mapping {
    pub id: usize,
    pub len: u64,
    pub by_thread: usize,
    /// number of probe records seen when the mapping was created
    pub rec_pos: usize,
    /// thread whose clone got a child stack pointer inside this mapping
    pub stack_of: Option<usize>,
    /// a clone (successful or not) was attempted with a stack pointer inside this mapping
    pub clone_attempted: bool,
    pub live_bytes: u64,
    pub unmaps: Vec<Unmap>,
}

#[derive(Clone, Debug)]
pub struct CloneEv {
    pub parent: usize,
    pub rec_pos: usize,
    pub child: Option<usize>,
    pub errno: i32,
    pub injected: bool,
    pub stack_map: Option<usize>,
}

#[derive(Clone, Debug, Default)]
pub struct ThreadInfo {
    pub idx: usize,
    pub parent: usize,
    pub stack_map: Option<usize>,
    pub exited: bool,
    /// number of system calls the thread made (the last one is its exit when `exited`)
    pub calls: u32,
    pub last_nrs: [i64; 3],
    pub exit_rec_pos: usize,
    /// clear-child-tid address was non-null when the thread exited
    pub ctid_at_exit: bool,
}

#[derive(Clone, Debug)]
pub struct Snapshot {
    pub rec_pos: usize,
    pub kind: u32,
    pub live_ranges: usize,
    pub live_bytes: u64,
    /// ids of live mappings that were used as a thread stack (clone attempted on them)
    pub live_stacks: Vec<usize>,
    /// bytes of all non-special lines of /proc/<pid>/maps
    pub proc_bytes: Option<u64>,
}

#[derive(Clone, Debug)]
pub struct Fired {
    pub what: &'static str,
    pub errno: i32,
    pub thread: usize,
    pub rec_pos: usize,
}

#[derive(Clone, Debug, PartialEq)]
pub enum End {
    Exited(i32),
    /// a fatal signal was about to be delivered to a probe thread
    Crash { thread: usize, sig: i32, rip: u64, addr: u64 },
    /// every live thread is parked (futex model / barrier): `(thread, what)`
    Deadlock(Vec<(usize, String)>),
    /// a thread reached no stop within the wall-clock limit; the run is not replayable
    Watchdog,
    Budget,
    /// clone kept failing and the program kept calling it (inside one spawn)
    SpawnStuck { attempts: u32 },
    Harness(String),
}

pub struct Out {
    pub end: End,
    pub records: Vec<Rec>,
    pub threads: Vec<ThreadInfo>,
    pub mappings: Vec<Mapping>,
    pub clones: Vec<CloneEv>,
    pub snapshots: Vec<Snapshot>,
    pub fired: Vec<Fired>,
    /// hash of the complete event log; contains no pid, tid or address
    pub hash: u64,
    /// hash of the sequence (thread, scheduling-point kind)
    pub shape: u64,
    pub events: Vec<String>,
    pub sim_ns: u64,
    pub stops: u64,
    pub single_steps: u64,
    pub bursts: u32,
    pub switches: u64,
    pub parks: u64,
    pub futex_timeouts: u64,
    pub deferred_ctid_wakes: u64,
    pub futex_eintrs: u32,
    pub wakes: u64,
    pub ctid_wakes: u64,
    pub eagain: u64,
    pub quanta: u64,
    /// set_tid_address(0) calls by spawned threads (the thread frees its own join state)
    pub set_tid_zero: u64,
    /// bursts that ended by preemption inside the window after a thread's last record / after a
    /// join or drop marker of main
    pub preempt_thread_window: u64,
    pub preempt_main_window: u64,
    /// scheduling points right after an atomic instruction (total / while >= 2 threads alive)
    pub atomic_stops: u64,
    pub atomic_stops_multi: u64,
    /// single-step bursts started while >= 2 threads were alive
    pub bursts_multi: u64,
    pub text_out: Vec<u8>,
    pub ledger_mismatch: Option<String>,
    pub sched_mode: &'static str,
}

// ---- low level -----------------------------------------------------------------------------

const NR_WRITE: i64 = 1;
const NR_MMAP: i64 = 9;
const NR_MUNMAP: i64 = 11;
const NR_BRK: i64 = 12;
const NR_MREMAP: i64 = 25;
const NR_NANOSLEEP: i64 = 35;
const NR_CLONE: i64 = 56;
const NR_EXIT: i64 = 60;
const NR_ARCH_PRCTL: i64 = 158;
const NR_FUTEX: i64 = 202;
const NR_SET_TID_ADDRESS: i64 = 218;
const NR_CLOCK_NANOSLEEP: i64 = 230;
const NR_EXIT_GROUP: i64 = 231;
const NR_CLONE3: i64 = 435;

fn nr_name(nr: i64) -> String {
    match nr {
        NR_WRITE => "write".into(),
        NR_MMAP => "mmap".into(),
        NR_MUNMAP => "munmap".into(),
        NR_BRK => "brk".into(),
        NR_MREMAP => "mremap".into(),
        NR_NANOSLEEP => "nanosleep".into(),
        NR_CLONE => "clone".into(),
        NR_EXIT => "exit".into(),
        NR_ARCH_PRCTL => "arch_prctl".into(),
        NR_FUTEX => "futex".into(),
        NR_SET_TID_ADDRESS => "set_tid_address".into(),
        NR_CLOCK_NANOSLEEP => "clock_nanosleep".into(),
        NR_EXIT_GROUP => "exit_group".into(),
        n => format!("sys{n}"),
    }
}

const PTRACE_GET_SYSCALL_INFO: libc::c_uint = 0x420e;
const SYSCALL_INFO_ENTRY: u8 = 1;
const SYSCALL_INFO_EXIT: u8 = 2;
const CLONE_CHILD_CLEARTID: u64 = 0x0020_0000;
const ADDR_NO_RANDOMIZE: libc::c_ulong = 0x0040000;

#[repr(C)]
#[derive(Clone, Copy)]
struct SyscallInfo {
    op: u8,
    pad: [u8; 3],
    arch: u32,
    ip: u64,
    sp: u64,
    /// entry: nr, args[6]; exit: rval, is_error
    data: [u64; 7],
}

fn errno() -> i32 {
    unsafe { *libc::__errno_location() }
}

static ALARM_INSTALLED: AtomicBool = AtomicBool::new(false);

extern "C" fn on_alarm(_: libc::c_int) {}

fn install_alarm_handler() {
    if ALARM_INSTALLED.swap(true, Ordering::SeqCst) {
        return;
    }
    unsafe {
        let mut sa: libc::sigaction = std::mem::zeroed();
        sa.sa_sigaction = on_alarm as extern "C" fn(libc::c_int) as usize;
        sa.sa_flags = 0; // no SA_RESTART: a blocked waitpid returns EINTR
        libc::sigemptyset(&mut sa.sa_mask);
        libc::sigaction(libc::SIGALRM, &sa, std::ptr::null_mut());
    }
}

const TICK_MS: u64 = 250;

fn arm_timer(on: bool) {
    let iv = if on {
        libc::timeval { tv_sec: 0, tv_usec: (TICK_MS * 1000) as libc::suseconds_t }
    } else {
        libc::timeval { tv_sec: 0, tv_usec: 0 }
    };
    let t = libc::itimerval { it_interval: iv, it_value: iv };
    unsafe {
        libc::setitimer(libc::ITIMER_REAL, &t, std::ptr::null_mut());
    }
}

#[derive(Debug, Clone, Copy, PartialEq)]
enum Stop {
    Syscall,
    Event(i32),
    Trap,
    Signal(i32),
    Exited(i32),
    Killed(i32),
}

#[derive(Clone, Debug)]
enum St {
    Entry { nr: i64, a: [u64; 6] },
    User,
    /// parked in FUTEX_WAIT; `timed`: the wait has a timeout (the deadline is the thread's sleep_until)
    Futex { addr: u64, private: bool, timed: bool },
    Barrier,
    Ret { ret: i64, nr: i64 },
    Dead,
}

struct Th {
    tid: i32,
    st: St,
    ctid: u64,
    sleep_until: u64,
    burst_hint: bool,
    reaped: bool,
    /// quanta for which the scheduler passes this thread over while others can run
    hold: u32,
}

enum Act {
    Real,
    Emu(i64, bool),
    Park { addr: u64, private: bool, timeout_ns: Option<u64> },
    Barrier,
    Sleep(u64),
}

type R<T> = Result<T, End>;

#[derive(Clone, Copy, PartialEq, Debug)]
enum Mode {
    Uniform,
    Sticky(u32),
    MainFirst,
    ChildFirst,
}

// event codes of the hashed log
const E_PICK: u64 = 1;
const E_SYS: u64 = 2;
const E_RET: u64 = 3;
const E_REC: u64 = 4;
const E_PARK: u64 = 5;
const E_WAKE: u64 = 6;
const E_EXIT: u64 = 7;
const E_FAULT: u64 = 8;
const E_BURST: u64 = 9;
const E_CLONE: u64 = 10;
const E_MAP: u64 = 11;
const E_SLEEP: u64 = 12;
const E_SIGNAL: u64 = 13;
const E_END: u64 = 14;
const E_BARRIER: u64 = 15;
const E_TEXT: u64 = 16;
const E_BURST_END: u64 = 17;
const E_ATOMIC: u64 = 18;

struct Tracer<'a> {
    cfg: &'a Cfg,
    dec: &'a mut Dec,
    pid: i32,
    th: Vec<Th>,
    info: Vec<ThreadInfo>,
    cur: Option<usize>,
    mode: Mode,
    trace: Trace,
    shape: Trace,
    now: u64,
    stops: u64,
    single_steps: u64,
    bursts: u32,
    switches: u64,
    parks: u64,
    timeouts: u64,
    pending_ctid_wakes: Vec<(u64, usize, u64)>,
    clone_failures_in_a_row: u32,
    futex_eintrs: u32,
    deferred_ctid_wakes: u64,
    wakes: u64,
    ctid_wakes: u64,
    eagain: u64,
    quanta: u64,
    set_tid_zero: u64,
    preempt_thread_window: u64,
    preempt_main_window: u64,
    atomic_stops: u64,
    atomic_stops_multi: u64,
    bursts_multi: u64,
    planted: HashMap<u64, (usize, u8)>,
    records: Vec<Rec>,
    mappings: Vec<Mapping>,
    /// start -> (len, mapping id, start address of the original mapping)
    live: BTreeMap<u64, (u64, usize, u64)>,
    clones: Vec<CloneEv>,
    snapshots: Vec<Snapshot>,
    fired: Vec<Fired>,
    futex_ids: HashMap<u64, u64>,
    /// FIFO of parked waiters
    waiters: Vec<usize>,
    text_out: Vec<u8>,
    in_spawn: bool,
    ledger_mismatch: Option<String>,
    proc_base: Option<(u64, u64)>,
    wd_ticks: u32,
}

static PINNED: AtomicBool = AtomicBool::new(false);

/// Tracer and tracee alternate strictly, so they belong on one CPU: a stop then costs a local
/// context switch instead of a cross-CPU wake-up (measured here: 14 us instead of 70-400 us).
/// Each tracer process claims a CPU of its own with a lock file held for the process lifetime;
/// the probe inherits the affinity.  `PTSIM_NO_PIN=1` turns this off.
fn pin_once() {
    if PINNED.swap(true, Ordering::SeqCst) || std::env::var_os("PTSIM_NO_PIN").is_some() {
        return;
    }
    unsafe {
        let mut set: libc::cpu_set_t = std::mem::zeroed();
        if libc::sched_getaffinity(0, std::mem::size_of::<libc::cpu_set_t>(), &mut set) != 0 {
            return;
        }
        let allowed: Vec<usize> = (0..libc::CPU_SETSIZE as usize).filter(|c| libc::CPU_ISSET(*c, &set)).collect();
        if allowed.len() < 2 {
            return;
        }
        let here = libc::sched_getcpu().max(0) as usize;
        let start = allowed.iter().position(|c| *c == here).unwrap_or(0);
        let dir = simk::runner::work_dir();
        for k in 0..allowed.len() {
            let cpu = allowed[(start + k) % allowed.len()];
            let Ok(path) = CString::new(dir.join(format!("ptsim-cpu-{cpu}.lock")).to_string_lossy().as_bytes()) else { return };
            let fd = libc::open(path.as_ptr(), libc::O_CREAT | libc::O_RDWR | libc::O_CLOEXEC, 0o644);
            if fd < 0 {
                continue;
            }
            if libc::flock(fd, libc::LOCK_EX | libc::LOCK_NB) == 0 {
                let mut one: libc::cpu_set_t = std::mem::zeroed();
                libc::CPU_SET(cpu, &mut one);
                libc::sched_setaffinity(0, std::mem::size_of::<libc::cpu_set_t>(), &one);
                return; // the descriptor stays open: the claim lasts as long as the process
            }
            libc::close(fd);
        }
    }
}

pub fn run(cfg: &Cfg, dec: &mut Dec) -> Out {
    install_alarm_handler();
    pin_once();
    let mut t = Tracer {
        cfg,
        dec,
        pid: 0,
        th: Vec::new(),
        info: Vec::new(),
        cur: None,
        mode: Mode::Uniform,
        trace: Trace::new(cfg.record),
        shape: Trace::new(false),
        now: 0,
        stops: 0,
        single_steps: 0,
        bursts: 0,
        switches: 0,
        parks: 0,
        timeouts: 0,
        pending_ctid_wakes: Vec::new(),
        clone_failures_in_a_row: 0,
        futex_eintrs: 0,
        deferred_ctid_wakes: 0,
        wakes: 0,
        ctid_wakes: 0,
        eagain: 0,
        quanta: 0,
        set_tid_zero: 0,
        preempt_thread_window: 0,
        preempt_main_window: 0,
        atomic_stops: 0,
        atomic_stops_multi: 0,
        bursts_multi: 0,
        planted: HashMap::new(),
        records: Vec::new(),
        mappings: Vec::new(),
        live: BTreeMap::new(),
        clones: Vec::new(),
        snapshots: Vec::new(),
        fired: Vec::new(),
        futex_ids: HashMap::new(),
        waiters: Vec::new(),
        text_out: Vec::new(),
        in_spawn: false,
        ledger_mismatch: None,
        proc_base: None,
        wd_ticks: (cfg.watchdog_ms / TICK_MS).max(2) as u32,
    };
    t.trace.cap = 20_000;
    arm_timer(true);
    let end = match t.start().and_then(|()| t.main_loop()) {
        Ok(e) | Err(e) => e,
    };
    t.cleanup();
    arm_timer(false);
    t.log(0, E_END, end_code(&end), 0, || format!("end: {end:?}"));
    Out {
        end,
        records: t.records,
        threads: t.info,
        mappings: t.mappings,
        clones: t.clones,
        snapshots: t.snapshots,
        fired: t.fired,
        hash: t.trace.hash,
        shape: t.shape.hash,
        events: t.trace.events.take().unwrap_or_default(),
        sim_ns: t.now,
        stops: t.stops,
        single_steps: t.single_steps,
        bursts: t.bursts,
        switches: t.switches,
        parks: t.parks,
        futex_timeouts: t.timeouts,
        deferred_ctid_wakes: t.deferred_ctid_wakes,
        futex_eintrs: t.futex_eintrs,
        wakes: t.wakes,
        ctid_wakes: t.ctid_wakes,
        eagain: t.eagain,
        quanta: t.quanta,
        set_tid_zero: t.set_tid_zero,
        preempt_thread_window: t.preempt_thread_window,
        preempt_main_window: t.preempt_main_window,
        atomic_stops: t.atomic_stops,
        atomic_stops_multi: t.atomic_stops_multi,
        bursts_multi: t.bursts_multi,
        text_out: t.text_out,
        ledger_mismatch: t.ledger_mismatch,
        sched_mode: match t.mode {
            Mode::Uniform => "uniform",
            Mode::Sticky(_) => "sticky",
            Mode::MainFirst => "main-first",
            Mode::ChildFirst => "child-first",
        },
    }
}

fn end_code(e: &End) -> u64 {
    match e {
        End::Exited(c) => 0x100 | (*c as u64 & 0xff),
        End::Crash { thread, sig, .. } => 0x200 | (*sig as u64) << 16 | *thread as u64,
        End::Deadlock(v) => 0x300 | (v.len() as u64) << 16,
        End::SpawnStuck { attempts } => 0x600 | u64::from(*attempts) << 16,
        End::Watchdog => 0x400,
        End::Budget => 0x500,
        End::Harness(_) => 0x600,
    }
}

impl<'a> Tracer<'a> {
    #[inline]
    fn log(&mut self, thread: usize, code: u64, a: u64, b: u64, f: impl FnOnce() -> String) {
        self.trace.mix((thread as u64) << 8 | code, a);
        self.trace.mix(b, 0x5bd1_e995);
        self.trace.ev(f);
    }

    fn ptrace(&self, req: libc::c_uint, tid: i32, addr: usize, data: usize) -> R<i64> {
        unsafe { *libc::__errno_location() = 0 };
        let r = unsafe { libc::ptrace(req, tid, addr, data) };
        if r == -1 && errno() != 0 {
            return Err(End::Harness(format!("ptrace request {req:#x} on thread failed: errno {}", errno())));
        }
        Ok(r)
    }

    fn getregs(&self, tid: i32) -> R<libc::user_regs_struct> {
        let mut regs: libc::user_regs_struct = unsafe { std::mem::zeroed() };
        self.ptrace(libc::PTRACE_GETREGS, tid, 0, &mut regs as *mut _ as usize)?;
        Ok(regs)
    }

    fn setregs(&self, tid: i32, regs: &libc::user_regs_struct) -> R<()> {
        self.ptrace(libc::PTRACE_SETREGS, tid, 0, regs as *const _ as usize)?;
        Ok(())
    }

    fn sysinfo(&self, tid: i32) -> R<SyscallInfo> {
        let mut si: SyscallInfo = unsafe { std::mem::zeroed() };
        self.ptrace(PTRACE_GET_SYSCALL_INFO, tid, std::mem::size_of::<SyscallInfo>(), &mut si as *mut _ as usize)?;
        Ok(si)
    }

    fn peek(&self, tid: i32, addr: u64) -> R<u64> {
        Ok(self.ptrace(libc::PTRACE_PEEKDATA, tid, addr as usize, 0)? as u64)
    }

    fn peek_u32(&self, tid: i32, addr: u64) -> Option<u32> {
        let base = addr & !7;
        let w = self.peek(tid, base).ok()?;
        Some((w >> ((addr & 7) * 8)) as u32)
    }

    fn read_mem(&self, addr: u64, len: usize) -> Option<Vec<u8>> {
        let mut buf = vec![0u8; len];
        let local = libc::iovec { iov_base: buf.as_mut_ptr().cast(), iov_len: len };
        let remote = libc::iovec { iov_base: addr as *mut libc::c_void, iov_len: len };
        let r = unsafe { libc::process_vm_readv(self.pid, &local, 1, &remote, 1, 0) };
        if r == len as isize {
            Some(buf)
        } else {
            None
        }
    }

    fn wait_tid(&mut self, tid: i32) -> R<Stop> {
        let mut st: libc::c_int = 0;
        let mut ticks = 0;
        loop {
            let r = unsafe { libc::waitpid(tid, &mut st, libc::__WALL) };
            if r == tid {
                break;
            }
            let e = errno();
            if r < 0 && e == libc::EINTR {
                ticks += 1;
                if ticks > self.wd_ticks {
                    return Err(End::Watchdog);
                }
                continue;
            }
            return Err(End::Harness(format!("waitpid: errno {e}")));
        }
        self.stops += 1;
        Ok(if libc::WIFEXITED(st) {
            Stop::Exited(libc::WEXITSTATUS(st))
        } else if libc::WIFSIGNALED(st) {
            Stop::Killed(libc::WTERMSIG(st))
        } else if libc::WIFSTOPPED(st) {
            let sig = libc::WSTOPSIG(st);
            let ev = (st >> 16) & 0xff;
            if sig == (libc::SIGTRAP | 0x80) {
                Stop::Syscall
            } else if sig == libc::SIGTRAP && ev != 0 {
                Stop::Event(ev)
            } else if sig == libc::SIGTRAP {
                Stop::Trap
            } else {
                Stop::Signal(sig)
            }
        } else {
            return Err(End::Harness(format!("unexpected wait status {st:#x}")));
        })
    }

    // ---- start-up --------------------------------------------------------------------------

    fn start(&mut self) -> R<()> {
        let path = CString::new(self.cfg.probe.to_string_lossy().as_bytes()).map_err(|_| End::Harness("probe path".into()))?;
        let mut argv_c: Vec<CString> = vec![CString::new("threads-probe").unwrap()];
        for a in &self.cfg.args {
            argv_c.push(CString::new(a.as_bytes()).map_err(|_| End::Harness("arg".into()))?);
        }
        let mut argv: Vec<*const libc::c_char> = argv_c.iter().map(|c| c.as_ptr()).collect();
        argv.push(std::ptr::null());
        let envp: [*const libc::c_char; 1] = [std::ptr::null()];
        if !self.cfg.probe.exists() {
            return Err(End::Harness(format!("probe binary {} does not exist (run bin/setup)", self.cfg.probe.display())));
        }
        let pid = unsafe { libc::fork() };
        if pid < 0 {
            return Err(End::Harness(format!("fork: errno {}", errno())));
        }
        if pid == 0 {
            unsafe {
                // timers are not inherited across fork, signal dispositions are reset by exec
                libc::personality(ADDR_NO_RANDOMIZE);
                if libc::ptrace(libc::PTRACE_TRACEME, 0, 0, 0) != 0 {
                    libc::_exit(125);
                }
                libc::raise(libc::SIGSTOP);
                libc::syscall(libc::SYS_close_range, 3u32, u32::MAX, 0u32);
                libc::execve(path.as_ptr(), argv.as_ptr(), envp.as_ptr());
                libc::_exit(126);
            }
        }
        self.pid = pid;
        self.th.push(Th { tid: pid, st: St::User, ctid: 0, sleep_until: 0, burst_hint: false, reaped: false, hold: 0 });
        self.info.push(ThreadInfo { idx: 0, ..ThreadInfo::default() });
        match self.wait_tid(pid)? {
            Stop::Signal(libc::SIGSTOP) => {}
            o => return Err(End::Harness(format!("probe did not stop before exec: {o:?}"))),
        }
        let opts = libc::PTRACE_O_TRACESYSGOOD | libc::PTRACE_O_TRACECLONE | libc::PTRACE_O_TRACEEXEC | libc::PTRACE_O_EXITKILL;
        self.ptrace(libc::PTRACE_SETOPTIONS, pid, 0, opts as usize)?;
        self.ptrace(libc::PTRACE_CONT, pid, 0, 0)?;
        match self.wait_tid(pid)? {
            Stop::Event(libc::PTRACE_EVENT_EXEC) => {}
            o => return Err(End::Harness(format!("probe did not reach exec: {o:?}"))),
        }
        // the exit stop of execve itself
        self.ptrace(libc::PTRACE_SYSCALL, pid, 0, 0)?;
        match self.wait_tid(pid)? {
            Stop::Syscall if self.sysinfo(pid)?.op == SYSCALL_INFO_EXIT => {}
            o => return Err(End::Harness(format!("expected the exit stop of execve, got {o:?}"))),
        }
        if !self.cfg.atomic_sites.is_empty() {
            self.plant_sites()?;
        }
        // scheduling mode of this run
        self.mode = match self.dec.choose(K::Cfg, 6) {
            0 => Mode::Uniform,
            1 | 2 if self.cfg.prefer_uniform => Mode::Uniform,
            1 => Mode::Sticky(2),
            2 => Mode::Sticky(4),
            3 => Mode::Sticky(16),
            4 => Mode::MainFirst,
            _ => Mode::ChildFirst,
        };
        let m = self.mode;
        self.log(0, E_PICK, 0xffff, 0, || format!("probe started; scheduling mode {m:?}"));
        Ok(())
    }

    // ---- scheduler -------------------------------------------------------------------------

    fn runnable(&self, t: usize) -> bool {
        // a timed futex wait can always proceed: by timing out
        matches!(self.th[t].st, St::Entry { .. } | St::User | St::Ret { .. } | St::Futex { timed: true, .. })
    }

    fn pick(&mut self) -> R<usize> {
        let live: Vec<usize> = (0..self.th.len()).filter(|&t| !matches!(self.th[t].st, St::Dead)).collect();
        if live.len() == 1 {
            let t = live[0];
            if matches!(self.th[t].st, St::Barrier) {
                self.th[t].st = St::Ret { ret: REC_SIZE as i64, nr: NR_WRITE };
                self.log(t, E_BARRIER, 1, 0, || format!("t{t} barrier released: it is the only live thread"));
            }
        }
        let mut cands: Vec<usize> = live.iter().copied().filter(|&t| self.runnable(t)).collect();
        if cands.is_empty() && !self.pending_ctid_wakes.is_empty() {
            // nobody can run until the kernel gets round to its wake
            self.deliver_ctid_wakes(true);
            cands = live.iter().copied().filter(|&t| self.runnable(t)).collect();
        }
        if cands.is_empty() {
            if live.is_empty() {
                return Err(End::Harness("no live thread and no exit status".into()));
            }
            let mut v = Vec::new();
            for &t in &live {
                let what = match &self.th[t].st {
                    St::Futex { addr, .. } => format!("futex-wait f{}", self.futex_ids.get(addr).copied().unwrap_or(0)),
                    St::Barrier => "barrier".to_string(),
                    o => format!("{o:?}"),
                };
                v.push((t, what));
            }
            return Err(End::Deadlock(v));
        }
        // sleepers run when nothing else can, or now and then by decision
        let awake: Vec<usize> = cands.iter().copied().filter(|&t| self.th[t].sleep_until <= self.now).collect();
        if !awake.is_empty() && awake.len() < cands.len() && !self.dec.chance(K::Sched, 1, 6) {
            cands = awake;
        }
        // threads held back inside a window behind an atomic instruction
        let unheld: Vec<usize> = cands.iter().copied().filter(|&t| self.th[t].hold == 0).collect();
        if !unheld.is_empty() && unheld.len() < cands.len() {
            cands = unheld;
        }
        for x in &mut self.th {
            x.hold = x.hold.saturating_sub(1);
        }
        let n = cands.len();
        let cur_in = self.cur.filter(|c| cands.contains(c));
        let uniform = |s: &mut Self, cands: &[usize]| -> usize {
            // candidate 0 = the current thread when it is runnable
            let mut order: Vec<usize> = Vec::with_capacity(cands.len());
            if let Some(c) = cur_in {
                order.push(c);
            }
            order.extend(cands.iter().copied().filter(|t| Some(*t) != cur_in));
            order[s.dec.choose(K::Sched, order.len() as u32) as usize]
        };
        let t = if n == 1 {
            cands[0]
        } else {
            match self.mode {
                Mode::Uniform => uniform(self, &cands),
                Mode::Sticky(d) => match cur_in {
                    Some(c) => {
                        if self.dec.chance(K::Sched, 1, d) {
                            let others: Vec<usize> = cands.iter().copied().filter(|t| *t != c).collect();
                            others[self.dec.choose(K::Sched, others.len() as u32) as usize]
                        } else {
                            c
                        }
                    }
                    None => uniform(self, &cands),
                },
                Mode::MainFirst => {
                    if self.dec.chance(K::Sched, 1, 6) {
                        uniform(self, &cands)
                    } else {
                        cands[0]
                    }
                }
                Mode::ChildFirst => {
                    if self.dec.chance(K::Sched, 1, 6) {
                        uniform(self, &cands)
                    } else {
                        cands[n - 1]
                    }
                }
            }
        };
        if self.th[t].sleep_until > self.now {
            self.now = self.th[t].sleep_until;
        }
        self.th[t].sleep_until = 0;
        if self.cur != Some(t) {
            if self.cur.is_some() {
                self.switches += 1;
            }
            let point = match &self.th[t].st {
                St::Entry { nr, .. } => *nr as u64,
                St::Ret { nr, .. } => 0x1000 | *nr as u64,
                _ => 0x2000,
            };
            self.shape.mix(t as u64, point);
            self.log(t, E_PICK, point, 0, || format!("-- switch to t{t}"));
            self.cur = Some(t);
        }
        Ok(t)
    }

    fn main_loop(&mut self) -> R<End> {
        loop {
            if self.stops > self.cfg.max_stops {
                return Err(End::Budget);
            }
            if !self.pending_ctid_wakes.is_empty() {
                self.deliver_ctid_wakes(false);
            }
            let t = self.pick()?;
            self.quanta += 1;
            self.now += 1_000;
            if let Some(end) = self.quantum(t)? {
                return Ok(end);
            }
        }
    }

    // ---- one quantum -----------------------------------------------------------------------

    fn quantum(&mut self, t: usize) -> R<Option<End>> {
        let st = std::mem::replace(&mut self.th[t].st, St::User);
        match st {
            St::Entry { nr, a } => {
                self.info[t].calls += 1;
                let l = &mut self.info[t].last_nrs;
                *l = [l[1], l[2], nr];
                match self.on_syscall(t, nr, a)? {
                    Act::Park { addr, private, timeout_ns } => {
                        self.th[t].st = St::Futex { addr, private, timed: timeout_ns.is_some() };
                        if let Some(ns) = timeout_ns {
                            self.th[t].sleep_until = self.now.saturating_add(ns).max(1);
                        }
                        self.waiters.push(t);
                        self.parks += 1;
                        return Ok(None);
                    }
                    Act::Barrier => {
                        self.th[t].st = St::Barrier;
                        return Ok(None);
                    }
                    Act::Sleep(ns) => {
                        self.th[t].st = St::Ret { ret: 0, nr };
                        self.th[t].sleep_until = self.now.saturating_add(ns);
                        return Ok(None);
                    }
                    Act::Emu(ret, injected) => {
                        self.skip(t, ret)?;
                        self.post(t, nr, a, ret, injected)?;
                    }
                    Act::Real => match self.exec_real(t, nr, a)? {
                        Ok(ret) => self.post(t, nr, a, ret, false)?,
                        Err(None) => return Ok(None),
                        Err(Some(end)) => return Ok(Some(end)),
                    },
                }
            }
            St::Ret { ret, nr } => {
                self.skip(t, ret)?;
                self.log(t, E_RET, nr as u64, ret as u64, || format!("t{t} {} returns {ret}", nr_name(nr)));
            }
            St::User => {}
            St::Futex { addr, timed: true, .. } => {
                // picked while still parked: the wait times out (pick() moved the clock to its deadline)
                self.waiters.retain(|x| *x != t);
                let ret = -(libc::ETIMEDOUT as i64);
                self.skip(t, ret)?;
                let fid = self.futex_id(addr);
                self.timeouts += 1;
                self.log(t, E_RET, NR_FUTEX as u64, ret as u64, || format!("t{t} futex_wait(f{fid}) times out (simulated clock)"));
            }
            o => return Err(End::Harness(format!("scheduled a thread in state {o:?}"))),
        }
        self.run_on(t)
    }

    /// The thread is stopped at a syscall-entry stop: make the kernel skip the call and stop at
    /// the exit, then set the return register.
    fn skip(&mut self, t: usize, ret: i64) -> R<()> {
        let tid = self.th[t].tid;
        let mut regs = self.getregs(tid)?;
        regs.orig_rax = u64::MAX;
        self.setregs(tid, &regs)?;
        self.ptrace(libc::PTRACE_SYSCALL, tid, 0, 0)?;
        match self.wait_tid(tid)? {
            Stop::Syscall => {}
            o => return Err(End::Harness(format!("skipped call: expected the exit stop, got {o:?}"))),
        }
        regs.rax = ret as u64;
        self.setregs(tid, &regs)
    }

    /// Perform the pending call for real.  Ok(ret) = the call returned; Err(None) = the thread is
    /// gone (exit); Err(Some(end)) = the process is gone.
    fn exec_real(&mut self, t: usize, nr: i64, a: [u64; 6]) -> R<Result<i64, Option<End>>> {
        let tid = self.th[t].tid;
        self.ptrace(libc::PTRACE_SYSCALL, tid, 0, 0)?;
        if nr == NR_EXIT_GROUP {
            // every thread dies; the leader's status is reported last
            let mut code = 0;
            for i in (0..self.th.len()).rev() {
                if self.th[i].reaped {
                    continue;
                }
                let tid = self.th[i].tid;
                loop {
                    match self.wait_tid(tid)? {
                        Stop::Exited(c) | Stop::Killed(c) => {
                            code = c;
                            break;
                        }
                        _ => {
                            self.ptrace(libc::PTRACE_CONT, tid, 0, 0)?;
                        }
                    }
                }
                self.th[i].reaped = true;
                self.th[i].st = St::Dead;
            }
            self.log(t, E_EXIT, 0xeeee, code as u64, || format!("t{t} exit_group({}) -> process gone", a[0] as i32));
            return Ok(Err(Some(End::Exited(code))));
        }
        let mut stop = self.wait_tid(tid)?;
        let mut child: Option<usize> = None;
        if let Stop::Event(libc::PTRACE_EVENT_CLONE) = stop {
            let mut msg: libc::c_ulong = 0;
            self.ptrace(libc::PTRACE_GETEVENTMSG, tid, 0, &mut msg as *mut _ as usize)?;
            let ctid = msg as i32;
            match self.wait_tid(ctid)? {
                Stop::Signal(libc::SIGSTOP) => {}
                o => return Err(End::Harness(format!("new thread: expected its initial stop, got {o:?}"))),
            }
            let idx = self.th.len();
            let cleartid = if a[0] & CLONE_CHILD_CLEARTID != 0 { a[3] } else { 0 };
            self.th.push(Th { tid: ctid, st: St::User, ctid: cleartid, sleep_until: 0, burst_hint: false, reaped: false, hold: 0 });
            self.info.push(ThreadInfo { idx, parent: t, ..ThreadInfo::default() });
            child = Some(idx);
            self.ptrace(libc::PTRACE_SYSCALL, tid, 0, 0)?;
            stop = self.wait_tid(tid)?;
        }
        match stop {
            Stop::Syscall => {
                let si = self.sysinfo(tid)?;
                if si.op != SYSCALL_INFO_EXIT {
                    return Err(End::Harness(format!("expected a syscall-exit stop after {}", nr_name(nr))));
                }
                let mut ret = si.data[0] as i64;
                if nr == NR_CLONE {
                    let stack_map = self.map_containing(a[1].wrapping_sub(1));
                    if let Some(m) = stack_map {
                        self.mappings[m].clone_attempted = true;
                    }
                    match child {
                        Some(c) if ret > 0 => {
                            if let Some(m) = stack_map {
                                self.mappings[m].stack_of = Some(c);
                            }
                            self.info[c].stack_map = stack_map;
                            self.clones.push(CloneEv { parent: t, rec_pos: self.records.len(), child: Some(c), errno: 0, injected: false, stack_map });
                            self.log(t, E_CLONE, c as u64, stack_map.map_or(u64::MAX, |m| m as u64), || {
                                format!("t{t} clone -> new thread t{c} on stack mapping {}", stack_map.map_or("?".into(), |m| format!("m{m}")))
                            });
                            // normalised: the tid never enters the log
                            ret = 0x7000_0000 + c as i64;
                        }
                        _ => {
                            self.clones.push(CloneEv { parent: t, rec_pos: self.records.len(), child: None, errno: (-ret) as i32, injected: false, stack_map });
                        }
                    }
                }
                Ok(Ok(ret))
            }
            Stop::Exited(code) | Stop::Killed(code) => {
                self.th[t].reaped = true;
                if t == 0 && nr == NR_EXIT && self.th.iter().enumerate().all(|(i, x)| i == 0 || matches!(x.st, St::Dead)) {
                    for x in &mut self.th {
                        x.st = St::Dead;
                    }
                    self.log(t, E_EXIT, 0xeeee, code as u64, || format!("t{t} {}({}) -> process gone", nr_name(nr), a[0] as i32));
                    return Ok(Err(Some(End::Exited(code))));
                }
                if nr != NR_EXIT {
                    return Err(End::Harness(format!("thread vanished in {}", nr_name(nr))));
                }
                self.thread_exited(t);
                Ok(Err(None))
            }
            Stop::Signal(sig) => Ok(Err(Some(self.crash(t, sig)?))),
            o => Err(End::Harness(format!("unexpected stop {o:?} while executing {}", nr_name(nr)))),
        }
    }

    fn crash(&mut self, t: usize, sig: i32) -> R<End> {
        let tid = self.th[t].tid;
        let rip = self.getregs(tid).map(|r| r.rip).unwrap_or(0);
        let mut si: libc::siginfo_t = unsafe { std::mem::zeroed() };
        let addr = if self.ptrace(libc::PTRACE_GETSIGINFO, tid, 0, &mut si as *mut _ as usize).is_ok() {
            unsafe { si.si_addr() as u64 }
        } else {
            0
        };
        self.log(t, E_SIGNAL, sig as u64, 0, || format!("t{t} receives signal {sig} at rip {rip:#x} (fault address {addr:#x})"));
        Ok(End::Crash { thread: t, sig, rip, addr })
    }

    fn thread_exited(&mut self, t: usize) {
        self.th[t].st = St::Dead;
        self.info[t].exited = true;
        self.info[t].exit_rec_pos = self.records.len();
        let ctid = self.th[t].ctid;
        self.info[t].ctid_at_exit = ctid != 0;
        let fid = if ctid != 0 { self.futex_id(ctid) } else { u64::MAX };
        self.log(t, E_EXIT, fid, 0, || {
            if ctid != 0 {
                format!("t{t} exited; kernel cleared its tid word f{fid}")
            } else {
                format!("t{t} exited (no clear-tid address)")
            }
        });
        if ctid != 0 {
            // the kernel wrote 0 and did FUTEX_WAKE(1) on a shared key: wake one emulated waiter,
            // now or (two separate steps in the kernel) a few quanta later
            let delay = if self.cfg.defer_ctid_wake_max > 0 { self.dec.choose(K::Sched, self.cfg.defer_ctid_wake_max + 1) } else { 0 };
            if delay == 0 {
                let n = self.wake(t, ctid, false, 1);
                self.ctid_wakes += n;
            } else {
                self.pending_ctid_wakes.push((self.quanta + u64::from(delay), t, ctid));
                self.deferred_ctid_wakes += 1;
            }
        }
    }

    /// Deliver the deferred clear-tid wakes that are due (all of them when `all`).
    fn deliver_ctid_wakes(&mut self, all: bool) {
        let now = self.quanta;
        let mut i = 0;
        while i < self.pending_ctid_wakes.len() {
            if all || self.pending_ctid_wakes[i].0 <= now {
                let (_, by, addr) = self.pending_ctid_wakes.remove(i);
                let n = self.wake(by, addr, false, 1);
                self.ctid_wakes += n;
            } else {
                i += 1;
            }
        }
    }

    fn futex_id(&mut self, addr: u64) -> u64 {
        let n = self.futex_ids.len() as u64;
        *self.futex_ids.entry(addr).or_insert(n)
    }

    fn wake(&mut self, by: usize, addr: u64, private: bool, max: u64) -> u64 {
        let mut woken = 0;
        while woken < max {
            let c: Vec<usize> = self
                .waiters
                .iter()
                .copied()
                .filter(|&w| matches!(self.th[w].st, St::Futex { addr: a, private: p, .. } if a == addr && p == private))
                .collect();
            if c.is_empty() {
                break;
            }
            let w = c[self.dec.choose(K::Wake, c.len() as u32) as usize];
            self.waiters.retain(|x| *x != w);
            self.th[w].st = St::Ret { ret: 0, nr: NR_FUTEX };
            self.th[w].sleep_until = 0;
            self.wakes += 1;
            woken += 1;
            let fid = self.futex_id(addr);
            self.log(by, E_WAKE, w as u64, fid, || format!("t{by} wakes t{w} (f{fid})"));
        }
        woken
    }

    // ---- system calls ----------------------------------------------------------------------

    fn fault(&mut self, t: usize, what: &'static str, errnos: &[i32]) -> Option<i32> {
        let cfg: &'a Cfg = self.cfg;
        let f = &cfg.faults;
        if f.num == 0 || self.fired.len() as u32 >= f.max_per_run {
            return None;
        }
        if !self.dec.chance(K::Fault, f.num, f.den) {
            return None;
        }
        let e = errnos[self.dec.choose(K::Fault, errnos.len() as u32) as usize];
        self.fired.push(Fired { what, errno: e, thread: t, rec_pos: self.records.len() });
        self.log(t, E_FAULT, e as u64, what.len() as u64, || format!("t{t} fault injected: {what} -> -{e}"));
        Some(e)
    }

    fn on_syscall(&mut self, t: usize, nr: i64, a: [u64; 6]) -> R<Act> {
        match nr {
            NR_WRITE => {
                let fd = a[0] as i32;
                if fd == REPORT_FD && a[2] as usize == REC_SIZE {
                    let Some(b) = self.read_mem(a[1], REC_SIZE) else {
                        return Ok(Act::Emu(-(libc::EFAULT as i64), false));
                    };
                    let kind = u32::from_le_bytes(b[0..4].try_into().unwrap());
                    let tag = u32::from_le_bytes(b[4..8].try_into().unwrap());
                    let mut v = [0u64; 7];
                    for (i, x) in v.iter_mut().enumerate() {
                        *x = u64::from_le_bytes(b[8 + 8 * i..16 + 8 * i].try_into().unwrap());
                    }
                    let mut h = 0u64;
                    for x in &v {
                        h = vfold(h, *x);
                    }
                    self.log(t, E_REC, (kind as u64) << 32 | tag as u64, h, || format!("t{t} record {} tag={tag} {:x?}", rec_name(kind), v));
                    self.records.push(Rec { thread: t, kind, tag, v });
                    match kind {
                        R_START | R_WORK => self.th[t].burst_hint = v[6] == 1,
                        R_JOINING | R_JOINED | R_DROPPING | R_DROPPED => self.th[t].burst_hint = true,
                        R_SPAWNING => self.in_spawn = true,
                        R_SPAWNED => self.in_spawn = false,
                        R_BASELINE | R_BATCH_END | R_ROUND_END => self.snapshot(kind),
                        R_QUIESCE => {
                            self.log(t, E_BARRIER, 0, 0, || format!("t{t} waits at the end-of-batch barrier"));
                            return Ok(Act::Barrier);
                        }
                        _ => {}
                    }
                    return Ok(Act::Emu(REC_SIZE as i64, false));
                }
                if fd == 1 || fd == 2 {
                    let len = (a[2] as usize).min(4096);
                    let b = self.read_mem(a[1], len).unwrap_or_default();
                    if self.text_out.len() < 16384 {
                        self.text_out.extend_from_slice(&b);
                    }
                    let mut h = 0u64;
                    for x in &b {
                        h = vfold(h, u64::from(*x));
                    }
                    self.log(t, E_TEXT, fd as u64, h, || format!("t{t} writes to fd {fd}: {:?}", String::from_utf8_lossy(&b)));
                    return Ok(Act::Emu(a[2] as i64, false));
                }
                Ok(Act::Real)
            }
            NR_FUTEX => {
                let cmd = a[1] & 0x7f;
                let private = a[1] & 128 != 0;
                let fid = self.futex_id(a[0]);
                match cmd {
                    0 => {
                        // relative timeout of FUTEX_WAIT, on the simulated clock
                        let timeout_ns = if a[3] != 0 {
                            match self.read_mem(a[3], 16) {
                                Some(b) => {
                                    let s = i64::from_le_bytes(b[0..8].try_into().unwrap());
                                    let n = i64::from_le_bytes(b[8..16].try_into().unwrap());
                                    if s < 0 || !(0..1_000_000_000).contains(&n) {
                                        return Ok(Act::Emu(-(libc::EINVAL as i64), false));
                                    }
                                    Some((s as u64).saturating_mul(1_000_000_000).saturating_add(n as u64))
                                }
                                None => return Ok(Act::Emu(-(libc::EFAULT as i64), false)),
                            }
                        } else {
                            None
                        };
                        let tid = self.th[t].tid;
                        let Some(w) = self.peek_u32(tid, a[0]) else {
                            self.log(t, E_RET, NR_FUTEX as u64, (-(libc::EFAULT as i64)) as u64, || format!("t{t} futex_wait(f{fid}) -> EFAULT"));
                            return Ok(Act::Emu(-(libc::EFAULT as i64), false));
                        };
                        if w != a[2] as u32 {
                            self.eagain += 1;
                            return Ok(Act::Emu(-(libc::EAGAIN as i64), false));
                        }
                        if self.cfg.futex_eintr_den > 0 && self.futex_eintrs < 3 && self.dec.chance(K::Fault, 1, self.cfg.futex_eintr_den) {
                            self.futex_eintrs += 1;
                            self.log(t, E_FAULT, libc::EINTR as u64, 11, || format!("t{t} fault: futex_wait(f{fid}) interrupted -> -EINTR"));
                            return Ok(Act::Emu(-(libc::EINTR as i64), true));
                        }
                        if self.cfg.faults.spurious_futex && self.fault(t, "spurious_futex", &[0]).is_some() {
                            return Ok(Act::Emu(0, true));
                        }
                        self.log(t, E_PARK, fid, u64::from(private), || format!("t{t} futex_wait(f{fid}, {w}) parks{}", if private { " (private)" } else { "" }));
                        Ok(Act::Park { addr: a[0], private, timeout_ns })
                    }
                    1 => {
                        let n = self.wake(t, a[0], private, a[2] & 0x7fff_ffff);
                        Ok(Act::Emu(n as i64, false))
                    }
                    _ => Err(End::Harness(format!("futex command {cmd} is not modelled"))),
                }
            }
            NR_NANOSLEEP | NR_CLOCK_NANOSLEEP => {
                let (req, abs) = if nr == NR_NANOSLEEP { (a[0], false) } else { (a[2], a[1] & 1 != 0) };
                let ns = match self.read_mem(req, 16) {
                    Some(b) if !abs => {
                        let s = i64::from_le_bytes(b[0..8].try_into().unwrap());
                        let n = i64::from_le_bytes(b[8..16].try_into().unwrap());
                        if s < 0 || !(0..1_000_000_000).contains(&n) {
                            return Ok(Act::Emu(-(libc::EINVAL as i64), false));
                        }
                        (s as u64).saturating_mul(1_000_000_000).saturating_add(n as u64)
                    }
                    Some(_) => 0,
                    None => return Ok(Act::Emu(-(libc::EFAULT as i64), false)),
                };
                self.log(t, E_SLEEP, ns, 0, || format!("t{t} sleeps {ns} ns (simulated clock)"));
                Ok(Act::Sleep(ns))
            }
            NR_MMAP => {
                if self.cfg.faults.mmap_stack && self.in_spawn && a[1] == self.cfg.stack_len && a[0] == 0 {
                    if let Some(e) = self.fault(t, "mmap_stack", &[libc::ENOMEM]) {
                        return Ok(Act::Emu(-(e as i64), true));
                    }
                }
                Ok(Act::Real)
            }
            NR_CLONE => {
                if self.cfg.clone_keeps_failing && self.fired.iter().any(|f| f.what == "clone") {
                    self.clone_failures_in_a_row += 1;
                    if self.clone_failures_in_a_row >= 200 {
                        return Err(End::SpawnStuck { attempts: self.clone_failures_in_a_row });
                    }
                    self.fired.push(Fired { what: "clone", errno: libc::EAGAIN, thread: t, rec_pos: self.records.len() });
                    self.log(t, E_FAULT, libc::EAGAIN as u64, 5, || format!("t{t} fault: clone keeps failing -> -EAGAIN"));
                    return Ok(Act::Emu(-(libc::EAGAIN as i64), true));
                }
                if self.cfg.faults.clone {
                    if let Some(e) = self.fault(t, "clone", &[libc::EAGAIN, libc::ENOMEM]) {
                        return Ok(Act::Emu(-(e as i64), true));
                    }
                }
                Ok(Act::Real)
            }
            NR_MUNMAP => {
                if self.cfg.faults.munmap {
                    if let Some(e) = self.fault(t, "munmap", &[libc::EINVAL]) {
                        return Ok(Act::Emu(-(e as i64), true));
                    }
                }
                Ok(Act::Real)
            }
            NR_CLONE3 => Err(End::Harness("clone3 is not modelled".into())),
            _ => Ok(Act::Real),
        }
    }

    fn map_containing(&self, addr: u64) -> Option<usize> {
        let (start, (len, id, _)) = self.live.range(..=addr).next_back()?;
        if addr < start + len {
            Some(*id)
        } else {
            None
        }
    }

    /// remove [addr, addr+len) from the live ranges; returns (mapping id, offset, cut length)
    fn cut(&mut self, addr: u64, len: u64) -> Vec<(usize, u64, u64)> {
        let end = addr.saturating_add(len);
        let keys: Vec<u64> = self
            .live
            .range(..end)
            .filter(|(s, (l, _, _))| **s + *l > addr)
            .map(|(s, _)| *s)
            .collect();
        let mut out = Vec::new();
        for s in keys {
            let (l, id, base) = self.live.remove(&s).unwrap();
            let e = s + l;
            let cs = s.max(addr);
            let ce = e.min(end);
            if s < cs {
                self.live.insert(s, (cs - s, id, base));
            }
            if ce < e {
                self.live.insert(ce, (e - ce, id, base));
            }
            self.mappings[id].live_bytes -= ce - cs;
            out.push((id, cs - base, ce - cs));
        }
        out
    }

    fn new_mapping(&mut self, t: usize, addr: u64, len: u64) -> usize {
        let _ = self.cut(addr, len);
        let id = self.mappings.len();
        self.mappings.push(Mapping {
            id,
            len,
            by_thread: t,
            rec_pos: self.records.len(),
            stack_of: None,
            clone_attempted: false,
            live_bytes: len,
            unmaps: Vec::new(),
        });
        self.live.insert(addr, (len, id, addr));
        id
    }

    /// Ledgers and the hashed result of a completed call.
    fn post(&mut self, t: usize, nr: i64, a: [u64; 6], ret: i64, injected: bool) -> R<()> {
        let rec_pos = self.records.len();
        let page = |x: u64| x.wrapping_add(4095) & !4095;
        // value that enters the hash: never an address or a tid
        let mut norm = if ret < 0 && ret > -4096 { ret as u64 } else { 0 };
        match nr {
            NR_WRITE if a[0] as i32 == REPORT_FD => return Ok(()),
            NR_MMAP => {
                if ret >= 0 || ret < -4095 {
                    let id = self.new_mapping(t, ret as u64, page(a[1]));
                    self.log(t, E_MAP, 1, id as u64 ^ a[1] << 20, || format!("t{t} mmap({} bytes) -> mapping m{id}", a[1]));
                    return Ok(());
                }
            }
            NR_MUNMAP => {
                let call_no = self.info[t].calls;
                let mut h = 0;
                let mut desc = String::new();
                if ret == 0 {
                    for (id, off, len) in self.cut(a[0], page(a[1])) {
                        self.mappings[id].unmaps.push(Unmap { thread: t, call_no, off, len, result: 0, injected, rec_pos });
                        h = vfold(vfold(vfold(h, id as u64), off), len);
                        desc.push_str(&format!(" m{id}+{off:#x}..+{:#x}", off + len));
                    }
                } else {
                    // failed: note it on every mapping it was aimed at
                    let end = a[0].saturating_add(page(a[1]));
                    let hits: Vec<(usize, u64)> = self
                        .live
                        .range(..end)
                        .filter(|(s, (l, _, _))| **s + *l > a[0])
                        .map(|(s, (_, id, base))| (*id, s.max(&a[0]) - base))
                        .collect();
                    for (id, off) in hits {
                        self.mappings[id].unmaps.push(Unmap { thread: t, call_no, off, len: page(a[1]), result: ret, injected, rec_pos });
                        h = vfold(vfold(h, id as u64), off);
                        desc.push_str(&format!(" m{id}"));
                    }
                }
                self.log(t, E_MAP, 2, h ^ norm, || format!("t{t} munmap({} bytes){desc} -> {ret}", a[1]));
                return Ok(());
            }
            NR_MREMAP => {
                if ret >= 0 || ret < -4095 {
                    let cutv = self.cut(a[0], page(a[1]));
                    let new_len = page(a[2]);
                    let id = match cutv.first() {
                        Some((id, _, _)) => {
                            let id = *id;
                            let _ = self.cut(ret as u64, new_len);
                            self.live.insert(ret as u64, (new_len, id, ret as u64));
                            self.mappings[id].live_bytes += new_len;
                            self.mappings[id].len = new_len;
                            id
                        }
                        None => self.new_mapping(t, ret as u64, new_len),
                    };
                    self.log(t, E_MAP, 3, id as u64 ^ a[2] << 20, || format!("t{t} mremap(m{id}: {} -> {} bytes)", a[1], a[2]));
                    return Ok(());
                }
            }
            NR_CLONE => {
                if injected {
                    let stack_map = self.map_containing(a[1].wrapping_sub(1));
                    if let Some(m) = stack_map {
                        self.mappings[m].clone_attempted = true;
                    }
                    self.clones.push(CloneEv { parent: t, rec_pos, child: None, errno: (-ret) as i32, injected: true, stack_map });
                } else if ret >= 0x7000_0000 {
                    norm = ret as u64;
                }
            }
            NR_SET_TID_ADDRESS => {
                self.th[t].ctid = a[0];
                if a[0] == 0 && t != 0 {
                    self.set_tid_zero += 1;
                }
                norm = u64::from(a[0] != 0);
            }
            NR_BRK | NR_ARCH_PRCTL => {}
            NR_FUTEX => norm = ret as u64,
            _ => {}
        }
        self.log(t, E_RET, nr as u64, norm, || format!("t{t} {} -> {}", nr_name(nr), if ret >= 0x7000_0000 { format!("t{}", ret - 0x7000_0000) } else { ret.to_string() }));
        Ok(())
    }

    fn snapshot(&mut self, kind: u32) {
        let live_bytes: u64 = self.live.values().map(|v| v.0).sum();
        let mut live_stacks: Vec<usize> = self.live.values().map(|v| v.1).filter(|id| self.mappings[*id].clone_attempted).collect();
        live_stacks.sort_unstable();
        live_stacks.dedup();
        let mut proc_bytes = None;
        if self.cfg.proc_maps {
            if let Ok(s) = std::fs::read_to_string(format!("/proc/{}/maps", self.pid)) {
                let mut total = 0u64;
                for l in s.lines() {
                    if l.ends_with("[stack]") || l.ends_with("[vdso]") || l.ends_with("[vvar]") || l.ends_with("[vsyscall]") || l.ends_with("[vvar_vclock]") {
                        continue;
                    }
                    let Some((range, _)) = l.split_once(' ') else { continue };
                    let Some((a, b)) = range.split_once('-') else { continue };
                    if let (Ok(a), Ok(b)) = (u64::from_str_radix(a, 16), u64::from_str_radix(b, 16)) {
                        total += b - a;
                    }
                }
                proc_bytes = Some(total);
                match self.proc_base {
                    None => self.proc_base = Some((total, live_bytes)),
                    Some((p0, l0)) => {
                        if total.wrapping_sub(p0) != live_bytes.wrapping_sub(l0) && self.ledger_mismatch.is_none() {
                            self.ledger_mismatch = Some(format!(
                                "/proc/pid/maps grew by {} bytes since the baseline, the tracer's mapping ledger by {}",
                                total as i64 - p0 as i64,
                                live_bytes as i64 - l0 as i64
                            ));
                        }
                    }
                }
            }
        }
        self.snapshots.push(Snapshot { rec_pos: self.records.len(), kind, live_ranges: self.live.len(), live_bytes, live_stacks, proc_bytes });
    }

    // ---- running a thread ------------------------------------------------------------------

    /// Replace the first byte of every atomic-instruction site by `int3`.
    fn plant_sites(&mut self) -> R<()> {
        let cfg: &'a Cfg = self.cfg;
        for (i, &addr) in cfg.atomic_sites.iter().enumerate() {
            let w = self.peek(self.pid, addr)?;
            self.planted.insert(addr, (i, (w & 0xff) as u8));
        }
        for &addr in &cfg.atomic_sites {
            self.poke_byte(self.pid, addr, 0xcc)?;
        }
        Ok(())
    }

    fn poke_byte(&self, tid: i32, addr: u64, b: u8) -> R<()> {
        let w = self.peek(tid, addr)?;
        self.ptrace(libc::PTRACE_POKETEXT, tid, addr as usize, ((w & !0xff) | u64::from(b)) as usize)?;
        Ok(())
    }

    /// The thread's next instruction is the atomic instruction at planted site `addr` (`rewind`:
    /// it has just executed the `int3` there).  Execute the real instruction with one single
    /// step and put the breakpoint back.  Ok(None) = done, the thread is right after the atomic.
    fn step_over_site(&mut self, t: usize, addr: u64, rewind: bool) -> R<Option<End>> {
        let tid = self.th[t].tid;
        let (idx, orig) = self.planted[&addr];
        if rewind {
            let mut regs = self.getregs(tid)?;
            regs.rip = addr;
            self.setregs(tid, &regs)?;
        }
        self.poke_byte(tid, addr, orig)?;
        self.ptrace(libc::PTRACE_SINGLESTEP, tid, 0, 0)?;
        let stop = self.wait_tid(tid)?;
        self.poke_byte(tid, addr, 0xcc)?;
        match stop {
            Stop::Trap => {}
            Stop::Signal(sig) => return Ok(Some(self.crash(t, sig)?)),
            o => return Err(End::Harness(format!("unexpected stop {o:?} while stepping over an atomic instruction"))),
        }
        self.single_steps += 1;
        self.atomic_stops += 1;
        if self.live_threads() >= 2 {
            self.atomic_stops_multi += 1;
        }
        self.trace.mix((t as u64) << 8 | E_ATOMIC, idx as u64);
        self.trace.ev(|| format!("t{t} executed atomic instruction a{idx}"));
        Ok(None)
    }

    /// some other thread could run now (stopping this one inside a window is pointless otherwise)
    fn others_runnable(&self, t: usize) -> bool {
        (0..self.th.len()).any(|o| o != t && self.runnable(o))
    }

    fn live_threads(&self) -> usize {
        self.th.iter().filter(|x| !matches!(x.st, St::Dead)).count()
    }

    /// The thread is stopped at a syscall-exit stop or in user code: run it to its next
    /// syscall-entry stop, to its next atomic instruction (when sites are planted), or for k
    /// single steps.
    fn run_on(&mut self, t: usize) -> R<Option<End>> {
        let tid = self.th[t].tid;
        let cfg: &'a Cfg = self.cfg;
        let hint = std::mem::replace(&mut self.th[t].burst_hint, false);
        let mut k = 0u32;
        if self.bursts < cfg.max_bursts && cfg.max_burst_len > 0 {
            let (num, den) = if hint { (1, 2) } else { (1, cfg.burst_den) };
            if self.dec.chance(K::Sched, num, den) {
                // half of the bursts are short: the windows that matter are close to the markers
                k = if self.dec.chance(K::Sched, 1, 2) {
                    1 + self.dec.choose(K::Sched, cfg.max_burst_len)
                } else {
                    1 + self.dec.choose(K::Sched, cfg.max_burst_len.min(64))
                };
                self.bursts += 1;
                if self.live_threads() >= 2 {
                    self.bursts_multi += 1;
                }
                self.log(t, E_BURST, u64::from(k), u64::from(hint), || format!("t{t} runs {k} single steps{}", if hint { " (window after a marker)" } else { "" }));
            }
        }
        let mut done = 0u32;
        let mut after_atomic = false;
        loop {
            let mut req = libc::PTRACE_SYSCALL;
            if done < k {
                let rip = self.getregs(tid)?.rip;
                if self.planted.contains_key(&rip) {
                    if let Some(end) = self.step_over_site(t, rip, false)? {
                        return Ok(Some(end));
                    }
                    done += 1;
                    continue;
                }
                // a single step would run through a system call without an entry stop: look ahead
                let w = self.peek(tid, rip).unwrap_or(0);
                if w & 0xffff != 0x050f {
                    req = libc::PTRACE_SINGLESTEP;
                }
            } else if k > 0 {
                self.th[t].st = St::User;
                if after_atomic && cfg.hold_max > 0 {
                    self.th[t].hold = self.dec.choose(K::Sched, cfg.hold_max + 1);
                }
                if hint && cfg.window_hold_max > 0 && self.th[t].hold == 0 {
                    // frozen in the middle of its window while the others move on
                    self.th[t].hold = self.dec.choose(K::Sched, cfg.window_hold_max + 1);
                }
                if hint && t == 0 {
                    self.preempt_main_window += 1;
                } else if hint {
                    self.preempt_thread_window += 1;
                }
                self.log(t, E_BURST_END, u64::from(done), 0, || format!("t{t} preempted after {done} steps"));
                return Ok(None);
            }
            self.ptrace(req, tid, 0, 0)?;
            match self.wait_tid(tid)? {
                Stop::Trap if req == libc::PTRACE_SINGLESTEP => {
                    done += 1;
                    self.single_steps += 1;
                }
                Stop::Trap => {
                    // a planted breakpoint: the thread is about to execute an atomic instruction
                    let addr = self.getregs(tid)?.rip.wrapping_sub(1);
                    if !self.planted.contains_key(&addr) {
                        return Err(End::Harness(format!("trap at {addr:#x}, which is no planted site")));
                    }
                    if let Some(end) = self.step_over_site(t, addr, true)? {
                        return Ok(Some(end));
                    }
                    self.th[t].st = St::User;
                    // right after the atomic instruction: a scheduling point, at once or a few
                    // instructions later (the windows that open behind a lock acquisition)
                    if self.others_runnable(t) && cfg.atomic_extra_steps > 0 && (cfg.cas_sites.is_empty() || cfg.cas_sites.binary_search(&addr).is_ok()) && self.dec.chance(K::Sched, 1, cfg.atomic_extra_den) {
                        k = cfg.atomic_extra_min.max(1) + self.dec.choose(K::Sched, cfg.atomic_extra_steps.saturating_sub(cfg.atomic_extra_min.max(1)) + 1);
                        done = 0;
                        after_atomic = true;
                        self.bursts_multi += 1;
                        self.log(t, E_BURST, u64::from(k), 2, || format!("t{t} runs {k} more steps after the atomic instruction"));
                        continue;
                    }
                    return Ok(None);
                }
                Stop::Syscall => {
                    let si = self.sysinfo(tid)?;
                    if si.op != SYSCALL_INFO_ENTRY {
                        return Err(End::Harness("expected a syscall-entry stop".into()));
                    }
                    let nr = si.data[0] as i64;
                    let a = [si.data[1], si.data[2], si.data[3], si.data[4], si.data[5], si.data[6]];
                    self.th[t].st = St::Entry { nr, a };
                    if k > 0 {
                        self.log(t, E_BURST_END, u64::from(done), 1, || format!("t{t} reached a system call after {done} steps"));
                    }
                    let interesting = !(nr == NR_WRITE && a[0] as i32 == REPORT_FD);
                    if interesting {
                        self.log(t, E_SYS, nr as u64, 0, || format!("t{t} at {}", nr_name(nr)));
                    } else {
                        self.trace.mix((t as u64) << 8 | E_SYS, nr as u64);
                    }
                    return Ok(None);
                }
                Stop::Signal(sig) => return Ok(Some(self.crash(t, sig)?)),
                Stop::Exited(c) | Stop::Killed(c) => {
                    self.th[t].reaped = true;
                    self.th[t].st = St::Dead;
                    return Err(End::Harness(format!("thread t{t} vanished outside a system call (status {c})")));
                }
                o => return Err(End::Harness(format!("unexpected stop {o:?} while running t{t}"))),
            }
        }
    }

    fn cleanup(&mut self) {
        if self.pid <= 0 || self.th.is_empty() {
            return;
        }
        if !self.th[0].reaped {
            // the unreaped leader keeps the pid reserved: this cannot hit a recycled pid
            unsafe {
                libc::kill(self.pid, libc::SIGKILL);
            }
        }
        // non-leaders first: the leader's status is only reported once the group is empty
        for i in (0..self.th.len()).rev() {
            if self.th[i].reaped {
                continue;
            }
            let tid = self.th[i].tid;
            let mut st = 0;
            let mut tries = 0;
            loop {
                let r = unsafe { libc::waitpid(tid, &mut st, libc::__WALL) };
                if r == tid {
                    if libc::WIFEXITED(st) || libc::WIFSIGNALED(st) {
                        break;
                    }
                    // a stop that was pending before the kill: let it die
                    unsafe { libc::ptrace(libc::PTRACE_CONT, tid, 0, libc::SIGKILL) };
                    continue;
                }
                if r < 0 && errno() == libc::EINTR && tries < 40 {
                    tries += 1;
                    continue;
                }
                break;
            }
            self.th[i].reaped = true;
        }
    }
}

pub fn rec_name(kind: u32) -> &'static str {
    match kind {
        R_BASELINE => "BASELINE",
        R_SPAWNING => "SPAWNING",
        R_SPAWNED => "SPAWNED",
        R_START => "START",
        R_WORK => "WORK",
        R_JOINING => "JOINING",
        R_JOINED => "JOINED",
        R_JOIN => "JOIN",
        R_DROPPING => "DROPPING",
        R_DROPPED => "DROPPED",
        R_QUIESCE => "QUIESCE",
        R_SLOT => "SLOT",
        R_BATCH_END => "BATCH_END",
        R_LEDGER => "LEDGER",
        R_DONE => "DONE",
        R_BAD_ARGS => "BAD_ARGS",
        R_ROUND_END => "ROUND_END",
        _ => "?",
    }
}
