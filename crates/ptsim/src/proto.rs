// Record protocol between probes/threads and the tracer.  This file is `include!`d by the probe
// (no_std) and compiled as `ptsim::proto`: constants and pure functions only, no imports.
//
// A record is REC_SIZE bytes written with one write(2) to descriptor REPORT_FD:
//   u32 kind | u32 tag | 7 x u64 payload          (little endian)
// The tracer intercepts the write; nothing reaches a real file.

pub const REPORT_FD: i32 = 999;
pub const REC_SIZE: usize = 64;

// ---- record kinds -------------------------------------------------------------------------
/// main: scenario parsed, allocator baseline taken. v0 = live count, v1 = live bytes
pub const R_BASELINE: u32 = 1;
/// main: about to call thread::spawn for `tag`. v0 = class, v1 = panics, v2 = fate
pub const R_SPAWNING: u32 = 2;
/// main: spawn returned. v0 = 1 Ok / 0 Err, v1 = errno (0 when none)
pub const R_SPAWNED: u32 = 3;
/// closure of `tag` started. v6 = 1 when this is the closure's last record
pub const R_START: u32 = 4;
/// closure work record. v0 = index, v6 = 1 when this is the closure's last record
pub const R_WORK: u32 = 5;
/// main: about to call join on the handle of `tag`
pub const R_JOINING: u32 = 6;
/// main: join returned (written before anything else is done with the result)
pub const R_JOINED: u32 = 7;
/// main: join outcome. v0 = 1 Some / 0 None, v1 = hash of the value, v2 = run counter of the
/// closure's buffer slot, v3 = value the closure stored into its buffer slot
pub const R_JOIN: u32 = 8;
/// main: about to drop the handle of `tag`
pub const R_DROPPING: u32 = 9;
/// main: handle dropped
pub const R_DROPPED: u32 = 10;
/// main: end of the batch's handle work.  The tracer holds main here until it is the only live
/// thread (a harness-provided barrier: dropped handles give the program no way to wait).
pub const R_QUIESCE: u32 = 11;
/// main, after the barrier: buffer slot of `tag`. v0 = run counter, v1 = stored value
pub const R_SLOT: u32 = 12;
/// main: allocator ledger. tag = batch index. v0 live count, v1 live bytes, v2 = double frees |
/// foreign frees << 16 | layout mismatches << 32, v3 = quarantine blocks with broken poison
/// (cumulative), v4/v5/v6 = size/align/offset of the first broken block
pub const R_BATCH_END: u32 = 13;
/// main: one per layout whose live count differs from the baseline. v0 size, v1 align,
/// v2 = delta (two's complement)
pub const R_LEDGER: u32 = 14;
/// main: all batches done
pub const R_DONE: u32 = 15;
/// main: scenario could not be parsed
pub const R_BAD_ARGS: u32 = 16;

/// allocprobe (C04, engine B): a round is over, every worker is joined, main has done one
/// uncontended alloc/free. tag = round index, v0 = checksum of the bytes touched
pub const R_ROUND_END: u32 = 20;

// ---- scenario ------------------------------------------------------------------------------
// argv: mode nbatches { nthreads { class panics nrec sleep_ms alloc fate } * nthreads } * nbatches
/// mode 1: run under the tracer (QUIESCE is a barrier); mode 0: native (QUIESCE sleeps)
pub const MODE_TRACED: u64 = 1;
/// mode bit: freed blocks go straight back to the allocator (no quarantine), so that a block's
/// address is reused at once, as in an ordinary program
pub const MODE_NO_QUARANTINE: u64 = 2;

pub const CLASSES: u32 = 12;
pub const C_UNIT: u32 = 0;
pub const C_U8: u32 = 1;
pub const C_U64: u32 = 2;
pub const C_B24: u32 = 3;
pub const C_W33: u32 = 4;
pub const C_A64: u32 = 5;
pub const C_A4096: u32 = 6;
/// result types whose `Option` has no separate tag (niche) or that own heap memory
pub const C_BOOL: u32 = 7;
pub const C_OPT_U32: u32 = 8;
pub const C_STRING: u32 = 9;
pub const C_RESULT_U8: u32 = 10;
/// a result whose destructor panics; only ever used with a dropped handle, and the closure waits
/// for the drop before it returns (the thread itself then has to dispose of the result)
pub const C_DROP_PANICS: u32 = 11;

pub const FATE_JOIN_NOW: u32 = 0;
pub const FATE_JOIN_LATER: u32 = 1;
pub const FATE_DROP_NOW: u32 = 2;
pub const FATE_DROP_LATER: u32 = 3;

pub const MAX_THREADS_PER_BATCH: usize = 6;

pub const fn class_name(c: u32) -> &'static str {
    match c {
        0 => "unit",
        1 => "u8",
        2 => "u64",
        3 => "bytes24",
        4 => "words33",
        5 => "align64",
        6 => "align4096",
        7 => "bool",
        8 => "option-u32",
        9 => "string",
        10 => "result-u8",
        11 => "drop-panics",
        _ => "?",
    }
}

pub const fn fate_name(f: u32) -> &'static str {
    match f {
        0 => "join-now",
        1 => "join-later",
        2 => "drop-now",
        3 => "drop-later",
        _ => "?",
    }
}

// ---- tagged values -------------------------------------------------------------------------
/// The i-th word of the value a closure with `tag` returns (truncated to a byte where the type
/// holds bytes).
pub const fn vword(tag: u32, i: u32) -> u64 {
    let mut z = ((tag as u64) << 32 | i as u64).wrapping_add(0x9E37_79B9_7F4A_7C15);
    z = (z ^ (z >> 30)).wrapping_mul(0xBF58_476D_1CE4_E5B9);
    z = (z ^ (z >> 27)).wrapping_mul(0x94D0_49BB_1331_11EB);
    z ^ (z >> 31)
}

pub const fn vfold(h: u64, x: u64) -> u64 {
    (h ^ x).wrapping_mul(0x1_0000_0001_b3).rotate_left(13)
}

pub const VHASH_SEED: u64 = 0xcbf2_9ce4_8422_2325;

/// number of words and how many of the leading ones are full u64 (the rest are bytes)
pub const fn class_shape(class: u32) -> (u32, u32) {
    match class {
        0 => (0, 0),
        1 => (1, 0),
        2 => (1, 1),
        3 => (24, 0),
        4 => (33, 33),
        5 => (41, 1),
        6 => (2, 2),
        _ => (0, 0),
    }
}

/// Hash of the value a closure of `class` with `tag` returns.
pub const fn expected_vhash(class: u32, tag: u32) -> u64 {
    let w0 = vword(tag, 0);
    match class {
        C_BOOL => return vfold(vfold(VHASH_SEED, class as u64), w0 & 1),
        C_OPT_U32 => return vfold(vfold(vfold(VHASH_SEED, class as u64), w0 & 1), if w0 & 1 == 1 { w0 >> 32 } else { 0 }),
        C_STRING => {
            let n = string_len(tag);
            let mut h = vfold(vfold(VHASH_SEED, class as u64), n as u64);
            let mut i = 0;
            while i < n {
                h = vfold(h, string_byte(tag, i) as u64);
                i += 1;
            }
            return h;
        }
        C_RESULT_U8 => return vfold(vfold(vfold(VHASH_SEED, class as u64), w0 & 1), (w0 >> 8) & 0xff),
        _ => {}
    }
    let (n, full) = class_shape(class);
    let mut h = vfold(VHASH_SEED, class as u64);
    let mut i = 0;
    while i < n {
        let w = vword(tag, i);
        h = vfold(h, if i < full { w } else { w & 0xff });
        i += 1;
    }
    h
}

/// length and bytes of the String a closure of class C_STRING returns
pub const fn string_len(tag: u32) -> u32 {
    1 + (vword(tag, 0) % 40) as u32
}

pub const fn string_byte(tag: u32, i: u32) -> u8 {
    b'a' + (vword(tag, i + 1) % 26) as u8
}

/// value a closure stores into its buffer slot
pub const fn slot_value(tag: u32) -> u64 {
    vword(tag, 1000) | 1
}
