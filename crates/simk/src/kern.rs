//! Kernel services the simulator takes over in every engine-A run: futex, clocks, sleep.
//! Everything else is a building block a check composes into its own [`Kernel`](crate::sched::Kernel).

use crate::dec::K;
use crate::sched::{block, sim, wake, wake_pollers, Wake, REAL_BASE_NS};
use sc::nr;

pub const EPERM: i32 = 1;
pub const ENOENT: i32 = 2;
pub const EINTR: i32 = 4;
pub const EIO: i32 = 5;
pub const EBADF: i32 = 9;
pub const EAGAIN: i32 = 11;
pub const ENOMEM: i32 = 12;
pub const EACCES: i32 = 13;
pub const EFAULT: i32 = 14;
pub const EBUSY: i32 = 16;
pub const EEXIST: i32 = 17;
pub const EINVAL: i32 = 22;
pub const ENFILE: i32 = 23;
pub const EMFILE: i32 = 24;
pub const ENOSPC: i32 = 28;
pub const ENOSYS: i32 = 38;
pub const ETIMEDOUT: i32 = 110;

#[inline]
pub fn neg(e: i32) -> usize {
    (-(e as isize)) as usize
}

#[inline]
pub fn is_err(r: usize) -> bool {
    r > (-4096isize) as usize
}

#[inline]
pub fn real(nr: usize, a: [usize; 6]) -> usize {
    unsafe { sc::real_syscall(nr, a) }
}

#[repr(C)]
#[derive(Clone, Copy)]
pub struct Ts {
    pub sec: i64,
    pub nsec: i64,
}

pub fn mono_now() -> u64 {
    sim().map_or(0, |s| s.mono_ns)
}

/// FUTEX_WAIT / FUTEX_WAKE on the simulator's wait queue.
pub fn futex(a: [usize; 6]) -> usize {
    let s = sim().unwrap();
    let addr = a[0];
    let op = a[1] & 0x7f;
    let cur = s.cur.unwrap_or(0);
    let aid = s.loc_id(addr);
    // private and shared operations on one address use different wait queues (as in the kernel):
    // a wait with one kind of key is not woken by a wake with the other
    let key = if a[1] & 128 != 0 { addr | 1 << 63 } else { addr };
    match op {
        0 => {
            // FUTEX_WAIT: value check and enqueue are one simulator step
            let v = unsafe { (*(addr as *const core::sync::atomic::AtomicU32)).load(core::sync::atomic::Ordering::SeqCst) };
            s.count("futex.wait_calls");
            if v != a[2] as u32 {
                s.count("futex.wait_eagain");
                s.trace.ev(|| format!("t{cur} futex_wait @a{aid}: value {v} != {} -> EAGAIN", a[2] as u32));
                return neg(EAGAIN);
            }
            if s.faults_on && s.spurious_futex_left > 0 && s.dec.chance(K::Fault, 1, 6) {
                s.spurious_futex_left -= 1;
                s.count("fault.futex_spurious_return");
                s.trace.ev(|| format!("t{cur} futex_wait: fault spurious return 0"));
                return 0;
            }
            if s.faults_on && s.eintr_left > 0 && s.dec.chance(K::Fault, 1, 6) {
                s.eintr_left -= 1;
                s.count("fault.futex_eintr");
                s.trace.ev(|| format!("t{cur} futex_wait: fault EINTR"));
                return neg(EINTR);
            }
            let deadline = if a[3] != 0 {
                let ts = unsafe { *(a[3] as *const Ts) };
                let d = (ts.sec.max(0) as u64).saturating_mul(1_000_000_000).saturating_add(ts.nsec.max(0) as u64);
                Some(s.mono_ns.saturating_add(d))
            } else {
                None
            };
            s.futexq.push((key, cur));
            s.count("futex.parked");
            match block("futex_wait", deadline, false) {
                Wake::Timeout => {
                    let s = sim().unwrap();
                    s.futexq.retain(|&(ad, t)| !(ad == key && t == cur));
                    neg(ETIMEDOUT)
                }
                _ => 0,
            }
        }
        1 => {
            // FUTEX_WAKE: the decision stream picks which waiters wake
            let n = a[2] as i32;
            let mut woken = 0usize;
            s.count("futex.wake_calls");
            while (woken as i64) < i64::from(n.max(0)) {
                let s = sim().unwrap();
                let cands: Vec<usize> = s
                    .futexq
                    .iter()
                    .enumerate()
                    .filter(|(_, &(ad, _))| ad == key)
                    .map(|(i, _)| i)
                    .collect();
                if cands.is_empty() {
                    break;
                }
                let k = s.dec.choose(K::Wake, cands.len() as u32) as usize;
                let (_, t) = s.futexq.remove(cands[k]);
                s.trace.ev(|| format!("t{cur} futex_wake @a{aid} wakes t{t}"));
                wake(t, Wake::Woken);
                woken += 1;
            }
            let s = sim().unwrap();
            if woken == 0 {
                s.count("futex.wake_nobody");
                s.trace.ev(|| format!("t{cur} futex_wake @a{aid} wakes nobody"));
            } else {
                s.count_n("futex.woken", woken as u64);
            }
            woken
        }
        _ => neg(ENOSYS),
    }
}

pub fn clock_gettime(a: [usize; 6]) -> usize {
    let s = sim().unwrap();
    let out = a[1] as *mut Ts;
    let ns: i128 = match a[0] {
        // CLOCK_REALTIME, CLOCK_REALTIME_COARSE, CLOCK_TAI: may jump
        0 | 5 | 11 => REAL_BASE_NS + i128::from(s.mono_ns) + s.real_off_ns,
        _ => i128::from(s.mono_ns),
    };
    s.count("clock.gettime");
    unsafe {
        *out = Ts { sec: ns.div_euclid(1_000_000_000) as i64, nsec: ns.rem_euclid(1_000_000_000) as i64 };
    }
    0
}

/// nanosleep served from the simulated clock; `eintr_left` budgets interruptions.
pub fn nanosleep(a: [usize; 6]) -> usize {
    let s = sim().unwrap();
    let req = unsafe { *(a[0] as *const Ts) };
    if req.sec < 0 || req.nsec < 0 || req.nsec >= 1_000_000_000 {
        return neg(EINVAL);
    }
    let total = (req.sec as u64).saturating_mul(1_000_000_000).saturating_add(req.nsec as u64);
    s.count("sleep.calls");
    let mut slept = total;
    let mut interrupted = false;
    if s.faults_on && s.eintr_left > 0 && total > 0 && s.dec.chance(K::Fault, 1, 3) {
        s.eintr_left -= 1;
        // interrupted after a drawn fraction of the request
        let f = s.dec.range(K::Fault, 0, 1000);
        slept = ((u128::from(total) * u128::from(f)) / 1001) as u64;
        interrupted = true;
        s.count("fault.nanosleep_eintr");
    }
    let start = s.mono_ns;
    let deadline = start.saturating_add(slept);
    if s.cur.is_some() && slept > 0 {
        block("nanosleep", Some(deadline), false);
    } else {
        s.mono_ns = deadline;
    }
    let s = sim().unwrap();
    if s.mono_ns < deadline {
        s.mono_ns = deadline;
    }
    if interrupted {
        let remaining = total - slept;
        if a[1] != 0 {
            unsafe {
                *(a[1] as *mut Ts) = Ts { sec: (remaining / 1_000_000_000) as i64, nsec: (remaining % 1_000_000_000) as i64 };
            }
        }
        s.trace.ev(|| format!("nanosleep interrupted after {slept} of {total} ns"));
        return neg(EINTR);
    }
    0
}

/// What a run gets when the check installs no kernel of its own.
pub fn default_syscall(n: usize, a: [usize; 6]) -> usize {
    match n {
        nr::FUTEX => futex(a),
        nr::CLOCK_GETTIME => clock_gettime(a),
        nr::NANOSLEEP => nanosleep(a),
        _ => {
            let r = real(n, a);
            wake_pollers();
            r
        }
    }
}
