//! Batch runner shared by all checks: fan-out over worker processes, merge, minimise, replay,
//! known findings, evidence.  Exit codes: 0 property held on everything explored (known findings
//! are printed), 1 violation, 2 harness error.

use crate::dec::{hash_str, mix, Dec, K};
use crate::sched::Violation;
use serde_json::{json, Value};
use std::collections::{BTreeMap, HashSet};
use std::io::Write;
use std::path::{Path, PathBuf};
use std::time::Instant;

#[derive(Clone, Copy, PartialEq, Eq, Debug)]
pub enum Tier {
    Quick,
    Thorough,
}

impl Tier {
    pub fn name(self) -> &'static str {
        match self {
            Tier::Quick => "quick",
            Tier::Thorough => "thorough",
        }
    }
}

pub struct RunOpts {
    pub record: bool,
    pub tier: Tier,
}

#[derive(Default)]
pub struct RunOut {
    pub violation: Option<Violation>,
    /// hash of the complete event log (determinism self-test compares this)
    pub hash: u64,
    /// hash identifying the case/interleaving for the distinctness measure
    pub shape: u64,
    pub nontrivial: bool,
    pub counters: BTreeMap<&'static str, u64>,
    pub sim_ns: u64,
    pub steps: u64,
    pub events: Vec<String>,
    pub sample: Option<Value>,
    pub decisions: Vec<(u8, u32, u32)>,
    /// evaluations inside this case (0 = the case is one evaluation)
    pub evals: u64,
    /// one hash per distinct non-trivial sub-case (enumeration checks)
    pub sub_shapes: Vec<u64>,
}

pub trait Check: Sync {
    fn id(&self) -> &'static str;
    /// "exploration" or "fault_enumeration"
    fn level(&self) -> &'static str;
    fn engine(&self) -> &'static str;
    /// number of cases of one batch
    fn cases(&self, tier: Tier) -> u64;
    /// the case list is a complete enumeration of a finite space
    fn exhaustive(&self, _tier: Tier) -> bool {
        false
    }
    fn run(&self, case: u64, dec: Dec, opts: &RunOpts) -> RunOut;
    fn rule(&self) -> String;
    fn assumptions(&self) -> Vec<String>;
    /// which components ran real code and which a stub
    fn components(&self) -> Value;
    fn workers(&self, _tier: Tier) -> usize {
        16
    }
    /// build profile ("release" or "debug") of worker `k`; debug = overflow checks and debug assertions on
    fn worker_profile(&self, _k: usize) -> &'static str {
        "release"
    }
    /// called once per process before any run
    fn prepare(&self, _tier: Tier) {}
    /// optional extra step run once by the parent after the batch (e.g. a sample under Miri)
    fn side_check(&self, _tier: Tier, _seed: u64) -> Option<SideResult> {
        None
    }
    /// extra evidence keys computed after the batch (optional)
    fn extra(&self, _tier: Tier) -> Value {
        Value::Null
    }
}

pub struct SideResult {
    pub evidence: Value,
    pub violations: Vec<Violation>,
}

/// case index under which violations of a side check are recorded
pub const SIDE_CASE: u64 = u64::MAX / 2;

pub fn verif_root() -> PathBuf {
    std::env::var("VERIF_ROOT").map_or_else(|_| PathBuf::from("/verif"), PathBuf::from)
}

pub fn work_dir() -> PathBuf {
    let p = verif_root().join("work");
    let _ = std::fs::create_dir_all(&p);
    p
}

fn case_seed(seed: u64, id: &str, case: u64) -> u64 {
    mix(&[seed, hash_str(id), case])
}

struct Args {
    tier: Tier,
    seed: u64,
    worker: Option<(u64, u64)>,
    out: Option<PathBuf>,
    replay: Option<PathBuf>,
    minimise: Option<PathBuf>,
    annotate: Option<PathBuf>,
    selftest: Option<u64>,
    cases_override: Option<u64>,
    list_hashes: bool,
    one_case: Option<u64>,
}

fn parse_args(argv: &[String]) -> Args {
    let mut a = Args {
        tier: match std::env::var("VERIF_TIER").as_deref() {
            Ok("thorough") => Tier::Thorough,
            _ => Tier::Quick,
        },
        seed: std::env::var("VERIF_SEED").ok().and_then(|s| s.parse().ok()).unwrap_or(1),
        worker: None,
        out: None,
        replay: None,
        minimise: None,
        annotate: None,
        selftest: None,
        cases_override: std::env::var("VERIF_CASES").ok().and_then(|s| s.parse().ok()),
        list_hashes: false,
        one_case: None,
    };
    let mut i = 0;
    while i < argv.len() {
        let nextv = |i: &mut usize| -> String {
            *i += 1;
            argv.get(*i).cloned().unwrap_or_else(|| harness_error("missing argument value"))
        };
        match argv[i].as_str() {
            "--tier" => {
                a.tier = match nextv(&mut i).as_str() {
                    "thorough" => Tier::Thorough,
                    "quick" => Tier::Quick,
                    o => harness_error(&format!("unknown tier {o}")),
                }
            }
            "--seed" => a.seed = nextv(&mut i).parse().unwrap_or_else(|_| harness_error("bad seed")),
            "--worker" => {
                let k = nextv(&mut i).parse().unwrap();
                a.worker = Some((k, 0));
            }
            "--of" => {
                let w = nextv(&mut i).parse().unwrap();
                a.worker = Some((a.worker.map_or(0, |x| x.0), w));
            }
            "--out" => a.out = Some(PathBuf::from(nextv(&mut i))),
            "--replay" => a.replay = Some(PathBuf::from(nextv(&mut i))),
            "--minimise" => a.minimise = Some(PathBuf::from(nextv(&mut i))),
            "--annotate" => a.annotate = Some(PathBuf::from(nextv(&mut i))),
            "--selftest-determinism" => a.selftest = Some(500),
            "--n" => a.selftest = Some(nextv(&mut i).parse().unwrap()),
            "--cases" => a.cases_override = Some(nextv(&mut i).parse().unwrap()),
            "--hashes" => a.list_hashes = true,
            "--case" => a.one_case = Some(nextv(&mut i).parse().unwrap()),
            o => harness_error(&format!("unknown argument {o}")),
        }
        i += 1;
    }
    a
}

pub fn harness_error(msg: &str) -> ! {
    eprintln!("HARNESS-ERROR: {msg}");
    std::process::exit(2);
}

fn decisions_json(d: &[(u8, u32, u32)]) -> Value {
    Value::Array(
        d.iter()
            .map(|(k, n, v)| json!([K::from_u8(*k).name(), n, v]))
            .collect(),
    )
}

/// Entry point for one check.  `argv` excludes the program name and the check id.
pub fn main_for(check: &dyn Check, argv: &[String]) -> ! {
    let a = parse_args(argv);
    crate::sched::install_quiet_panic_hook();
    crate::sched::install_hooks();
    if let Some(f) = &a.replay {
        check.prepare(a.tier);
        replay_main(check, f, a.tier);
    }
    if let Some(f) = &a.minimise {
        check.prepare(a.tier);
        minimise_main(check, f, a.tier);
    }
    if let Some(f) = &a.annotate {
        check.prepare(a.tier);
        annotate_main(check, f, a.tier);
    }
    if let Some((k, w)) = a.worker {
        check.prepare(a.tier);
        worker_main(check, &a, k, w);
    }
    if let Some(c) = a.one_case {
        check.prepare(a.tier);
        let dec = Dec::from_seed(case_seed(a.seed, check.id(), c));
        let out = check.run(c, dec, &RunOpts { record: true, tier: a.tier });
        for e in &out.events {
            println!("{e}");
        }
        println!("hash={:016x} shape={:016x} nontrivial={} violation={:?}", out.hash, out.shape, out.nontrivial, out.violation.map(|v| v.sig));
        std::process::exit(0);
    }
    if let Some(n) = a.selftest {
        selftest_main(check, &a, n);
    }
    parent_main(check, &a);
}

struct Progress {
    ptr: *mut u64,
}

impl Progress {
    fn open(path: &Path) -> Progress {
        let f = std::fs::OpenOptions::new().read(true).write(true).create(true).truncate(true).open(path).unwrap();
        f.set_len(16).unwrap();
        use std::os::fd::AsRawFd;
        let p = unsafe {
            libc::mmap(std::ptr::null_mut(), 16, libc::PROT_READ | libc::PROT_WRITE, libc::MAP_SHARED, f.as_raw_fd(), 0)
        };
        assert!(p != libc::MAP_FAILED);
        Progress { ptr: p.cast() }
    }
    #[inline]
    fn set(&self, case: u64) {
        unsafe {
            std::ptr::write_volatile(self.ptr, case + 1);
        }
    }
}

fn worker_main(check: &dyn Check, a: &Args, k: u64, w: u64) -> ! {
    let out_path = a.out.clone().unwrap_or_else(|| harness_error("--out required"));
    let total = a.cases_override.unwrap_or_else(|| check.cases(a.tier));
    let progress = Progress::open(&out_path.with_extension("progress"));
    let opts = RunOpts { record: false, tier: a.tier };
    let mut runs = 0u64;
    let mut counters: BTreeMap<String, u64> = BTreeMap::new();
    let mut sim_ns = 0u128;
    let mut steps = 0u64;
    let mut shapes: HashSet<u64> = HashSet::new();
    let mut nt_shapes: HashSet<u64> = HashSet::new();
    let mut nontrivial_runs = 0u64;
    let mut violations: Vec<Value> = Vec::new();
    let mut viol_count = 0u64;
    let mut per_sig: BTreeMap<String, u64> = BTreeMap::new();
    let mut sample_cases: Vec<u64> = Vec::new();
    let mut hashes: Vec<(u64, u64)> = Vec::new();
    const SHAPE_CAP: usize = 1_000_000;
    let mut case = k;
    while case < total {
        progress.set(case);
        let dec = Dec::from_seed(case_seed(a.seed, check.id(), case));
        let out = check.run(case, dec, &opts);
        runs += out.evals.max(1);
        for h in &out.sub_shapes {
            if nt_shapes.len() < SHAPE_CAP {
                nt_shapes.insert(*h);
            }
            if shapes.len() < SHAPE_CAP {
                shapes.insert(*h);
            }
        }
        for (key, v) in &out.counters {
            *counters.entry((*key).to_string()).or_insert(0) += v;
        }
        sim_ns += u128::from(out.sim_ns);
        steps += out.steps;
        if shapes.len() < SHAPE_CAP {
            shapes.insert(out.shape);
        }
        if out.nontrivial {
            nontrivial_runs += 1;
            if nt_shapes.len() < SHAPE_CAP {
                nt_shapes.insert(out.shape);
            }
            if sample_cases.len() < 3 {
                sample_cases.push(case);
            }
        }
        if a.list_hashes {
            hashes.push((case, out.hash));
        }
        if let Some(v) = out.violation {
            viol_count += 1;
            let c = per_sig.entry(v.sig.clone()).or_insert(0);
            *c += 1;
            if *c <= 3 {
                violations.push(json!({
                    "sig": v.sig, "detail": v.detail, "case": case,
                    "seed": case_seed(a.seed, check.id(), case),
                    "batch_seed": a.seed, "profile": current_profile(),
                    "values": out.decisions.iter().map(|d| d.2).collect::<Vec<u32>>(),
                }));
            }
            if viol_count >= 300 {
                break;
            }
        }
        case += w;
    }
    progress.set(u64::MAX - 1);
    // samples: re-run a few non-trivial cases with recording on (worker 0 only)
    let mut samples: Vec<Value> = Vec::new();
    if k < 4 {
        if sample_cases.is_empty() && total > 0 {
            sample_cases.push(k);
        }
        sample_cases.truncate(if k == 0 { 3 } else { 1 });
        for &c in &sample_cases {
            let dec = Dec::from_seed(case_seed(a.seed, check.id(), c));
            let out = check.run(c, dec, &RunOpts { record: true, tier: a.tier });
            let ev: Vec<&String> = out.events.iter().take(60).collect();
            samples.push(json!({"case": c, "seed": case_seed(a.seed, check.id(), c), "what": out.sample, "events_head": ev, "events_total": out.events.len()}));
        }
    }
    let dump = |set: &HashSet<u64>, ext: &str| {
        let mut f = std::io::BufWriter::new(std::fs::File::create(out_path.with_extension(ext)).unwrap());
        for h in set {
            f.write_all(&h.to_le_bytes()).unwrap();
        }
    };
    dump(&shapes, "shapes");
    dump(&nt_shapes, "ntshapes");
    if a.list_hashes {
        let mut f = std::io::BufWriter::new(std::fs::File::create(out_path.with_extension("hashes")).unwrap());
        for (c, h) in &hashes {
            f.write_all(&c.to_le_bytes()).unwrap();
            f.write_all(&h.to_le_bytes()).unwrap();
        }
    }
    let v = json!({
        "runs": runs, "counters": counters, "sim_ns": sim_ns.to_string(), "steps": steps,
        "nontrivial_runs": nontrivial_runs, "violations": violations, "violation_count": viol_count,
        "per_sig": per_sig, "samples": samples,
    });
    std::fs::write(&out_path, serde_json::to_vec(&v).unwrap()).unwrap();
    std::process::exit(0);
}

struct Merged {
    runs: u64,
    counters: BTreeMap<String, u64>,
    sim_ns: u128,
    steps: u64,
    nontrivial_runs: u64,
    violations: Vec<Value>,
    violation_count: u64,
    per_sig: BTreeMap<String, u64>,
    samples: Vec<Value>,
    shapes: HashSet<u64>,
    nt_shapes: HashSet<u64>,
    hashes: BTreeMap<u64, u64>,
}

fn read_u64s(p: &Path) -> Vec<u64> {
    let b = std::fs::read(p).unwrap_or_default();
    b.chunks_exact(8).map(|c| u64::from_le_bytes(c.try_into().unwrap())).collect()
}

pub fn exe_for(profile: &str) -> PathBuf {
    let exe = std::env::current_exe().unwrap();
    let s = exe.to_string_lossy().to_string();
    let cur = if s.contains("/debug/") { "debug" } else { "release" };
    if cur == profile {
        exe
    } else {
        PathBuf::from(s.replace(&format!("/{cur}/"), &format!("/{profile}/")))
    }
}

pub fn current_profile() -> &'static str {
    if cfg!(debug_assertions) {
        "debug"
    } else {
        "release"
    }
}

fn run_workers(check: &dyn Check, a: &Args, nworkers: usize, tag: &str, list_hashes: bool) -> Merged {
    let wd = work_dir();
    let mut kids = Vec::new();
    for k in 0..nworkers {
        // the parent's pid keeps concurrent batches of the same check apart
        let out = wd.join(format!("{}.{}{}.{}.json", check.id(), tag, std::process::id(), k));
        let _ = std::fs::remove_file(&out);
        let mut c = std::process::Command::new(exe_for(check.worker_profile(k)));
        c.arg(check.id())
            .arg("--worker").arg(k.to_string())
            .arg("--of").arg(nworkers.to_string())
            .arg("--tier").arg(a.tier.name())
            .arg("--seed").arg(a.seed.to_string())
            .arg("--out").arg(&out);
        if let Some(n) = a.cases_override {
            c.arg("--cases").arg(n.to_string());
        }
        if list_hashes {
            c.arg("--hashes");
        }
        let child = c.spawn().unwrap_or_else(|e| harness_error(&format!("cannot spawn worker: {e}")));
        kids.push((k, out, child));
    }
    let mut m = Merged {
        runs: 0,
        counters: BTreeMap::new(),
        sim_ns: 0,
        steps: 0,
        nontrivial_runs: 0,
        violations: Vec::new(),
        violation_count: 0,
        per_sig: BTreeMap::new(),
        samples: Vec::new(),
        shapes: HashSet::new(),
        nt_shapes: HashSet::new(),
        hashes: BTreeMap::new(),
    };
    // watchdog: a worker whose progress file does not move for HANG_SECS is killed and the case it
    // was running is reported (a run that never ends is a verdict, not a reason to hang the check)
    let hang_secs: u64 = std::env::var("VERIF_HANG_SECS").ok().and_then(|s| s.parse().ok()).unwrap_or(300);
    let mut hung: HashSet<usize> = HashSet::new();
    {
        let mut state: Vec<(u64, Instant, bool)> = kids.iter().map(|_| (u64::MAX, Instant::now(), false)).collect();
        loop {
            let mut all_done = true;
            for (i, (k, out, child)) in kids.iter_mut().enumerate() {
                if state[i].2 {
                    continue;
                }
                match child.try_wait() {
                    Ok(Some(_)) => state[i].2 = true,
                    Ok(None) => {
                        all_done = false;
                        let p = read_u64s(&out.with_extension("progress")).first().copied().unwrap_or(0);
                        if p != state[i].0 {
                            state[i].0 = p;
                            state[i].1 = Instant::now();
                        } else if state[i].1.elapsed().as_secs() >= hang_secs {
                            let _ = child.kill();
                            hung.insert(*k);
                            state[i].2 = true;
                        }
                    }
                    Err(_) => state[i].2 = true,
                }
            }
            if all_done {
                break;
            }
            std::thread::sleep(std::time::Duration::from_millis(100));
        }
    }
    for (k, out, mut child) in kids {
        let st = child.wait().unwrap();
        if hung.contains(&k) {
            let p = read_u64s(&out.with_extension("progress"));
            let case = p.first().copied().unwrap_or(0).wrapping_sub(1);
            m.violation_count += 1;
            let sig = "hang|no-progress".to_string();
            *m.per_sig.entry(sig.clone()).or_insert(0) += 1;
            m.violations.push(json!({
                "sig": sig, "detail": format!("worker process made no progress for {hang_secs} s while running case {case} (killed)"),
                "case": case, "seed": case_seed(a.seed, check.id(), case), "values": Value::Null,
                "batch_seed": a.seed, "profile": check.worker_profile(k as usize),
            }));
            continue;
        }
        if !st.success() {
            // the worker died inside a run: the progress file names the case
            use std::os::unix::process::ExitStatusExt;
            let p = read_u64s(&out.with_extension("progress"));
            let case = p.first().copied().unwrap_or(0).wrapping_sub(1);
            let how = match st.signal() {
                Some(s) => format!("signal {s}"),
                None => format!("exit code {:?}", st.code()),
            };
            if st.code() == Some(2) {
                harness_error(&format!("worker {k} reported a harness error"));
            }
            m.violation_count += 1;
            let sig = format!("crash|{how}");
            *m.per_sig.entry(sig.clone()).or_insert(0) += 1;
            m.violations.push(json!({
                "sig": sig, "detail": format!("worker process died ({how}) while running case {case}"),
                "case": case, "seed": case_seed(a.seed, check.id(), case), "values": Value::Null,
                "batch_seed": a.seed, "profile": check.worker_profile(k as usize),
            }));
            continue;
        }
        let v: Value = serde_json::from_slice(&std::fs::read(&out).unwrap_or_default())
            .unwrap_or_else(|_| harness_error(&format!("worker {k} wrote no result")));
        m.runs += v["runs"].as_u64().unwrap_or(0);
        m.steps += v["steps"].as_u64().unwrap_or(0);
        m.sim_ns += v["sim_ns"].as_str().and_then(|s| s.parse::<u128>().ok()).unwrap_or(0);
        m.nontrivial_runs += v["nontrivial_runs"].as_u64().unwrap_or(0);
        m.violation_count += v["violation_count"].as_u64().unwrap_or(0);
        if let Some(o) = v["counters"].as_object() {
            for (key, n) in o {
                *m.counters.entry(key.clone()).or_insert(0) += n.as_u64().unwrap_or(0);
            }
        }
        if let Some(o) = v["per_sig"].as_object() {
            for (key, n) in o {
                *m.per_sig.entry(key.clone()).or_insert(0) += n.as_u64().unwrap_or(0);
            }
        }
        if let Some(arr) = v["violations"].as_array() {
            m.violations.extend(arr.iter().cloned());
        }
        if let Some(arr) = v["samples"].as_array() {
            m.samples.extend(arr.iter().cloned());
        }
        m.shapes.extend(read_u64s(&out.with_extension("shapes")));
        m.nt_shapes.extend(read_u64s(&out.with_extension("ntshapes")));
        if list_hashes {
            let hs = read_u64s(&out.with_extension("hashes"));
            for c in hs.chunks_exact(2) {
                m.hashes.insert(c[0], c[1]);
            }
        }
        for ext in ["json", "progress", "shapes", "ntshapes", "hashes"] {
            let _ = std::fs::remove_file(out.with_extension(ext));
        }
    }
    m
}

#[derive(Clone)]
pub struct Known {
    pub property: String,
    pub signature: String,
    pub status: String,
    pub text: String,
}

pub fn load_known() -> Vec<Known> {
    let p = verif_root().join("known_findings.json");
    let Ok(b) = std::fs::read(&p) else { return Vec::new() };
    let v: Value = serde_json::from_slice(&b).unwrap_or_else(|e| harness_error(&format!("known_findings.json: {e}")));
    let mut out = Vec::new();
    if let Some(arr) = v["findings"].as_array() {
        for f in arr {
            out.push(Known {
                property: f["property"].as_str().unwrap_or("").to_string(),
                signature: f["signature"].as_str().unwrap_or("").to_string(),
                status: f["status"].as_str().unwrap_or("known").to_string(),
                text: f["text"].as_str().unwrap_or("").to_string(),
            });
        }
    }
    out
}

fn known_match<'a>(known: &'a [Known], id: &str, sig: &str) -> Option<&'a Known> {
    known.iter().find(|k| k.property == id && k.status == "known" && k.signature == sig)
}

fn sig_file_name(id: &str, sig: &str) -> String {
    format!("{}-{:016x}.json", id, hash_str(sig))
}

fn write_replay(check: &dyn Check, v: &Value, tier: Tier) -> PathBuf {
    let case = v["case"].as_u64().unwrap_or(0);
    let sig = v["sig"].as_str().unwrap_or("").to_string();
    let dir = verif_root().join("replays");
    let _ = std::fs::create_dir_all(&dir);
    let path = dir.join(sig_file_name(check.id(), &sig));
    let mut file = json!({
        "property": check.id(), "engine": check.engine(), "case": case, "seed": v["seed"],
        "signature": sig, "detail": v["detail"], "tier": tier.name(),
        "batch_seed": v["batch_seed"], "profile": v["profile"], "minimised_from": v["minimised_from"],
    });
    if v["values"].is_array() {
        file["values"] = v["values"].clone();
    }
    std::fs::write(&path, serde_json::to_vec_pretty(&file).unwrap()).unwrap();
    // add the event trace in a child process: the replayed run may crash or corrupt memory
    if v["values"].is_array() && !sig.starts_with("crash|") && !sig.starts_with("hang|") {
        let _ = std::process::Command::new(exe_for(v["profile"].as_str().unwrap_or("release")))
            .arg(check.id()).arg("--annotate").arg(&path).arg("--tier").arg(tier.name())
            .status();
    }
    path
}

fn annotate_main(check: &dyn Check, f: &Path, tier: Tier) -> ! {
    let b = std::fs::read(f).unwrap();
    let mut file: Value = serde_json::from_slice(&b).unwrap();
    let case = file["case"].as_u64().unwrap_or(0);
    let vals: Vec<u32> = file["values"].as_array().unwrap().iter().map(|x| x.as_u64().unwrap_or(0) as u32).collect();
    let out = check.run(case, Dec::from_list(vals), &RunOpts { record: true, tier });
    file["decisions"] = decisions_json(&out.decisions);
    file["trace_hash"] = json!(format!("{:016x}", out.hash));
    let faults: Vec<&String> = out.events.iter().filter(|e| e.contains("fault")).collect();
    file["fault_log"] = json!(faults);
    file["events"] = json!(out.events);
    file["reproduced_signature"] = json!(out.violation.as_ref().map(|x| x.sig.clone()));
    std::fs::write(f, serde_json::to_vec_pretty(&file).unwrap()).unwrap();
    std::process::exit(0);
}

fn parent_main(check: &dyn Check, a: &Args) -> ! {
    let t0 = Instant::now();
    let id = check.id();
    let ev_path = verif_root().join("evidence").join(format!("{id}.json"));
    let _ = std::fs::create_dir_all(ev_path.parent().unwrap());
    let _ = std::fs::remove_file(&ev_path);
    let nworkers = check.workers(a.tier).max(1);
    let mut determinism = Value::Null;
    if a.tier == Tier::Thorough && a.cases_override.is_none() {
        // the thorough tier proves the simulator's own determinism first
        let n = check.cases(Tier::Quick).min(400);
        let (cases, diverged) = selftest(check, a, n);
        if !diverged.is_empty() {
            harness_error(&format!("determinism self-test: {} of {cases} cases diverged between two executions: {:?}", diverged.len(), &diverged[..diverged.len().min(10)]));
        }
        determinism = json!({"cases": cases, "executions_per_case": 2, "worker_counts": [16, 5], "divergent": 0});
    }
    let m = run_workers(check, a, nworkers, "b", false);
    let known = load_known();
    let mut m = m;
    let mut side_evidence = Value::Null;
    if let Some(sr) = check.side_check(a.tier, a.seed) {
        side_evidence = sr.evidence;
        for v in sr.violations {
            m.violation_count += 1;
            *m.per_sig.entry(v.sig.clone()).or_insert(0) += 1;
            m.violations.push(json!({"sig": v.sig, "detail": v.detail, "case": SIDE_CASE, "seed": a.seed, "values": Value::Null, "batch_seed": a.seed, "profile": "release"}));
        }
    }

    // one representative per signature: the shortest decision list
    let mut by_sig: BTreeMap<String, Value> = BTreeMap::new();
    for v in &m.violations {
        let sig = v["sig"].as_str().unwrap_or("").to_string();
        let len = v["values"].as_array().map_or(usize::MAX, Vec::len);
        let better = by_sig.get(&sig).is_none_or(|o| o["values"].as_array().map_or(usize::MAX, Vec::len) > len);
        if better {
            by_sig.insert(sig, v.clone());
        }
    }
    let mut new_violations = 0u64;
    let mut known_hits: Vec<String> = Vec::new();
    let mut report_lines: Vec<String> = Vec::new();
    let mut minimised = 0;
    check.prepare(a.tier);
    for (sig, v) in &by_sig {
        if let Some(k) = known_match(&known, id, sig) {
            println!("KNOWN-FINDING: property={id} {sig} {}", k.text);
            known_hits.push(sig.clone());
            continue;
        }
        new_violations += 1;
        let mut v = v.clone();
        // minimise in a child process (a replay may crash), bounded
        if v["values"].is_array() && minimised < 6 {
            minimised += 1;
            let tmp = work_dir().join(format!("{id}.min.{}.{:016x}.json", std::process::id(), hash_str(sig)));
            std::fs::write(&tmp, serde_json::to_vec(&v).unwrap()).unwrap();
            let st = std::process::Command::new(exe_for(v["profile"].as_str().unwrap_or("release")))
                .arg(id).arg("--minimise").arg(&tmp).arg("--tier").arg(a.tier.name())
                .status();
            if st.is_ok_and(|s| s.success()) {
                if let Ok(b) = std::fs::read(&tmp) {
                    if let Ok(nv) = serde_json::from_slice::<Value>(&b) {
                        v = nv;
                    }
                }
            }
            let _ = std::fs::remove_file(&tmp);
        }
        let path = write_replay(check, &v, a.tier);
        println!("VIOLATION property={id} replay={}", path.display());
        println!("  signature: {sig}");
        println!("  detail: {}", v["detail"].as_str().unwrap_or(""));
        report_lines.push(format!("{sig}: {}", v["detail"].as_str().unwrap_or("")));
    }

    let wall = t0.elapsed().as_secs_f64();
    let mut faults = BTreeMap::new();
    let mut probes = BTreeMap::new();
    let mut other = BTreeMap::new();
    for (k, n) in &m.counters {
        if let Some(r) = k.strip_prefix("fault.") {
            faults.insert(r.to_string(), *n);
        } else if let Some(r) = k.strip_prefix("probe.") {
            probes.insert(r.to_string(), *n);
        } else {
            other.insert(k.clone(), *n);
        }
    }
    let never_fired: Vec<&String> = faults.iter().filter(|(_, n)| **n == 0).map(|(k, _)| k).collect();
    let probes_zero: Vec<&String> = probes.iter().filter(|(_, n)| **n == 0).map(|(k, _)| k).collect();
    let mut coverage = json!({
        "evaluations": m.runs,
        "distinct_nontrivial": m.nt_shapes.len(),
        "distinct_cases_total": m.shapes.len(),
        "nontrivial_runs": m.nontrivial_runs,
        "rule": check.rule(),
        "samples": m.samples.iter().take(4).cloned().collect::<Vec<Value>>(),
        "exhaustive": check.exhaustive(a.tier),
        "runs_per_hour": if wall > 0.0 { (m.runs as f64 / wall * 3600.0) as u64 } else { 0 },
        "seeds_per_hour": if wall > 0.0 { (m.runs as f64 / wall * 3600.0) as u64 } else { 0 },
        "simulated_time_ns": m.sim_ns.to_string(),
        "simulator_steps": m.steps,
        "faults_fired": faults,
        "fault_kinds_enabled_but_never_fired": never_fired,
        "probes": probes,
        "probes_at_zero": probes_zero,
        "counters": other,
        "components": check.components(),
        "workers": nworkers,
        "violations_by_signature": m.per_sig,
        "known_findings_reproduced": known_hits,
        "new_violations": report_lines,
    });
    if !determinism.is_null() {
        coverage["determinism_self_test"] = determinism;
    }
    if !side_evidence.is_null() {
        coverage["side_check"] = side_evidence;
    }
    let extra = check.extra(a.tier);
    if let (Some(c), Some(e)) = (coverage.as_object_mut(), extra.as_object()) {
        for (k, v) in e {
            c.insert(k.clone(), v.clone());
        }
    }
    let ev = json!({
        "property_id": id,
        "tier": a.tier.name(),
        "seed": a.seed,
        "level": check.level(),
        "coverage": coverage,
        "assumptions": check.assumptions(),
        "wall_s": wall,
        "violations": new_violations,
    });
    std::fs::write(&ev_path, serde_json::to_vec_pretty(&ev).unwrap()).unwrap();
    println!(
        "{id} {}: {} runs, {} distinct non-trivial, {} violations ({} known-finding signatures), {:.1}s",
        a.tier.name(), m.runs, m.nt_shapes.len(), new_violations, by_sig.len() as u64 - new_violations, wall
    );
    std::process::exit(i32::from(new_violations > 0));
}

fn replay_main(check: &dyn Check, f: &Path, tier: Tier) -> ! {
    let b = std::fs::read(f).unwrap_or_else(|e| harness_error(&format!("cannot read replay file: {e}")));
    let v: Value = serde_json::from_slice(&b).unwrap_or_else(|e| harness_error(&format!("bad replay file: {e}")));
    let case = v["case"].as_u64().unwrap_or(0);
    let want = v["signature"].as_str().unwrap_or("").to_string();
    let prof = v["profile"].as_str().unwrap_or("release");
    if prof != current_profile() {
        // re-execute under the build profile the violation was found with
        let st = std::process::Command::new(exe_for(prof)).arg(check.id()).arg("--replay").arg(f).arg("--tier").arg(tier.name()).status();
        std::process::exit(st.ok().and_then(|s| s.code()).unwrap_or(2));
    }
    if case == SIDE_CASE {
        let seed = v["batch_seed"].as_u64().unwrap_or(1);
        let hit = check.side_check(tier, seed).map(|r| r.violations).unwrap_or_default();
        if let Some(x) = hit.iter().find(|x| x.sig == want).or(hit.first()) {
            println!("reproduced by the side check: {}\n  detail: {}", x.sig, x.detail);
            println!("VIOLATION property={} replay={}", check.id(), f.display());
            std::process::exit(1);
        }
        println!("not reproduced: the side check passes on this tree");
        std::process::exit(0);
    }
    if want.starts_with("hang|") {
        // the run never ends: replay it in a child with a time limit
        let limit: u64 = std::env::var("VERIF_HANG_SECS").ok().and_then(|s| s.parse().ok()).unwrap_or(300);
        let mut child = std::process::Command::new(std::env::current_exe().unwrap())
            .arg(check.id()).arg("--case").arg(case.to_string())
            .arg("--seed").arg(v["batch_seed"].as_u64().unwrap_or(1).to_string())
            .arg("--tier").arg(tier.name())
            .stdout(std::process::Stdio::null())
            .spawn().unwrap_or_else(|e| harness_error(&format!("cannot spawn: {e}")));
        let t0 = Instant::now();
        loop {
            if let Ok(Some(_)) = child.try_wait() {
                println!("not reproduced: the replayed execution ended on this tree");
                std::process::exit(0);
            }
            if t0.elapsed().as_secs() >= limit {
                let _ = child.kill();
                let _ = child.wait();
                println!("reproduced: the run of case {case} did not end within {limit} s (recorded: {want})");
                println!("VIOLATION property={} replay={}", check.id(), f.display());
                std::process::exit(1);
            }
            std::thread::sleep(std::time::Duration::from_millis(100));
        }
    }
    if want.starts_with("crash|") {
        // the run kills its process: replay it in a child, from its seed
        use std::os::unix::process::ExitStatusExt;
        let st = std::process::Command::new(std::env::current_exe().unwrap())
            .arg(check.id()).arg("--case").arg(case.to_string())
            .arg("--seed").arg(v["batch_seed"].as_u64().unwrap_or(1).to_string())
            .arg("--tier").arg(tier.name())
            .stdout(std::process::Stdio::null())
            .status().unwrap_or_else(|e| harness_error(&format!("cannot spawn: {e}")));
        if let Some(sig) = st.signal() {
            println!("reproduced: child died with signal {sig} (recorded: {want})");
            println!("VIOLATION property={} replay={}", check.id(), f.display());
            std::process::exit(1);
        }
        println!("not reproduced: the replayed execution finished normally on this tree");
        std::process::exit(0);
    }
    let dec = match v["values"].as_array() {
        Some(vals) => Dec::from_list(vals.iter().map(|x| x.as_u64().unwrap_or(0) as u32).collect()),
        None => Dec::from_seed(v["seed"].as_u64().unwrap_or(0)),
    };
    let out = check.run(case, dec, &RunOpts { record: true, tier });
    for e in &out.events {
        println!("  {e}");
    }
    println!("trace_hash={:016x} recorded={}", out.hash, v["trace_hash"].as_str().unwrap_or("-"));
    match out.violation {
        Some(viol) => {
            if viol.sig == want {
                println!("reproduced: {}", viol.sig);
            } else {
                println!("a violation with a different signature occurred: {} (file: {want})", viol.sig);
            }
            println!("  detail: {}", viol.detail);
            println!("VIOLATION property={} replay={}", check.id(), f.display());
            std::process::exit(1);
        }
        None => {
            println!("not reproduced: the replayed execution satisfies the property on this tree");
            std::process::exit(0);
        }
    }
}

/// Shrink a decision list while `test` keeps reproducing the same signature.
pub fn minimise(mut vals: Vec<u32>, mut test: impl FnMut(&[u32]) -> bool, max_tests: usize, max_secs: f64) -> Vec<u32> {
    let t0 = Instant::now();
    let mut tests = 0usize;
    let mut ok = |v: &[u32], tests: &mut usize| -> bool {
        *tests += 1;
        test(v)
    };
    // trailing values that were never needed
    loop {
        let mut changed = false;
        // delete chunks
        let mut size = (vals.len() / 2).max(1);
        while size >= 1 {
            let mut i = 0;
            while i + size <= vals.len() {
                if tests >= max_tests || t0.elapsed().as_secs_f64() > max_secs {
                    return vals;
                }
                let mut cand = vals.clone();
                cand.drain(i..i + size);
                if ok(&cand, &mut tests) {
                    vals = cand;
                    changed = true;
                } else {
                    i += size;
                }
            }
            if size == 1 {
                break;
            }
            size /= 2;
        }
        // zero, then halve values
        for i in 0..vals.len() {
            if vals[i] == 0 {
                continue;
            }
            if tests >= max_tests || t0.elapsed().as_secs_f64() > max_secs {
                return vals;
            }
            let mut cand = vals.clone();
            cand[i] = 0;
            if ok(&cand, &mut tests) {
                vals = cand;
                changed = true;
                continue;
            }
            let mut lo = 0u32;
            let mut hi = vals[i];
            while lo + 1 < hi && tests < max_tests {
                let mid = lo + (hi - lo) / 2;
                let mut cand = vals.clone();
                cand[i] = mid;
                if ok(&cand, &mut tests) {
                    hi = mid;
                    vals = cand;
                    changed = true;
                } else {
                    lo = mid;
                }
            }
        }
        while vals.last() == Some(&0) {
            vals.pop();
        }
        if !changed {
            return vals;
        }
    }
}

fn minimise_main(check: &dyn Check, f: &Path, tier: Tier) -> ! {
    let b = std::fs::read(f).unwrap();
    let mut v: Value = serde_json::from_slice(&b).unwrap();
    let case = v["case"].as_u64().unwrap_or(0);
    let sig = v["sig"].as_str().unwrap_or("").to_string();
    let vals: Vec<u32> = v["values"].as_array().unwrap().iter().map(|x| x.as_u64().unwrap_or(0) as u32).collect();
    let opts = RunOpts { record: false, tier };
    let before = vals.len();
    let test = |cand: &[u32]| -> bool {
        let out = check.run(case, Dec::from_list(cand.to_vec()), &opts);
        out.violation.is_some_and(|x| x.sig == sig)
    };
    let small = minimise(vals, test, 2000, 60.0);
    // consumed prefix only: re-run and keep the values actually drawn
    let out = check.run(case, Dec::from_list(small.clone()), &opts);
    let used: Vec<u32> = out.decisions.iter().map(|d| d.2).collect();
    let mut fin = if out.violation.as_ref().is_some_and(|x| x.sig == sig) { used } else { small };
    while fin.last() == Some(&0) {
        fin.pop();
    }
    if let Some(viol) = out.violation {
        v["detail"] = json!(viol.detail);
    }
    v["values"] = json!(fin);
    v["minimised_from"] = json!(before);
    std::fs::write(f, serde_json::to_vec(&v).unwrap()).unwrap();
    std::process::exit(0);
}

/// Every case twice, in different processes and at two worker counts; returns the divergent cases.
fn selftest(check: &dyn Check, a: &Args, n: u64) -> (usize, Vec<u64>) {
    let mut a2 = Args { cases_override: Some(n), ..Args { ..parse_args(&[]) } };
    a2.tier = a.tier;
    a2.seed = a.seed;
    let m1 = run_workers(check, &a2, 16, "s1", true);
    let m2 = run_workers(check, &a2, 5, "s2", true);
    let mut diverged = Vec::new();
    for (c, h) in &m1.hashes {
        if m2.hashes.get(c) != Some(h) {
            diverged.push(*c);
        }
    }
    if m1.hashes.len() as u64 != n || m2.hashes.len() as u64 != n {
        harness_error("self-test: missing runs");
    }
    (m1.hashes.len(), diverged)
}

fn selftest_main(check: &dyn Check, a: &Args, n: u64) -> ! {
    let (cases, diverged) = selftest(check, a, n);
    println!(
        "determinism self-test {}: {} cases x 2 executions (16 and 5 worker processes), {} divergent",
        check.id(), cases, diverged.len()
    );
    if !diverged.is_empty() {
        harness_error(&format!("self-test: divergent cases {:?}", &diverged[..diverged.len().min(10)]));
    }
    let dir = verif_root().join("selftest");
    let _ = std::fs::create_dir_all(&dir);
    let p = dir.join(format!("{}.json", check.id()));
    let _ = std::fs::write(p, serde_json::to_vec_pretty(&json!({"property_id": check.id(), "cases": n, "executions_per_case": 2, "worker_counts": [16, 5], "divergent": 0})).unwrap());
    std::process::exit(0);
}
