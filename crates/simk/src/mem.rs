//! Memory provider: the simulated address space behind `mmap(MAP_ANONYMOUS)`, `mremap`, `munmap`.
//!
//! A large `PROT_NONE|MAP_NORESERVE` arena is reserved once per process with real calls.  A granted
//! range is `mprotect`ed read/write (and is zero: released ranges are dropped with
//! `MADV_DONTNEED`), a released range goes back to `PROT_NONE`, so any access outside what the
//! provider granted faults.  Placement of every mapping is a decision: directly above an existing
//! mapping, directly below one, or isolated.  The provider knows the exact set of mapped ranges.

use crate::dec::{Dec, K};
use crate::kern::{neg, EINVAL, ENOMEM};

pub const PAGE: usize = 4096;

pub struct Provider {
    pub base: usize,
    pub len: usize,
    /// sorted, disjoint, non-adjacent (adjacent ranges are merged like kernel VMAs)
    pub ranges: Vec<(usize, usize)>,
    pub total: usize,
    pub peak: usize,
    bump: usize,
    pub n_above: u64,
    pub n_below: u64,
    pub n_isolated: u64,
    pub n_mmap: u64,
    pub n_munmap: u64,
    pub n_mremap_shrink: u64,
    pub n_mremap_grow: u64,
    pub n_mremap_move: u64,
    /// requests refused because the arena has no room left
    pub n_exhausted: u64,
    /// placement policy of a run: 0 = drawn per call; 1 = directly below the lowest mapping when
    /// possible (what Linux's top-down mmap layout does: one growing VMA); 2 = directly above the highest
    pub policy: u8,
}

#[derive(Clone, Copy, PartialEq, Eq, Debug)]
pub enum Place {
    Above,
    Below,
    Isolated,
}

impl Provider {
    pub fn new(len: usize) -> Provider {
        let p = unsafe {
            libc::mmap(
                std::ptr::null_mut(),
                len,
                libc::PROT_NONE,
                libc::MAP_PRIVATE | libc::MAP_ANONYMOUS | libc::MAP_NORESERVE,
                -1,
                0,
            )
        };
        assert!(p != libc::MAP_FAILED, "cannot reserve arena");
        Provider {
            base: p as usize,
            len,
            ranges: Vec::new(),
            total: 0,
            peak: 0,
            bump: 0,
            n_above: 0,
            n_below: 0,
            n_isolated: 0,
            n_mmap: 0,
            n_munmap: 0,
            n_mremap_shrink: 0,
            n_mremap_grow: 0,
            n_mremap_move: 0,
            n_exhausted: 0,
            policy: 0,
        }
    }

    /// Release everything (between runs).
    pub fn reset(&mut self) {
        let rs = std::mem::take(&mut self.ranges);
        for (s, e) in rs {
            self.release_pages(s, e - s);
        }
        self.total = 0;
        self.peak = 0;
        self.bump = 0;
        self.n_above = 0;
        self.n_below = 0;
        self.n_isolated = 0;
        self.n_mmap = 0;
        self.n_munmap = 0;
        self.n_mremap_shrink = 0;
        self.n_mremap_grow = 0;
        self.n_mremap_move = 0;
        self.n_exhausted = 0;
        self.policy = 0;
    }

    fn grant_pages(&self, addr: usize, len: usize) {
        let r = unsafe { libc::mprotect(addr as *mut _, len, libc::PROT_READ | libc::PROT_WRITE) };
        assert_eq!(r, 0, "mprotect RW");
    }

    fn release_pages(&self, addr: usize, len: usize) {
        unsafe {
            libc::madvise(addr as *mut _, len, libc::MADV_DONTNEED);
            let r = libc::mprotect(addr as *mut _, len, libc::PROT_NONE);
            assert_eq!(r, 0, "mprotect NONE");
        }
    }

    pub fn in_arena(&self, addr: usize, len: usize) -> bool {
        addr >= self.base && addr.checked_add(len).is_some_and(|e| e <= self.base + self.len)
    }

    /// Is `[addr, addr+len)` completely mapped?
    pub fn is_mapped(&self, addr: usize, len: usize) -> bool {
        if len == 0 {
            return true;
        }
        let end = addr + len;
        self.ranges.iter().any(|&(s, e)| s <= addr && end <= e)
    }

    fn is_free(&self, addr: usize, len: usize) -> bool {
        if !self.in_arena(addr, len) {
            return false;
        }
        let end = addr + len;
        !self.ranges.iter().any(|&(s, e)| s < end && addr < e)
    }

    fn insert(&mut self, addr: usize, len: usize) {
        let end = addr + len;
        let mut ns = addr;
        let mut ne = end;
        let mut out = Vec::with_capacity(self.ranges.len() + 1);
        for &(s, e) in &self.ranges {
            if e < ns || s > ne {
                out.push((s, e));
            } else {
                ns = ns.min(s);
                ne = ne.max(e);
            }
        }
        out.push((ns, ne));
        out.sort_unstable();
        self.ranges = out;
        self.total += len;
        self.peak = self.peak.max(self.total);
    }

    fn remove(&mut self, addr: usize, len: usize) -> usize {
        let end = addr + len;
        let mut out = Vec::with_capacity(self.ranges.len() + 1);
        let mut removed = 0;
        for &(s, e) in &self.ranges {
            if e <= addr || s >= end {
                out.push((s, e));
            } else {
                let cs = s.max(addr);
                let ce = e.min(end);
                removed += ce - cs;
                if s < cs {
                    out.push((s, cs));
                }
                if ce < e {
                    out.push((ce, e));
                }
            }
        }
        self.ranges = out;
        self.total -= removed;
        removed
    }

    fn find_isolated(&mut self, len: usize) -> Option<usize> {
        const GAP: usize = 8 << 20;
        for _ in 0..4096 {
            let cand = self.base + self.bump + GAP;
            let next = self.bump + GAP + len;
            if next + GAP > self.len {
                self.bump = 0;
                continue;
            }
            self.bump = next;
            // isolated: a free gap on both sides
            if self.is_free(cand - GAP / 2, len + GAP) {
                return Some(cand);
            }
        }
        // fall back to any free spot
        let mut at = self.base;
        for &(s, e) in &self.ranges.clone() {
            if s - at >= len + 2 * PAGE {
                return Some(at + PAGE);
            }
            at = e;
        }
        if self.base + self.len - at >= len + 2 * PAGE {
            return Some(at + PAGE);
        }
        None
    }

    /// Serve an anonymous private mmap; placement drawn from the decision stream.
    pub fn mmap(&mut self, len: usize, dec: &mut Dec) -> usize {
        if len == 0 || len % PAGE != 0 {
            return neg(EINVAL);
        }
        self.n_mmap += 1;
        let mut place = match self.policy {
            1 => Place::Below,
            2 => Place::Above,
            _ => match dec.choose(K::Place, 4) {
                0 | 3 => Place::Isolated,
                1 => Place::Above,
                _ => Place::Below,
            },
        };
        let mut addr = None;
        if place != Place::Isolated && !self.ranges.is_empty() {
            let i = match self.policy {
                1 => 0,
                2 => self.ranges.len() - 1,
                _ => dec.choose(K::Place, self.ranges.len() as u32) as usize,
            };
            let (s, e) = self.ranges[i];
            if place == Place::Above && self.is_free(e, len) {
                addr = Some(e);
            } else if place == Place::Below && s >= len && self.is_free(s - len, len) {
                addr = Some(s - len);
            }
        }
        if addr.is_none() && self.policy == 1 && self.ranges.is_empty() {
            // top-down layout: the first mapping sits at the top of the address space
            let top = (self.base + self.len - len - (64 << 20)) & !(PAGE - 1);
            if top > self.base && self.is_free(top, len) {
                place = Place::Isolated;
                addr = Some(top);
            }
        }
        if addr.is_none() {
            place = Place::Isolated;
            addr = self.find_isolated(len);
        }
        let Some(addr) = addr else {
            self.n_exhausted += 1;
            return neg(ENOMEM);
        };
        match place {
            Place::Above => self.n_above += 1,
            Place::Below => self.n_below += 1,
            Place::Isolated => self.n_isolated += 1,
        }
        self.grant_pages(addr, len);
        self.insert(addr, len);
        addr
    }

    pub fn munmap(&mut self, addr: usize, len: usize) -> usize {
        if addr % PAGE != 0 || len == 0 {
            return neg(EINVAL);
        }
        let len = len.div_ceil(PAGE) * PAGE;
        if !self.in_arena(addr, len) {
            return neg(EINVAL);
        }
        self.n_munmap += 1;
        // release only what is mapped inside the range
        let pieces: Vec<(usize, usize)> = self
            .ranges
            .iter()
            .filter(|&&(s, e)| s < addr + len && addr < e)
            .map(|&(s, e)| (s.max(addr), e.min(addr + len)))
            .collect();
        for (s, e) in pieces {
            self.release_pages(s, e - s);
        }
        self.remove(addr, len);
        0
    }

    /// mremap with flags 0 or MREMAP_MAYMOVE(1).
    pub fn mremap(&mut self, old: usize, oldlen: usize, newlen: usize, flags: usize, dec: &mut Dec) -> usize {
        if old % PAGE != 0 || newlen == 0 {
            return neg(EINVAL);
        }
        let oldlen = oldlen.div_ceil(PAGE) * PAGE;
        let newlen = newlen.div_ceil(PAGE) * PAGE;
        if !self.is_mapped(old, oldlen) {
            return neg(crate::kern::EFAULT);
        }
        if newlen == oldlen {
            return old;
        }
        if newlen < oldlen {
            self.n_mremap_shrink += 1;
            self.release_pages(old + newlen, oldlen - newlen);
            self.remove(old + newlen, oldlen - newlen);
            return old;
        }
        let extra = newlen - oldlen;
        if self.is_free(old + oldlen, extra) {
            self.n_mremap_grow += 1;
            self.grant_pages(old + oldlen, extra);
            self.insert(old + oldlen, extra);
            return old;
        }
        if flags & 1 == 0 {
            return neg(ENOMEM);
        }
        let _ = dec;
        let Some(na) = self.find_isolated(newlen) else { return neg(ENOMEM) };
        self.n_mremap_move += 1;
        self.grant_pages(na, newlen);
        self.insert(na, newlen);
        unsafe { std::ptr::copy_nonoverlapping(old as *const u8, na as *mut u8, oldlen) };
        self.release_pages(old, oldlen);
        self.remove(old, oldlen);
        na
    }
}
