//! Event log of one run: always a running hash, optionally the readable events.
//! Never draws decisions and never reads a clock.

pub struct Trace {
    pub hash: u64,
    pub count: u64,
    pub events: Option<Vec<String>>,
    pub cap: usize,
}

impl Trace {
    pub fn new(record: bool) -> Self {
        Trace {
            hash: 0x9E37_79B9_7F4A_7C15,
            count: 0,
            events: if record { Some(Vec::new()) } else { None },
            cap: 4000,
        }
    }

    #[inline]
    pub fn mix(&mut self, a: u64, b: u64) {
        let mut h = self.hash ^ a.wrapping_mul(0xff51_afd7_ed55_8ccd);
        h = h.rotate_left(23).wrapping_mul(0xc4ce_b9fe_1a85_ec53);
        h ^= b.wrapping_mul(0x9E37_79B9_7F4A_7C15);
        h = h.rotate_left(29).wrapping_mul(0x94D0_49BB_1331_11EB);
        self.hash = h;
        self.count += 1;
    }

    #[inline]
    pub fn recording(&self) -> bool {
        self.events.is_some()
    }

    #[inline]
    pub fn ev(&mut self, f: impl FnOnce() -> String) {
        if let Some(v) = &mut self.events {
            if v.len() < self.cap {
                v.push(f());
            } else if v.len() == self.cap {
                v.push("... (event log truncated)".to_string());
            }
        }
    }
}
