//! The decision stream: every choice of a simulated run is one `choose(kind, n)`.
//!
//! Recording mode draws from SplitMix64 seeded by the run seed and logs `(kind, n, value)`.
//! Replay mode reads values from a list; when the list is exhausted or a value is out of range
//! the default 0 is taken ("stay on the current thread", "no fault", "simplest operation").
//! Nothing else in the machinery draws randomness, and logging never draws.

#[derive(Clone, Copy, Debug, PartialEq, Eq)]
#[repr(u8)]
pub enum K {
    Sched = 0,
    Wake = 1,
    Fault = 2,
    Op = 3,
    Arg = 4,
    Place = 5,
    Cfg = 6,
    Time = 7,
}

impl K {
    pub fn name(self) -> &'static str {
        match self {
            K::Sched => "sched",
            K::Wake => "wake",
            K::Fault => "fault",
            K::Op => "op",
            K::Arg => "arg",
            K::Place => "place",
            K::Cfg => "cfg",
            K::Time => "time",
        }
    }
    pub fn from_u8(b: u8) -> K {
        match b {
            0 => K::Sched,
            1 => K::Wake,
            2 => K::Fault,
            3 => K::Op,
            4 => K::Arg,
            5 => K::Place,
            6 => K::Cfg,
            _ => K::Time,
        }
    }
}

#[derive(Clone)]
pub struct SplitMix64(pub u64);

impl SplitMix64 {
    #[inline]
    pub fn next(&mut self) -> u64 {
        self.0 = self.0.wrapping_add(0x9E37_79B9_7F4A_7C15);
        let mut z = self.0;
        z = (z ^ (z >> 30)).wrapping_mul(0xBF58_476D_1CE4_E5B9);
        z = (z ^ (z >> 27)).wrapping_mul(0x94D0_49BB_1331_11EB);
        z ^ (z >> 31)
    }
}

/// Mix several integers into one seed (used for per-run seeds).
pub fn mix(parts: &[u64]) -> u64 {
    let mut s = SplitMix64(0x1234_5678_9ABC_DEF0);
    let mut acc = 0u64;
    for p in parts {
        s.0 ^= *p;
        acc = acc.rotate_left(17) ^ s.next();
    }
    acc
}

pub fn hash_str(s: &str) -> u64 {
    let mut h: u64 = 0xcbf2_9ce4_8422_2325;
    for b in s.bytes() {
        h ^= u64::from(b);
        h = h.wrapping_mul(0x1_0000_0001_b3);
    }
    h
}

pub struct Dec {
    rng: Option<SplitMix64>,
    replay: Vec<u32>,
    pos: usize,
    /// every decision taken so far: (kind, n, value)
    pub log: Vec<(u8, u32, u32)>,
    pub seed: u64,
}

impl Dec {
    pub fn from_seed(seed: u64) -> Self {
        Dec {
            rng: Some(SplitMix64(seed)),
            replay: Vec::new(),
            pos: 0,
            log: Vec::with_capacity(256),
            seed,
        }
    }

    pub fn from_list(list: Vec<u32>) -> Self {
        Dec {
            rng: None,
            replay: list,
            pos: 0,
            log: Vec::with_capacity(256),
            seed: 0,
        }
    }

    pub fn is_replay(&self) -> bool {
        self.rng.is_none()
    }

    pub fn values(&self) -> Vec<u32> {
        self.log.iter().map(|e| e.2).collect()
    }

    /// A value in `0..n` (`n >= 1`).  `n == 1` consumes nothing.
    #[inline]
    pub fn choose(&mut self, kind: K, n: u32) -> u32 {
        if n <= 1 {
            return 0;
        }
        let v = match &mut self.rng {
            Some(r) => {
                // multiply-shift: unbiased enough, deterministic
                ((u128::from(r.next()) * u128::from(n)) >> 64) as u32
            }
            None => {
                let v = self.replay.get(self.pos).copied().unwrap_or(0);
                self.pos += 1;
                if v < n {
                    v
                } else {
                    0
                }
            }
        };
        self.log.push((kind as u8, n, v));
        v
    }

    /// True with probability `num/den`; under replay defaults this is false.
    #[inline]
    pub fn chance(&mut self, kind: K, num: u32, den: u32) -> bool {
        if num == 0 {
            return false;
        }
        let v = self.choose(kind, den);
        v >= den - num.min(den)
    }

    /// A value in `lo..=hi`; default is `lo`.
    #[inline]
    pub fn range(&mut self, kind: K, lo: u64, hi: u64) -> u64 {
        debug_assert!(hi >= lo);
        let span = (hi - lo).wrapping_add(1);
        if span == 0 {
            // the full 64-bit range
            let a = u64::from(self.choose(kind, u32::MAX));
            let b = u64::from(self.choose(kind, u32::MAX));
            let c = u64::from(self.choose(kind, 4));
            return (a << 33) ^ (b << 2) ^ c;
        }
        if span <= u64::from(u32::MAX) {
            lo + u64::from(self.choose(kind, span as u32))
        } else {
            let a = u64::from(self.choose(kind, u32::MAX));
            let b = u64::from(self.choose(kind, u32::MAX));
            lo + ((a << 31) ^ b) % span
        }
    }

    /// Pick one element; default is the first.
    #[inline]
    pub fn pick<'a, T>(&mut self, kind: K, xs: &'a [T]) -> &'a T {
        &xs[self.choose(kind, xs.len() as u32) as usize]
    }
}
