//! simk — deterministic simulation core for the tiny-std checks (engine A).
pub mod dec;
pub mod fdm;
pub mod kern;
pub mod mem;
pub mod runner;
pub mod sched;
pub mod trace;
pub mod vc;

pub use dec::{Dec, K};
pub use sched::{Sim, SimCfg, Violation};
