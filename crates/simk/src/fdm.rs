//! Descriptor model + single-fault plans for operations that run on the real kernel
//! (files, sockets, pipes, fork/exec).  Every system call of the code under test passes
//! [`PassKernel`]: it is counted and traced, optionally replaced by `-errno` (the call is then
//! not executed), otherwise executed for real and fed to the descriptor model.
//!
//! A forked child carries a copy of the plan; a small `MAP_SHARED` page collects what happens
//! on the child side.

use crate::kern::{self, is_err, neg};
use crate::sched::{sim, Kernel};
use sc::nr;
use std::cell::{Cell, RefCell};
use std::collections::BTreeMap;

#[derive(Clone, Copy, PartialEq, Eq, Debug)]
pub enum Side {
    Parent,
    Child,
}

#[derive(Clone, Copy, Debug)]
pub struct Plan {
    pub side: Side,
    pub index: u32,
    pub errno: i32,
}

#[repr(C)]
pub struct Shared {
    pub child_calls: u32,
    pub child_fault_fired: u32,
    pub returned_in_child: u32,
    pub child_trace_len: u32,
    pub child_trace: [u16; 120],
    pub scratch: [u32; 8],
}

pub fn shared() -> &'static mut Shared {
    thread_local! {
        static PAGE: Cell<usize> = const { Cell::new(0) };
    }
    PAGE.with(|p| {
        if p.get() == 0 {
            let m = unsafe {
                libc::mmap(std::ptr::null_mut(), 4096, libc::PROT_READ | libc::PROT_WRITE, libc::MAP_SHARED | libc::MAP_ANONYMOUS, -1, 0)
            };
            assert!(m != libc::MAP_FAILED);
            p.set(m as usize);
        }
        unsafe { &mut *(p.get() as *mut Shared) }
    })
}

pub fn sys_name(n: usize) -> &'static str {
    match n {
        nr::READ => "read",
        nr::WRITE => "write",
        nr::READV => "readv",
        nr::WRITEV => "writev",
        nr::OPENAT => "openat",
        nr::CLOSE => "close",
        nr::NEWFSTATAT => "newfstatat",
        nr::LSEEK => "lseek",
        nr::MMAP => "mmap",
        nr::MUNMAP => "munmap",
        nr::MREMAP => "mremap",
        nr::IOCTL => "ioctl",
        nr::PIPE2 => "pipe2",
        nr::DUP3 => "dup3",
        nr::NANOSLEEP => "nanosleep",
        nr::GETPID => "getpid",
        nr::SOCKET => "socket",
        nr::CONNECT => "connect",
        nr::ACCEPT4 => "accept4",
        nr::SENDMSG => "sendmsg",
        nr::RECVMSG => "recvmsg",
        nr::BIND => "bind",
        nr::LISTEN => "listen",
        nr::GETSOCKNAME => "getsockname",
        nr::FORK => "fork",
        nr::CLONE => "clone",
        nr::EXECVE => "execve",
        nr::EXIT => "exit",
        nr::WAIT4 => "wait4",
        nr::FCNTL => "fcntl",
        nr::GETDENTS64 => "getdents64",
        nr::CHDIR => "chdir",
        nr::RENAMEAT2 => "renameat2",
        nr::MKDIRAT => "mkdirat",
        nr::UNLINKAT => "unlinkat",
        nr::SETUID => "setuid",
        nr::SETGID => "setgid",
        nr::SETPGID => "setpgid",
        nr::SETSID => "setsid",
        nr::GETUID => "getuid",
        nr::FUTEX => "futex",
        nr::EPOLL_CREATE1 => "epoll_create1",
        nr::EPOLL_CTL => "epoll_ctl",
        nr::EPOLL_PWAIT => "epoll_pwait",
        nr::PPOLL => "ppoll",
        nr::COPY_FILE_RANGE => "copy_file_range",
        nr::IO_URING_SETUP => "io_uring_setup",
        nr::IO_URING_ENTER => "io_uring_enter",
        nr::IO_URING_REGISTER => "io_uring_register",
        nr::CLOCK_GETTIME => "clock_gettime",
        nr::UNAME => "uname",
        nr::RT_SIGACTION => "rt_sigaction",
        _ => "other",
    }
}

/// Errnos that the real kernel plausibly returns for a call (the enumeration space of a single fault).
pub fn plausible_errnos(n: usize) -> &'static [i32] {
    match n {
        nr::OPENAT => &[2, 13, 24],
        nr::SOCKET => &[24, 12],
        nr::BIND => &[98, 13],
        nr::LISTEN => &[98, 95],
        nr::CONNECT => &[111, 11, 2],
        nr::ACCEPT4 => &[11, 24, 103],
        nr::PIPE2 => &[24, 23],
        nr::FORK | nr::CLONE => &[11, 12],
        nr::READ | nr::READV | nr::RECVMSG => &[5, 4, 11],
        nr::WRITE | nr::WRITEV | nr::SENDMSG => &[5, 4, 28],
        nr::CLOSE => &[5],
        nr::DUP3 => &[24, 9],
        nr::FCNTL => &[9, 22],
        nr::PPOLL | nr::EPOLL_PWAIT => &[4, 12],
        nr::WAIT4 => &[10, 4],
        nr::NEWFSTATAT => &[2, 13],
        nr::GETDENTS64 => &[5, 2],
        nr::UNLINKAT => &[13, 16],
        nr::MKDIRAT => &[17, 13],
        nr::RENAMEAT2 => &[13, 18],
        nr::COPY_FILE_RANGE => &[5, 28, 18],
        nr::EPOLL_CREATE1 => &[24, 12],
        nr::EPOLL_CTL => &[12, 17],
        nr::IOCTL => &[25, 5],
        nr::IO_URING_SETUP => &[12, 1],
        nr::MMAP => &[12],
        nr::MUNMAP => &[22],
        nr::GETSOCKNAME => &[105],
        nr::CHDIR => &[2, 13],
        nr::SETUID | nr::SETGID | nr::SETPGID => &[1],
        nr::EXECVE => &[2, 13, 8],
        nr::LSEEK => &[29],
        _ => &[5, 12],
    }
}

#[derive(Clone, Debug)]
pub struct FdInfo {
    /// "socket#1", "pipe2#2.read", ...
    pub origin: String,
    pub open: bool,
}

#[derive(Clone, Debug)]
pub struct FdIssue {
    pub kind: &'static str,
    pub detail: String,
    pub origin: String,
}

pub struct PassKernel {
    pub plan: Cell<Option<Plan>>,
    pub parent_calls: Cell<u32>,
    pub in_child: Cell<bool>,
    pub fault_fired: Cell<bool>,
    pub trace: RefCell<Vec<usize>>,
    /// every descriptor the scenario created, by number (latest incarnation)
    pub fds: RefCell<BTreeMap<i32, FdInfo>>,
    pub issues: RefCell<Vec<FdIssue>>,
    per_name: RefCell<BTreeMap<usize, u32>>,
    /// descriptors handed to the operation by the caller (closing them is legitimate)
    pub given: RefCell<Vec<i32>>,
    /// caller-given descriptors the operation has closed
    pub given_closed: RefCell<Vec<i32>>,
    pub harness_pid: i32,
    /// record mmap/munmap of non-anonymous mappings (io_uring rings): (addr, len, released)
    pub maps: RefCell<Vec<(usize, usize, u32)>>,
    pub extra: RefCell<Option<Box<dyn Fn(usize, [usize; 6]) -> Option<usize>>>>,
}

impl Default for PassKernel {
    fn default() -> Self {
        Self::new()
    }
}

impl PassKernel {
    pub fn new() -> Self {
        let s = shared();
        s.child_calls = 0;
        s.child_fault_fired = 0;
        s.returned_in_child = 0;
        s.child_trace_len = 0;
        PassKernel {
            plan: Cell::new(None),
            parent_calls: Cell::new(0),
            in_child: Cell::new(false),
            fault_fired: Cell::new(false),
            trace: RefCell::new(Vec::new()),
            fds: RefCell::new(BTreeMap::new()),
            issues: RefCell::new(Vec::new()),
            per_name: RefCell::new(BTreeMap::new()),
            given: RefCell::new(Vec::new()),
            given_closed: RefCell::new(Vec::new()),
            harness_pid: unsafe { libc::getpid() },
            maps: RefCell::new(Vec::new()),
            extra: RefCell::new(None),
        }
    }

    fn ordinal(&self, n: usize) -> u32 {
        let mut m = self.per_name.borrow_mut();
        let c = m.entry(n).or_insert(0);
        *c += 1;
        *c
    }

    /// `name#k` label of call `index` of the recorded parent trace.
    pub fn label_of(trace: &[usize], index: usize) -> String {
        let n = trace[index];
        let k = trace[..=index].iter().filter(|&&x| x == n).count();
        format!("{}#{k}", sys_name(n))
    }

    fn opened(&self, fd: i32, origin: String) {
        self.fds.borrow_mut().insert(fd, FdInfo { origin, open: true });
    }

    fn observe(&self, n: usize, a: [usize; 6], r: usize, ord: u32) {
        if is_err(r) && n != nr::CLOSE {
            return;
        }
        match n {
            nr::OPENAT | nr::SOCKET | nr::ACCEPT4 | nr::EPOLL_CREATE1 | nr::IO_URING_SETUP => {
                self.opened(r as i32, format!("{}#{ord}", sys_name(n)));
            }
            nr::PIPE2 => unsafe {
                let p = a[0] as *const i32;
                self.opened(*p, format!("pipe2#{ord}.read"));
                self.opened(*p.add(1), format!("pipe2#{ord}.write"));
            },
            nr::DUP3 => {
                self.opened(a[1] as i32, format!("dup3#{ord}"));
            }
            nr::RECVMSG => unsafe {
                // SCM_RIGHTS: descriptors installed by the kernel into the control buffer
                #[repr(C)]
                struct Mh {
                    name: usize,
                    namelen: u32,
                    iov: usize,
                    iovlen: usize,
                    control: usize,
                    controllen: usize,
                    flags: i32,
                }
                let mh = &*(a[1] as *const Mh);
                let mut off = 0usize;
                while mh.control != 0 && off + 16 <= mh.controllen {
                    let len = *((mh.control + off) as *const usize);
                    let level = *((mh.control + off + 8) as *const i32);
                    let ty = *((mh.control + off + 12) as *const i32);
                    if len < 16 {
                        break;
                    }
                    if level == 1 && ty == 1 {
                        let nfd = (len - 16) / 4;
                        for i in 0..nfd {
                            let fd = *((mh.control + off + 16 + 4 * i) as *const i32);
                            self.opened(fd, format!("recvmsg#{ord}.scm_rights[{i}]"));
                        }
                    }
                    off += (len + 7) & !7;
                }
            },
            nr::CLOSE => {
                let fd = a[0] as i32;
                let mut fds = self.fds.borrow_mut();
                match fds.get_mut(&fd) {
                    Some(info) if info.open => info.open = false,
                    Some(info) => {
                        let origin = info.origin.clone();
                        drop(fds);
                        self.issues.borrow_mut().push(FdIssue {
                            kind: "double-close",
                            detail: format!("descriptor {fd} (from {origin}) is closed a second time"),
                            origin,
                        });
                    }
                    None => {
                        // a descriptor handed to the operation may be closed by it: once
                        let pos = self.given.borrow().iter().position(|g| *g == fd);
                        if let Some(pos) = pos {
                            self.given.borrow_mut().remove(pos);
                            self.given_closed.borrow_mut().push(fd);
                        } else if self.given_closed.borrow().contains(&fd) {
                            drop(fds);
                            self.issues.borrow_mut().push(FdIssue {
                                kind: "double-close",
                                detail: format!("descriptor {fd} (handed to the operation by the caller) is closed a second time"),
                                origin: format!("given fd{fd}"),
                            });
                        } else {
                            drop(fds);
                            self.issues.borrow_mut().push(FdIssue {
                                kind: "close-unowned",
                                detail: format!("close({fd}) of a descriptor the operation neither opened nor was given"),
                                origin: format!("fd{fd}"),
                            });
                        }
                    }
                }
            }
            nr::MMAP => {
                if (a[4] as i32) >= 0 {
                    self.maps.borrow_mut().push((r, a[1], 0));
                }
            }
            nr::MUNMAP => {
                let mut maps = self.maps.borrow_mut();
                let mut hit = false;
                for m in maps.iter_mut() {
                    if m.0 == a[0] {
                        m.2 += 1;
                        hit = true;
                    }
                }
                if !hit {
                    maps.push((a[0], a[1], 100));
                }
            }
            _ => {}
        }
    }

    /// Descriptors of the scenario that are still open according to the model.
    pub fn still_open(&self) -> Vec<(i32, String)> {
        self.fds.borrow().iter().filter(|(_, i)| i.open).map(|(fd, i)| (*fd, i.origin.clone())).collect()
    }
}

impl Kernel for PassKernel {
    fn syscall(&self, n: usize, a: [usize; 6]) -> usize {
        if let Some(x) = self.extra.borrow().as_ref() {
            if let Some(r) = x(n, a) {
                return r;
            }
        }
        if self.in_child.get() {
            let sh = shared();
            let idx = sh.child_calls;
            sh.child_calls += 1;
            if (sh.child_trace_len as usize) < sh.child_trace.len() {
                sh.child_trace[sh.child_trace_len as usize] = n as u16;
                sh.child_trace_len += 1;
            }
            if let Some(p) = self.plan.get() {
                if p.side == Side::Child && p.index == idx {
                    sh.child_fault_fired = 1;
                    return neg(p.errno);
                }
            }
            return kern::real(n, a);
        }
        let idx = self.parent_calls.get();
        self.parent_calls.set(idx + 1);
        self.trace.borrow_mut().push(n);
        let ord = self.ordinal(n);
        if let Some(p) = self.plan.get() {
            if p.side == Side::Parent && p.index == idx {
                self.fault_fired.set(true);
                if let Some(s) = sim() {
                    s.trace.ev(|| format!("fault: call {idx} {}#{ord} -> -{}", sys_name(n), p.errno));
                }
                if n == nr::CLOSE {
                    // Linux releases the descriptor even when close reports an error
                    let _ = kern::real(n, a);
                    self.observe(n, a, 0, ord);
                }
                return neg(p.errno);
            }
        }
        let r = kern::real(n, a);
        if n == nr::FORK && r == 0 {
            self.in_child.set(true);
            return r;
        }
        if n == nr::SOCKET && a[0] == libc::AF_INET as usize && (r as isize) >= 0 {
            // the simulated network has no TIME_WAIT: a port used by an earlier run can be bound
            // again at once (the operations under test create their sockets themselves)
            let one: i32 = 1;
            unsafe {
                libc::setsockopt(r as i32, libc::SOL_SOCKET, libc::SO_REUSEADDR, std::ptr::from_ref(&one).cast(), 4);
            }
        }
        if let Some(s) = sim() {
            s.trace.ev(|| format!("call {idx} {}#{ord}({:#x},{:#x},{:#x}) -> {}", sys_name(n), a[0], a[1], a[2], r as isize));
        }
        self.observe(n, a, r, ord);
        r
    }
}

/// The set of open descriptors of this process according to the kernel.
pub fn proc_fds() -> Vec<i32> {
    let mut v = Vec::new();
    if let Ok(rd) = std::fs::read_dir("/proc/self/fd") {
        let names: Vec<String> = rd.flatten().map(|e| e.file_name().to_string_lossy().to_string()).collect();
        // read_dir itself holds one descriptor while iterating; it is closed by now
        for n in names {
            if let Ok(fd) = n.parse::<i32>() {
                if std::fs::read_link(format!("/proc/self/fd/{fd}")).is_ok() {
                    v.push(fd);
                }
            }
        }
    }
    v.sort_unstable();
    v
}

/// If this process is not the harness (a forked child that came back from the code under test):
/// flag it in the shared page and leave.
pub fn guard_child(harness_pid: i32) {
    if unsafe { libc::getpid() } != harness_pid {
        shared().returned_in_child = 1;
        unsafe { libc::_exit(77) };
    }
}

/// Reap every child of this process; kill what is still running.  Returns (reaped, killed).
pub fn reap_children() -> (u32, u32) {
    let mut reaped = 0;
    let mut killed = 0;
    loop {
        let mut st = 0;
        let r = unsafe { libc::waitpid(-1, &mut st, libc::WNOHANG) };
        if r > 0 {
            reaped += 1;
            continue;
        }
        if r == 0 {
            // children exist but none has exited: give them a moment, then kill
            let mut waited = 0;
            loop {
                std::thread::sleep(std::time::Duration::from_millis(2));
                let r = unsafe { libc::waitpid(-1, &mut st, libc::WNOHANG) };
                if r > 0 {
                    reaped += 1;
                    break;
                }
                if r < 0 {
                    return (reaped, killed);
                }
                waited += 1;
                if waited > 50 {
                    // kill all direct children: iterate /proc/self/task/*/children
                    if let Ok(s) = std::fs::read_to_string(format!("/proc/self/task/{}/children", unsafe { libc::getpid() })) {
                        for p in s.split_whitespace() {
                            if let Ok(pid) = p.parse::<i32>() {
                                unsafe { libc::kill(pid, libc::SIGKILL) };
                                killed += 1;
                            }
                        }
                    }
                    waited = 0;
                }
            }
            continue;
        }
        return (reaped, killed);
    }
}
