//! The simulator core of engine A: simulated threads (stackful coroutines on one OS thread), the
//! scheduler that decides every interleaving from the decision stream, blocking with deadlines on a
//! discrete-event clock, deadlock and progress detection.
//!
//! A coroutine gives up control only inside [`sched_point`] / [`block`]; everything between two
//! such points is one atomic simulator step.

use crate::dec::{Dec, K};
use crate::trace::Trace;
use corosensei::stack::DefaultStack;
use corosensei::{Coroutine, CoroutineResult, Yielder};
use std::collections::{BTreeMap, HashMap};
use std::panic::{catch_unwind, AssertUnwindSafe};

pub type Tid = usize;
pub const MAXT: usize = 8;
pub type VClock = [u32; MAXT];

pub const REAL_BASE_NS: i128 = 1_700_000_000_000_000_000;

#[derive(Clone, Copy, PartialEq, Eq, Debug)]
pub enum Wake {
    None,
    Woken,
    Timeout,
    Recheck,
}

#[derive(Clone, Copy, PartialEq, Eq, Debug)]
pub enum St {
    Runnable,
    /// parked in the simulator; `poller` threads are re-run whenever another thread finishes a call
    Blocked { deadline: Option<u64>, poller: bool },
    Done,
}

pub struct Th {
    co: Option<Coroutine<(), (), ()>>,
    pub st: St,
    pub wake: Wake,
    yielder: *const Yielder<(), ()>,
    pub vc: VClock,
    pub name: String,
    pub prio: u32,
    pub what: &'static str,
    pub joiners: Vec<Tid>,
    /// scratch slot for harness oracles ("inside try_lock", ...)
    pub tag: u64,
}

#[derive(Clone, Debug, PartialEq, Eq)]
pub enum Strategy {
    Random,
    /// switch with probability n/16 at each point
    Sticky(u32),
    /// PCT: run the highest priority runnable thread; at the change points demote the current one
    Pct(Vec<u64>),
    /// do not schedule thread `victim` for the first `k` steps unless it is the only runnable one
    Starve { victim: Tid, k: u64 },
}

#[derive(Clone, Debug)]
pub struct Violation {
    pub sig: String,
    pub detail: String,
}

#[derive(Clone)]
pub struct SimCfg {
    pub budget: u64,
    pub fair_budget: u64,
    pub record: bool,
    /// strategy fixed by the harness, or None = drawn per run (swarm)
    pub strategy: Option<Strategy>,
    /// simulated nanoseconds added per system call
    pub tick_ns: u64,
    /// expected run length in steps (PCT change points are drawn below this)
    pub est_len: u64,
    /// how often parked pollers are re-run (after a real 200 us pause) before a state without
    /// runnable threads is called a deadlock; 0 for purely simulated kernels
    pub idle_retries: u32,
}

impl Default for SimCfg {
    fn default() -> Self {
        SimCfg {
            budget: 200_000,
            fair_budget: 400_000,
            record: false,
            strategy: None,
            tick_ns: 1_000,
            est_len: 300,
            idle_retries: 0,
        }
    }
}

/// The system-call side of a run.  `&self`: the hook is re-entered by other coroutines while one
/// is parked inside a call, so implementations use interior mutability and never hold a borrow
/// across [`block`] / [`sched_point`].
pub trait Kernel {
    fn syscall(&self, nr: usize, a: [usize; 6]) -> usize;
}

pub struct Sim {
    pub dec: Dec,
    pub trace: Trace,
    pub threads: Vec<Th>,
    pub cur: Option<Tid>,
    next: Option<Tid>,
    pub mono_ns: u64,
    pub real_off_ns: i128,
    pub steps: u64,
    pub fair_steps: u64,
    pub cfg: SimCfg,
    pub fair: bool,
    pub faults_on: bool,
    pub violation: Option<Violation>,
    aborting: bool,
    pub counters: BTreeMap<&'static str, u64>,
    pub strategy: Strategy,
    pub switches: u64,
    /// futex wait queue in arrival order
    pub futexq: Vec<(usize, Tid)>,
    pub loc_clocks: HashMap<usize, VClock>,
    kernel: Option<*const dyn Kernel>,
    pub spurious_futex_left: u32,
    pub eintr_left: u32,
    /// chance n/64 that a weak CAS fails spuriously (0 = never)
    pub cas_spurious: u32,
    pub cas_spurious_left: u32,
    /// global event sequence number (oracles stamp invoke/return with it)
    pub seq: u64,
    rr_last: Tid,
    last_run: Option<Tid>,
    addr_ids: Vec<usize>,
    idle_retries: u32,
}

static mut CUR: *mut Sim = std::ptr::null_mut();

/// The active simulator.  Callers keep the borrow short and never across a suspension.
#[inline(always)]
#[allow(static_mut_refs)]
pub fn sim() -> Option<&'static mut Sim> {
    unsafe {
        if CUR.is_null() {
            None
        } else {
            Some(&mut *CUR)
        }
    }
}

#[inline(always)]
pub fn active() -> bool {
    unsafe { !CUR.is_null() }
}

thread_local! {
    static STACKS: std::cell::RefCell<Vec<DefaultStack>> = const { std::cell::RefCell::new(Vec::new()) };
    pub static LAST_PANIC: std::cell::RefCell<Option<(String, String)>> = const { std::cell::RefCell::new(None) };
}

const STACK_SIZE: usize = 1 << 20;

fn get_stack() -> DefaultStack {
    STACKS
        .with(|s| s.borrow_mut().pop())
        .unwrap_or_else(|| DefaultStack::new(STACK_SIZE).expect("coroutine stack"))
}

fn put_stack(s: DefaultStack) {
    STACKS.with(|v| {
        let mut v = v.borrow_mut();
        if v.len() < 16 {
            v.push(s);
        }
    });
}

/// Install a panic hook that records message and location instead of printing.
pub fn install_quiet_panic_hook() {
    std::panic::set_hook(Box::new(|info| {
        let msg = if let Some(s) = info.payload().downcast_ref::<&str>() {
            (*s).to_string()
        } else if let Some(s) = info.payload().downcast_ref::<String>() {
            s.clone()
        } else {
            "<non-string panic>".to_string()
        };
        let loc = info
            .location()
            .map(|l| format!("{}:{}", l.file(), l.line()))
            .unwrap_or_default();
        LAST_PANIC.with(|p| *p.borrow_mut() = Some((msg, loc)));
    }));
}

pub fn take_last_panic() -> Option<(String, String)> {
    LAST_PANIC.with(|p| p.borrow_mut().take())
}

/// Shorten a repo path to something stable (`tiny-std/src/..`).
pub fn short_loc(loc: &str) -> String {
    if let Some(i) = loc.find("/repo/") {
        loc[i + 6..].to_string()
    } else if let Some(i) = loc.find("/crates/") {
        loc[i + 1..].to_string()
    } else {
        loc.to_string()
    }
}

#[derive(Clone, Copy, Debug)]
#[repr(u8)]
pub enum P {
    Atomic = 1,
    Sys = 2,
    Data = 3,
    Yield = 4,
    Block = 5,
    Start = 6,
    End = 7,
}

impl Sim {
    pub fn new(dec: Dec, cfg: SimCfg) -> Box<Sim> {
        let record = cfg.record;
        Box::new(Sim {
            dec,
            trace: Trace::new(record),
            threads: Vec::with_capacity(MAXT),
            cur: None,
            next: None,
            mono_ns: 1_000_000_000,
            real_off_ns: 0,
            steps: 0,
            fair_steps: 0,
            strategy: Strategy::Random,
            cfg,
            fair: false,
            faults_on: true,
            violation: None,
            aborting: false,
            counters: BTreeMap::new(),
            switches: 0,
            futexq: Vec::new(),
            loc_clocks: HashMap::new(),
            kernel: None,
            spurious_futex_left: 0,
            eintr_left: 0,
            cas_spurious: 0,
            cas_spurious_left: 0,
            seq: 0,
            rr_last: 0,
            last_run: None,
            addr_ids: Vec::new(),
            idle_retries: 0,
        })
    }

    pub fn set_kernel(&mut self, k: &dyn Kernel) {
        // the kernel object outlives the run (owned by the check's run function)
        self.kernel = Some(unsafe { std::mem::transmute::<&dyn Kernel, *const dyn Kernel>(k) });
    }

    /// Logical id of an address (order of first appearance): keeps logs free of real addresses.
    #[inline]
    pub fn loc_id(&mut self, addr: usize) -> u64 {
        if let Some(i) = self.addr_ids.iter().position(|&a| a == addr) {
            return i as u64;
        }
        self.addr_ids.push(addr);
        (self.addr_ids.len() - 1) as u64
    }

    #[inline]
    pub fn count(&mut self, key: &'static str) {
        *self.counters.entry(key).or_insert(0) += 1;
    }

    #[inline]
    pub fn count_n(&mut self, key: &'static str, n: u64) {
        *self.counters.entry(key).or_insert(0) += n;
    }

    pub fn violate(&mut self, sig: impl Into<String>, detail: impl Into<String>) {
        if self.violation.is_none() {
            let sig = sig.into();
            let detail = detail.into();
            self.trace.ev(|| format!("VIOLATION {sig}: {detail}"));
            self.violation = Some(Violation { sig, detail });
        }
    }

    /// Draw the scheduling strategy for this run (swarm) unless the harness fixed one.
    pub fn draw_strategy(&mut self, nthreads: usize) {
        if let Some(s) = self.cfg.strategy.clone() {
            self.strategy = s;
            return;
        }
        let k = self.dec.choose(K::Cfg, 6);
        self.strategy = match k {
            0 => Strategy::Random,
            1 => Strategy::Sticky(1),
            2 => Strategy::Sticky(4),
            3 | 4 => {
                let d = 1 + self.dec.choose(K::Cfg, 3);
                let mut cps = Vec::new();
                for _ in 0..d {
                    cps.push(self.dec.range(K::Cfg, 1, self.cfg.est_len));
                }
                Strategy::Pct(cps)
            }
            _ => Strategy::Starve {
                victim: self.dec.choose(K::Cfg, nthreads.max(1) as u32) as usize,
                k: self.dec.range(K::Cfg, 10, self.cfg.est_len * 2),
            },
        };
    }

    /// Create a simulated thread.  May be called before `run` or from inside a simulated thread.
    pub fn spawn(&mut self, name: &str, f: Box<dyn FnOnce()>) -> Tid {
        assert!(self.threads.len() < MAXT, "too many simulated threads");
        let tid = self.threads.len();
        let co = Coroutine::with_stack(get_stack(), move |y: &Yielder<(), ()>, ()| {
            if let Some(s) = sim() {
                s.threads[tid].yielder = std::ptr::from_ref(y);
            }
            let r = catch_unwind(AssertUnwindSafe(f));
            if r.is_err() {
                let (msg, loc) = take_last_panic().unwrap_or_default();
                if let Some(s) = sim() {
                    let loc = short_loc(&loc);
                    let head: String = msg.chars().take(60).collect();
                    s.violate(format!("panic|{loc}|{head}"), format!("thread {tid} panicked at {loc}: {msg}"));
                    s.aborting = true;
                }
            }
        });
        let mut vc = [0u32; MAXT];
        if let Some(p) = self.cur {
            vc = self.threads[p].vc;
            self.threads[p].vc[p] += 1;
        }
        vc[tid] = 1;
        let prio = 1 + self.dec.choose(K::Cfg, 1000);
        self.threads.push(Th {
            co: Some(co),
            st: St::Runnable,
            wake: Wake::None,
            yielder: std::ptr::null(),
            vc,
            name: name.to_string(),
            prio,
            what: "",
            joiners: Vec::new(),
            tag: 0,
        });
        self.trace.mix(P::Start as u64, tid as u64);
        self.trace.ev(|| format!("spawn t{tid} '{name}'"));
        tid
    }

    fn runnable_list(&self, out: &mut [Tid; MAXT]) -> usize {
        let mut n = 0;
        if let Some(c) = self.cur {
            if self.threads[c].st == St::Runnable {
                out[n] = c;
                n += 1;
            }
        }
        for (i, t) in self.threads.iter().enumerate() {
            if Some(i) != self.cur && t.st == St::Runnable {
                out[n] = i;
                n += 1;
            }
        }
        n
    }

    /// Decide who runs next; `None` when nobody is runnable.
    fn pick(&mut self) -> Option<Tid> {
        let mut r = [0usize; MAXT];
        let n = self.runnable_list(&mut r);
        if n == 0 {
            return None;
        }
        if n == 1 {
            return Some(r[0]);
        }
        if self.fair {
            // round robin in tid order
            let nt = self.threads.len();
            for d in 1..=nt {
                let c = (self.rr_last + d) % nt;
                if self.threads[c].st == St::Runnable {
                    self.rr_last = c;
                    return Some(c);
                }
            }
        }
        let cur_runnable = self.cur.is_some_and(|c| self.threads[c].st == St::Runnable);
        let steps = self.steps;
        let pickd = match &mut self.strategy {
            Strategy::Random => r[self.dec.choose(K::Sched, n as u32) as usize],
            Strategy::Sticky(p) => {
                let p = *p;
                if cur_runnable {
                    if self.dec.chance(K::Sched, p, 16) {
                        r[1 + self.dec.choose(K::Sched, (n - 1) as u32) as usize]
                    } else {
                        r[0]
                    }
                } else {
                    r[self.dec.choose(K::Sched, n as u32) as usize]
                }
            }
            Strategy::Pct(cps) => {
                if cur_runnable && cps.contains(&steps) {
                    // demote the running thread below everyone
                    let c = r[0];
                    let low = self.threads.iter().map(|t| t.prio).min().unwrap_or(1);
                    self.threads[c].prio = low.saturating_sub(1);
                }
                let mut best = r[0];
                for &t in &r[..n] {
                    let (pb, pt) = (self.threads[best].prio, self.threads[t].prio);
                    if pt > pb || (pt == pb && t < best) {
                        best = t;
                    }
                }
                best
            }
            Strategy::Starve { victim, k } => {
                let (victim, k) = (*victim, *k);
                let v = self.dec.choose(K::Sched, n as u32) as usize;
                if steps < k && r[v] == victim {
                    // take the next candidate instead
                    r[(v + 1) % n]
                } else {
                    r[v]
                }
            }
        };
        Some(pickd)
    }

    fn suspend_current(&mut self) {
        let t = self.cur.expect("suspend outside a simulated thread");
        let y = self.threads[t].yielder;
        debug_assert!(!y.is_null());
        unsafe { (*y).suspend(()) };
    }

    fn step_accounting(&mut self) -> bool {
        self.steps += 1;
        if self.fair {
            self.fair_steps += 1;
            if self.fair_steps > self.cfg.fair_budget {
                self.violate(
                    "liveness|no-progress",
                    format!(
                        "run did not finish within {} steps, then {} more under a fair schedule with faults off",
                        self.cfg.budget, self.cfg.fair_budget
                    ),
                );
                self.aborting = true;
                return false;
            }
        } else if self.steps > self.cfg.budget {
            self.fair = true;
            self.faults_on = false;
            self.count("budget_exhausted_fair_phase");
            self.trace.ev(|| "step budget exhausted: fair schedule, faults off".to_string());
        }
        true
    }

    /// Choose the thread to resume next and take its coroutine; `None` ends the run.
    fn pre_resume(&mut self) -> Option<(Tid, Coroutine<(), (), ()>)> {
        loop {
            if self.aborting {
                return None;
            }
            // expire deadlines that the clock has passed
            let now = self.mono_ns;
            for t in &mut self.threads {
                if let St::Blocked { deadline: Some(d), .. } = t.st {
                    if d <= now {
                        t.st = St::Runnable;
                        t.wake = Wake::Timeout;
                    }
                }
            }
            let t = match self.next.take().filter(|&t| self.threads[t].st == St::Runnable) {
                Some(t) => t,
                None => match self.pick() {
                    Some(t) => t,
                    None => {
                        if self.threads.iter().all(|t| t.st == St::Done) {
                            return None;
                        }
                        // nobody runnable: jump the clock to the earliest deadline
                        let mut best: Option<(u64, Tid)> = None;
                        for (i, t) in self.threads.iter().enumerate() {
                            if let St::Blocked { deadline: Some(d), .. } = t.st {
                                if best.is_none_or(|(bd, _)| d < bd) {
                                    best = Some((d, i));
                                }
                            }
                        }
                        if let Some((d, i)) = best {
                            self.mono_ns = self.mono_ns.max(d);
                            self.threads[i].st = St::Runnable;
                            self.threads[i].wake = Wake::Timeout;
                            self.count("clock_jumps_to_deadline");
                            self.trace.ev(|| format!("clock -> {d} ns (deadline of t{i})"));
                            continue;
                        }
                        // pollers wait on real kernel objects whose state may still be settling
                        // (loopback TCP is delivered in softirq context): give the kernel a moment
                        // and let them look again before calling it a deadlock
                        let pollers = self.threads.iter().any(|t| matches!(t.st, St::Blocked { poller: true, .. }));
                        if pollers && self.idle_retries < self.cfg.idle_retries {
                            self.idle_retries += 1;
                            self.count("probe.idle_repoll_of_parked_pollers");
                            std::thread::sleep(std::time::Duration::from_micros(200));
                            for t in &mut self.threads {
                                if let St::Blocked { poller: true, .. } = t.st {
                                    t.st = St::Runnable;
                                    t.wake = Wake::Recheck;
                                }
                            }
                            continue;
                        }
                        let desc: Vec<String> = self
                            .threads
                            .iter()
                            .enumerate()
                            .filter(|(_, t)| t.st != St::Done)
                            .map(|(i, t)| format!("t{i}:{}", t.what))
                            .collect();
                        let kinds: Vec<&str> = {
                            let mut k: Vec<&str> = self
                                .threads
                                .iter()
                                .filter(|t| t.st != St::Done)
                                .map(|t| t.what)
                                .collect();
                            k.sort_unstable();
                            k.dedup();
                            k
                        };
                        self.violate(
                            format!("deadlock|{}", kinds.join("+")),
                            format!("no runnable thread and no deadline: {}", desc.join(" ")),
                        );
                        return None;
                    }
                },
            };
            if self.last_run != Some(t) {
                self.switches += 1;
            }
            self.last_run = Some(t);
            self.cur = Some(t);
            let co = self.threads[t].co.take().expect("coroutine present");
            return Some((t, co));
        }
    }

    fn post_resume(&mut self, t: Tid, co: Coroutine<(), (), ()>, r: CoroutineResult<(), ()>) {
        match r {
            CoroutineResult::Yield(()) => {
                self.threads[t].co = Some(co);
            }
            CoroutineResult::Return(()) => {
                put_stack(co.into_stack());
                self.threads[t].st = St::Done;
                self.trace.mix(P::End as u64, t as u64);
                self.trace.ev(|| format!("t{t} done"));
                let js = std::mem::take(&mut self.threads[t].joiners);
                for j in js {
                    if let St::Blocked { .. } = self.threads[j].st {
                        self.threads[j].st = St::Runnable;
                        self.threads[j].wake = Wake::Woken;
                    }
                }
            }
        }
        self.cur = None;
    }

    fn finish(&mut self) {
        // abandon whatever is still suspended (only after a violation)
        for t in &mut self.threads {
            if let Some(mut co) = t.co.take() {
                if co.started() && !co.done() {
                    unsafe { co.force_reset() };
                }
                if co.started() {
                    put_stack(co.into_stack());
                }
            }
        }
    }
}

/// Run until every thread is done, a violation aborts the run, or nothing can make progress.
/// All access goes through the raw pointer: simulated threads reach the same object through
/// [`sim`] while they run.
#[allow(static_mut_refs)]
pub fn run(sim: &mut Box<Sim>) {
    let p: *mut Sim = &mut **sim;
    unsafe {
        assert!(CUR.is_null(), "nested simulation");
        CUR = p;
        loop {
            let Some((t, mut co)) = (*p).pre_resume() else { break };
            let r = co.resume(());
            (*p).post_resume(t, co, r);
        }
        (*p).finish();
        CUR = std::ptr::null_mut();
    }
}

/// A scheduling point.  No-op outside a simulated thread.
#[inline]
pub fn sched_point(kind: P, detail: u64) {
    let Some(s) = sim() else { return };
    let Some(cur) = s.cur else { return };
    s.seq += 1;
    s.idle_retries = 0;
    s.trace.mix((cur as u64) << 8 | kind as u64, detail);
    if !s.step_accounting() {
        s.suspend_current();
        unreachable!("aborted run resumed");
    }
    let next = s.pick().expect("current thread is runnable");
    if next != cur {
        s.next = Some(next);
        s.suspend_current();
    }
}

/// Park the current thread until [`wake`], its deadline, or (pollers) another thread's call.
pub fn block(what: &'static str, deadline: Option<u64>, poller: bool) -> Wake {
    let s = sim().expect("block outside simulation");
    let cur = s.cur.expect("block outside a simulated thread");
    s.seq += 1;
    s.threads[cur].st = St::Blocked { deadline, poller };
    s.threads[cur].what = what;
    s.threads[cur].wake = Wake::None;
    s.trace.mix((cur as u64) << 8 | P::Block as u64, crate::dec::hash_str(what));
    s.trace.ev(|| format!("t{cur} blocks in {what}"));
    s.next = s.pick();
    s.suspend_current();
    let s = sim().unwrap();
    s.threads[cur].what = "";
    s.threads[cur].wake
}

pub fn wake(t: Tid, why: Wake) {
    let s = sim().unwrap();
    if let St::Blocked { .. } = s.threads[t].st {
        s.threads[t].st = St::Runnable;
        s.threads[t].wake = why;
    }
}

/// Make every thread parked as a poller runnable again (it re-checks its condition).
pub fn wake_pollers() {
    let Some(s) = sim() else { return };
    for t in &mut s.threads {
        if let St::Blocked { poller: true, .. } = t.st {
            t.st = St::Runnable;
            t.wake = Wake::Recheck;
        }
    }
}

/// Stop the run now (a violation has been recorded).  Does not return.
pub fn abort_run() -> ! {
    let s = sim().expect("abort outside simulation");
    s.aborting = true;
    if s.cur.is_some() {
        s.suspend_current();
    }
    panic!("abort_run outside a simulated thread");
}

/// Record a violation and stop the run.
pub fn fail(sig: impl Into<String>, detail: impl Into<String>) -> ! {
    if let Some(s) = sim() {
        s.violate(sig, detail);
    }
    abort_run()
}

pub fn cur_tid() -> Tid {
    sim().and_then(|s| s.cur).unwrap_or(0)
}

/// Block until thread `t` is done; adds the happens-before edge of a join.
pub fn join(t: Tid) {
    loop {
        let s = sim().unwrap();
        if s.threads[t].st == St::Done {
            let cur = s.cur.unwrap();
            let child = s.threads[t].vc;
            crate::vc::join_into(&mut s.threads[cur].vc, &child);
            return;
        }
        let cur = s.cur.unwrap();
        s.threads[t].joiners.push(cur);
        block("join", None, false);
    }
}

/// Explicit harness yield.
pub fn yield_now() {
    sched_point(P::Yield, 0);
}

unsafe fn syscall_hook(nr: usize, a: [usize; 6], _nargs: usize) -> usize {
    let Some(s) = sim() else {
        return sc::real_syscall(nr, a);
    };
    if s.cur.is_some() {
        sched_point(P::Sys, nr as u64);
    }
    let s = sim().unwrap();
    s.mono_ns += s.cfg.tick_ns;
    let r = match s.kernel {
        Some(k) => (*k).syscall(nr, a),
        None => crate::kern::default_syscall(nr, a),
    };
    // whatever a thread just did (a real call, or simulated time passing) may have made a
    // parked poller's condition true
    wake_pollers();
    r
}

/// Route tiny-std's system calls and seam atomics through the simulator (process-wide, once).
pub fn install_hooks() {
    sc::set_syscall_hook(Some(syscall_hook));
    sc::verif::set_atomic_hooks(Some(&crate::vc::ATOMIC_HOOKS));
}

/// Run `f` with `sim` installed as the active simulator but without simulated threads: system
/// calls made by `f` reach the simulator's kernel, scheduling points are no-ops.
#[allow(static_mut_refs)]
pub fn with_installed<R>(sim: &mut Box<Sim>, f: impl FnOnce() -> R) -> R {
    let p: *mut Sim = &mut **sim;
    unsafe {
        assert!(CUR.is_null(), "nested simulation");
        CUR = p;
    }
    struct Reset;
    impl Drop for Reset {
        fn drop(&mut self) {
            unsafe {
                CUR = std::ptr::null_mut();
            }
        }
    }
    let _r = Reset;
    f()
}
