//! Vector clocks, the atomics-seam hooks and the `Tracked` cell (FastTrack-style race check).
//!
//! Executions are sequentially consistent interleavings; what the clocks add is detection of a
//! *missing happens-before edge* between two conflicting accesses to lock-protected data, which is
//! how a weakened `Acquire`/`Release` shows up.

use crate::dec::K;
use crate::sched::{sched_point, sim, VClock, MAXT, P};
use sc::verif::{Access, AtomicHooks, Op, Ordering};
use std::cell::UnsafeCell;

#[inline]
pub fn join_into(dst: &mut VClock, src: &VClock) {
    for i in 0..MAXT {
        if src[i] > dst[i] {
            dst[i] = src[i];
        }
    }
}

#[inline]
fn acquires(o: Ordering) -> bool {
    matches!(o, Ordering::Acquire | Ordering::AcqRel | Ordering::SeqCst)
}

#[inline]
fn releases(o: Ordering) -> bool {
    matches!(o, Ordering::Release | Ordering::AcqRel | Ordering::SeqCst)
}

fn pre(acc: &Access) -> bool {
    let Some(s) = sim() else { return false };
    if s.cur.is_none() {
        return false;
    }
    let id = s.loc_id(acc.addr);
    sched_point(P::Atomic, id);
    let s = sim().unwrap();
    if acc.op == Op::CasWeak && s.faults_on && s.cas_spurious > 0 && s.cas_spurious_left > 0 {
        let n = s.cas_spurious;
        if s.dec.chance(K::Fault, n, 64) {
            s.cas_spurious_left -= 1;
            s.count("fault.spurious_weak_cas");
            s.trace.ev(|| "fault: weak CAS fails spuriously".to_string());
            return true;
        }
    }
    false
}

fn post(acc: &Access, success: bool, old: u32) {
    let Some(s) = sim() else { return };
    let Some(cur) = s.cur else { return };
    let (reads, writes, ord) = match acc.op {
        Op::Load => (true, false, acc.ord),
        Op::Store => (false, true, acc.ord),
        Op::Rmw => (true, true, acc.ord),
        Op::Cas | Op::CasWeak => {
            if success {
                (true, true, acc.ord)
            } else {
                (true, false, acc.fail_ord)
            }
        }
    };
    s.trace.mix(old as u64, (success as u64) << 4 | acc.op as u64);
    if s.trace.recording() {
        let id = s.loc_id(acc.addr);
        s.trace.ev(|| {
            format!(
                "t{cur} {:?}({:?}) @a{id} read {old}{}",
                acc.op,
                ord,
                if success { "" } else { " (failed)" }
            )
        });
    }
    if reads && acquires(ord) {
        if let Some(lc) = s.loc_clocks.get(&acc.addr) {
            let lc = *lc;
            join_into(&mut s.threads[cur].vc, &lc);
        }
    }
    if writes {
        if releases(ord) {
            let tv = s.threads[cur].vc;
            if acc.op == Op::Store {
                s.loc_clocks.insert(acc.addr, tv);
            } else {
                let e = s.loc_clocks.entry(acc.addr).or_insert([0; MAXT]);
                join_into(e, &tv);
            }
            s.threads[cur].vc[cur] += 1;
        } else if acc.op == Op::Store {
            // a relaxed store ends the release sequence headed by earlier release operations
            s.loc_clocks.remove(&acc.addr);
        }
        // a relaxed RMW continues the release sequence: location clock unchanged
    }
}

pub static ATOMIC_HOOKS: AtomicHooks = AtomicHooks { pre, post };

struct Meta {
    w_tid: usize,
    w_clk: u32,
    reads: VClock,
}

/// A cell whose accesses are scheduling points and are checked for happens-before races.
pub struct Tracked<T> {
    v: UnsafeCell<T>,
    meta: UnsafeCell<Meta>,
    pub label: &'static str,
}

unsafe impl<T: Send> Sync for Tracked<T> {}
unsafe impl<T: Send> Send for Tracked<T> {}

impl<T: Copy> Tracked<T> {
    pub fn new(v: T, label: &'static str) -> Self {
        Tracked {
            v: UnsafeCell::new(v),
            meta: UnsafeCell::new(Meta { w_tid: 0, w_clk: 0, reads: [0; MAXT] }),
            label,
        }
    }

    /// Read without any check (for the harness after the run).
    pub fn peek(&self) -> T {
        unsafe { *self.v.get() }
    }

    pub fn read(&self) -> T {
        sched_point(P::Data, 1);
        if let Some(s) = sim() {
            if let Some(cur) = s.cur {
                let m = unsafe { &mut *self.meta.get() };
                let vc = s.threads[cur].vc;
                if m.w_clk > vc[m.w_tid] {
                    let (wt, label) = (m.w_tid, self.label);
                    crate::sched::fail(
                        format!("race|write-read|{label}"),
                        format!("t{cur} reads '{label}' without happens-before from the write by t{wt}"),
                    );
                }
                m.reads[cur] = vc[cur];
            }
        }
        unsafe { *self.v.get() }
    }

    pub fn write(&self, val: T) {
        sched_point(P::Data, 2);
        if let Some(s) = sim() {
            if let Some(cur) = s.cur {
                let m = unsafe { &mut *self.meta.get() };
                let vc = s.threads[cur].vc;
                let label = self.label;
                if m.w_clk > vc[m.w_tid] {
                    let wt = m.w_tid;
                    crate::sched::fail(
                        format!("race|write-write|{label}"),
                        format!("t{cur} writes '{label}' without happens-before from the write by t{wt}"),
                    );
                }
                for i in 0..MAXT {
                    if m.reads[i] > vc[i] {
                        crate::sched::fail(
                            format!("race|read-write|{label}"),
                            format!("t{cur} writes '{label}' without happens-before from the read by t{i}"),
                        );
                    }
                }
                m.w_tid = cur;
                m.w_clk = vc[cur];
                m.reads = [0; MAXT];
            }
        }
        unsafe { *self.v.get() = val };
    }
}
