// Copyright 2017 The syscall.rs Project Developers. See the
// COPYRIGHT file at the top-level directory of this distribution.
//
// Licensed under the Apache License, Veecxon 2.0 <LICENSE-APACHE or
// http://www.apache.org/licenses/LICENSE-2.0> or the MIT license
// <LICENSE-MIT or http://opensource.org/licenses/MIT>, at your
// option. This file may not be copied, modified, or distributed
// except according to those terms.

//! This library was built for aarch64 Linux.

use core::arch::asm;

pub mod nr;

#[inline(always)]
pub unsafe fn syscall0(n: usize) -> usize {
    let ret: usize;
    asm!(
        "svc 0",
        in("x8") n,
        out("x0") ret,
        options(nostack),
    );
    ret
}

#[inline(always)]
pub unsafe fn syscall1(n: usize, a1: usize) -> usize {
    let ret: usize;
    asm!(
        "svc 0",
        in("x8") n,
        inout("x0") a1 => ret,
        options(nostack),
    );
    ret
}

#[inline(always)]
pub unsafe fn syscall2(n: usize, a1: usize, a2: usize) -> usize {
    let ret: usize;
    asm!(
        "svc 0",
        in("x8") n,
        inout("x0") a1 => ret,
        in("x1") a2,
        options(nostack),
    );
    ret
}

#[inline(always)]
pub unsafe fn syscall3(n: usize, a1: usize, a2: usize, a3: usize) -> usize {
    let ret: usize;
    asm!(
        "svc 0",
        in("x8") n,
        inout("x0") a1 => ret,
        in("x1") a2,
        in("x2") a3,
        options(nostack),
    );
    ret
}

#[inline(always)]
pub unsafe fn syscall4(n: usize,
                       a1: usize,
                       a2: usize,
                       a3: usize,
                       a4: usize)
                       -> usize {
    let ret: usize;
    asm!(
        "svc 0",
        in("x8") n,
        inout("x0") a1 => ret,
        in("x1") a2,
        in("x2") a3,
        in("x3") a4,
        options(nostack),
    );
    ret
}

#[inline(always)]
pub unsafe fn syscall5(n: usize,
                       a1: usize,
                       a2: usize,
                       a3: usize,
                       a4: usize,
                       a5: usize)
                       -> usize {
    let ret: usize;
    asm!(
        "svc 0",
        in("x8") n,
        inout("x0") a1 => ret,
        in("x1") a2,
        in("x2") a3,
        in("x3") a4,
        in("x4") a5,
        options(nostack),
    );
    ret
}

#[inline(always)]
pub unsafe fn syscall6(n: usize,
                       a1: usize,
                       a2: usize,
                       a3: usize,
                       a4: usize,
                       a5: usize,
                       a6: usize)
                       -> usize {
    let ret: usize;
    asm!(
        "svc 0",
        in("x8") n,
        inout("x0") a1 => ret,
        in("x1") a2,
        in("x2") a3,
        in("x3") a4,
        in("x4") a5,
        in("x5") a6,
        options(nostack),
    );
    ret
}
