// Copyright 2014 The syscall.rs Project Developers. See the
// COPYRIGHT file at the top-level directory of this distribution.
//
// Licensed under the Apache License, Version 2.0 <LICENSE-APACHE or
// http://www.apache.org/licenses/LICENSE-2.0> or the MIT license
// <LICENSE-MIT or http://opensource.org/licenses/MIT>, at your
// option. This file may not be copied, modified, or distributed
// except according to those terms.

//! This library was built for x86-64 Linux.

use core::arch::asm;

pub mod nr;

#[inline(always)]
pub unsafe fn syscall0(mut n: usize) -> usize {
    asm!(
        "syscall",
        inout("rax") n,
        out("rcx") _,
        out("r11") _,
        options(nostack),
    );
    n
}

#[inline(always)]
pub unsafe fn syscall1(mut n: usize, a1: usize) -> usize {
    asm!(
        "syscall",
        inout("rax") n,
        in("rdi") a1,
        out("rcx") _,
        out("r11") _,
        options(nostack),
    );
    n
}

#[inline(always)]
pub unsafe fn syscall2(mut n: usize, a1: usize, a2: usize) -> usize {
    asm!(
        "syscall",
        inout("rax") n,
        in("rdi") a1,
        in("rsi") a2,
        out("rcx") _,
        out("r11") _,
        options(nostack),
    );
    n
}

#[inline(always)]
pub unsafe fn syscall3(mut n: usize, a1: usize, a2: usize, a3: usize) -> usize {
    asm!(
        "syscall",
        inout("rax") n,
        in("rdi") a1,
        in("rsi") a2,
        in("rdx") a3,
        out("rcx") _,
        out("r11") _,
        options(nostack),
    );
    n
}

#[inline(always)]
pub unsafe fn syscall4(mut n: usize,
                       a1: usize,
                       a2: usize,
                       a3: usize,
                       a4: usize)
                       -> usize {
    asm!(
        "syscall",
        inout("rax") n,
        in("rdi") a1,
        in("rsi") a2,
        in("rdx") a3,
        in("r10") a4,
        out("rcx") _,
        out("r11") _,
        options(nostack),
    );
    n
}

#[inline(always)]
pub unsafe fn syscall5(mut n: usize,
                       a1: usize,
                       a2: usize,
                       a3: usize,
                       a4: usize,
                       a5: usize)
                       -> usize {
    asm!(
        "syscall",
        inout("rax") n,
        in("rdi") a1,
        in("rsi") a2,
        in("rdx") a3,
        in("r10") a4,
        in("r8") a5,
        out("rcx") _,
        out("r11") _,
        options(nostack),
    );
    n
}

#[inline(always)]
pub unsafe fn syscall6(mut n: usize,
                       a1: usize,
                       a2: usize,
                       a3: usize,
                       a4: usize,
                       a5: usize,
                       a6: usize)
                       -> usize {
    asm!(
        "syscall",
        inout("rax") n,
        in("rdi") a1,
        in("rsi") a2,
        in("rdx") a3,
        in("r10") a4,
        in("r8") a5,
        in("r9") a6,
        out("rcx") _,
        out("r11") _,
        options(nostack),
    );
    n
}
