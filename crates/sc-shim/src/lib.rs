//! Drop-in replacement for `sc 0.2.7` on linux x86_64 / aarch64.
//!
//! The original `syscallN` functions (the real instruction) live unchanged in [`raw`].
//! The `syscallN` functions exported at the crate root — the ones the `syscall!` macro
//! expands to — look at one static: if a hook is installed they call it, otherwise they
//! execute the real instruction.  With no hook installed the behaviour is the original crate's.
//!
//! [`verif`] is the atomics seam used by tiny-std's sync primitives under `--cfg tiny_std_verif`.
#![no_std]
#![allow(clippy::missing_safety_doc)]

pub mod macros;

#[cfg(all(any(target_os = "linux", target_os = "android"), target_arch = "x86_64"))]
#[path = "platform/linux-x86_64/mod.rs"]
pub mod raw;

#[cfg(all(any(target_os = "linux", target_os = "android"), target_arch = "aarch64"))]
#[path = "platform/linux-aarch64/mod.rs"]
pub mod raw;

pub use raw::nr;

pub mod verif;

use core::sync::atomic::{AtomicUsize, Ordering};

/// `(nr, args, number of meaningful args)` -> raw return register.
pub type SyscallHook = unsafe fn(nr: usize, args: [usize; 6], nargs: usize) -> usize;

static SYSCALL_HOOK: AtomicUsize = AtomicUsize::new(0);

/// Install (or with `None` remove) the system-call dispatcher.
pub fn set_syscall_hook(h: Option<SyscallHook>) {
    SYSCALL_HOOK.store(h.map_or(0, |f| f as usize), Ordering::SeqCst);
}

#[inline(always)]
fn hook() -> Option<SyscallHook> {
    let h = SYSCALL_HOOK.load(Ordering::Relaxed);
    if h == 0 {
        None
    } else {
        Some(unsafe { core::mem::transmute::<usize, SyscallHook>(h) })
    }
}

/// Execute the real instruction, whatever hook is installed.
#[inline(always)]
pub unsafe fn real_syscall(nr: usize, a: [usize; 6]) -> usize {
    raw::syscall6(nr, a[0], a[1], a[2], a[3], a[4], a[5])
}

#[inline(always)]
pub unsafe fn syscall0(n: usize) -> usize {
    match hook() {
        None => raw::syscall0(n),
        Some(h) => h(n, [0; 6], 0),
    }
}

#[inline(always)]
pub unsafe fn syscall1(n: usize, a1: usize) -> usize {
    match hook() {
        None => raw::syscall1(n, a1),
        Some(h) => h(n, [a1, 0, 0, 0, 0, 0], 1),
    }
}

#[inline(always)]
pub unsafe fn syscall2(n: usize, a1: usize, a2: usize) -> usize {
    match hook() {
        None => raw::syscall2(n, a1, a2),
        Some(h) => h(n, [a1, a2, 0, 0, 0, 0], 2),
    }
}

#[inline(always)]
pub unsafe fn syscall3(n: usize, a1: usize, a2: usize, a3: usize) -> usize {
    match hook() {
        None => raw::syscall3(n, a1, a2, a3),
        Some(h) => h(n, [a1, a2, a3, 0, 0, 0], 3),
    }
}

#[inline(always)]
pub unsafe fn syscall4(n: usize, a1: usize, a2: usize, a3: usize, a4: usize) -> usize {
    match hook() {
        None => raw::syscall4(n, a1, a2, a3, a4),
        Some(h) => h(n, [a1, a2, a3, a4, 0, 0], 4),
    }
}

#[inline(always)]
pub unsafe fn syscall5(n: usize, a1: usize, a2: usize, a3: usize, a4: usize, a5: usize) -> usize {
    match hook() {
        None => raw::syscall5(n, a1, a2, a3, a4, a5),
        Some(h) => h(n, [a1, a2, a3, a4, a5, 0], 5),
    }
}

#[inline(always)]
pub unsafe fn syscall6(
    n: usize,
    a1: usize,
    a2: usize,
    a3: usize,
    a4: usize,
    a5: usize,
    a6: usize,
) -> usize {
    match hook() {
        None => raw::syscall6(n, a1, a2, a3, a4, a5, a6),
        Some(h) => h(n, [a1, a2, a3, a4, a5, a6], 6),
    }
}
