//! Atomics seam.  Under `--cfg tiny_std_verif` tiny-std's `sync` module imports `AtomicU32` and
//! `Ordering` from here instead of `core::sync::atomic`.
//!
//! [`AtomicU32`] is `repr(transparent)` over the core atomic (its address is the futex word) and
//! re-implements the core method surface.  Every method forwards to the core atomic; when hooks are
//! installed it first calls `pre` (a scheduling point of the simulator, which may also order a
//! spurious failure of a weak CAS) and afterwards `post` (vector-clock bookkeeping, same simulator
//! step as the operation).  Without hooks the methods are plain forwards.
//!
//! `Deref<Target = core AtomicU32>` exists only so that `&shim` coerces to the
//! `&core::sync::atomic::AtomicU32` parameters of `rusl::futex::{futex_wait, futex_wake}`.

pub use core::sync::atomic::Ordering;
use core::sync::atomic::AtomicUsize;

#[derive(Clone, Copy, Debug, PartialEq, Eq)]
pub enum Op {
    Load,
    Store,
    /// unconditional read-modify-write (swap, fetch_add, ...)
    Rmw,
    Cas,
    CasWeak,
}

#[derive(Clone, Copy, Debug)]
pub struct Access {
    pub addr: usize,
    pub op: Op,
    /// ordering of the operation (success ordering for CAS)
    pub ord: Ordering,
    /// failure ordering (CAS only, otherwise == ord)
    pub fail_ord: Ordering,
}

#[derive(Clone, Copy)]
pub struct AtomicHooks {
    /// Called before the operation.  Returning `true` makes a `CasWeak` fail spuriously (the
    /// operation is then executed as a load).
    pub pre: fn(&Access) -> bool,
    /// Called after the operation; `success` is false for a failed CAS; `old` is the value read.
    pub post: fn(&Access, success: bool, old: u32),
}

static HOOKS: AtomicUsize = AtomicUsize::new(0);

/// Install or remove the hooks.  The pointee must outlive its installation.
pub fn set_atomic_hooks(h: Option<&'static AtomicHooks>) {
    HOOKS.store(
        h.map_or(0, |r| core::ptr::from_ref(r) as usize),
        Ordering::SeqCst,
    );
}

#[inline(always)]
fn hooks() -> Option<&'static AtomicHooks> {
    let h = HOOKS.load(Ordering::Relaxed);
    if h == 0 {
        None
    } else {
        Some(unsafe { &*(h as *const AtomicHooks) })
    }
}

#[repr(transparent)]
pub struct AtomicU32(core::sync::atomic::AtomicU32);

impl core::ops::Deref for AtomicU32 {
    type Target = core::sync::atomic::AtomicU32;
    #[inline(always)]
    fn deref(&self) -> &Self::Target {
        &self.0
    }
}

impl core::fmt::Debug for AtomicU32 {
    fn fmt(&self, f: &mut core::fmt::Formatter<'_>) -> core::fmt::Result {
        core::fmt::Debug::fmt(&self.0, f)
    }
}

impl Default for AtomicU32 {
    fn default() -> Self {
        Self::new(0)
    }
}

impl From<u32> for AtomicU32 {
    fn from(v: u32) -> Self {
        Self::new(v)
    }
}

macro_rules! rmw {
    ($name:ident) => {
        #[inline]
        pub fn $name(&self, val: u32, order: Ordering) -> u32 {
            let acc = self.acc(Op::Rmw, order, order);
            let h = hooks();
            if let Some(h) = h {
                (h.pre)(&acc);
            }
            let old = self.0.$name(val, order);
            if let Some(h) = h {
                (h.post)(&acc, true, old);
            }
            old
        }
    };
}

impl AtomicU32 {
    #[inline]
    #[must_use]
    pub const fn new(v: u32) -> Self {
        Self(core::sync::atomic::AtomicU32::new(v))
    }

    #[inline(always)]
    fn acc(&self, op: Op, ord: Ordering, fail_ord: Ordering) -> Access {
        Access {
            addr: core::ptr::from_ref(&self.0) as usize,
            op,
            ord,
            fail_ord,
        }
    }

    #[inline]
    pub fn get_mut(&mut self) -> &mut u32 {
        self.0.get_mut()
    }

    #[inline]
    pub fn into_inner(self) -> u32 {
        self.0.into_inner()
    }

    #[inline]
    pub const fn as_ptr(&self) -> *mut u32 {
        self.0.as_ptr()
    }

    #[inline]
    pub fn load(&self, order: Ordering) -> u32 {
        let acc = self.acc(Op::Load, order, order);
        let h = hooks();
        if let Some(h) = h {
            (h.pre)(&acc);
        }
        let v = self.0.load(order);
        if let Some(h) = h {
            (h.post)(&acc, true, v);
        }
        v
    }

    #[inline]
    pub fn store(&self, val: u32, order: Ordering) {
        let acc = self.acc(Op::Store, order, order);
        let h = hooks();
        if let Some(h) = h {
            (h.pre)(&acc);
        }
        self.0.store(val, order);
        if let Some(h) = h {
            (h.post)(&acc, true, 0);
        }
    }

    rmw!(swap);
    rmw!(fetch_add);
    rmw!(fetch_sub);
    rmw!(fetch_and);
    rmw!(fetch_nand);
    rmw!(fetch_or);
    rmw!(fetch_xor);
    rmw!(fetch_max);
    rmw!(fetch_min);

    #[inline]
    pub fn compare_exchange(
        &self,
        current: u32,
        new: u32,
        success: Ordering,
        failure: Ordering,
    ) -> Result<u32, u32> {
        let acc = self.acc(Op::Cas, success, failure);
        let h = hooks();
        if let Some(h) = h {
            (h.pre)(&acc);
        }
        let r = self.0.compare_exchange(current, new, success, failure);
        if let Some(h) = h {
            match r {
                Ok(o) => (h.post)(&acc, true, o),
                Err(o) => (h.post)(&acc, false, o),
            }
        }
        r
    }

    #[inline]
    pub fn compare_exchange_weak(
        &self,
        current: u32,
        new: u32,
        success: Ordering,
        failure: Ordering,
    ) -> Result<u32, u32> {
        let acc = self.acc(Op::CasWeak, success, failure);
        let h = hooks();
        let mut spurious = false;
        if let Some(h) = h {
            spurious = (h.pre)(&acc);
        }
        let r = if spurious {
            // a weak CAS that fails spuriously still reports the value it read
            Err(self.0.load(failure))
        } else {
            // the real weak CAS may itself fail spuriously on LL/SC machines; in simulation the
            // strong one is used so that the decision stream alone decides (x86 has no difference)
            if h.is_some() {
                self.0.compare_exchange(current, new, success, failure)
            } else {
                self.0.compare_exchange_weak(current, new, success, failure)
            }
        };
        if let Some(h) = h {
            match r {
                Ok(o) => (h.post)(&acc, true, o),
                Err(o) => (h.post)(&acc, false, o),
            }
        }
        r
    }

    /// Same algorithm as `core`: load, then weak-CAS loop.
    #[inline]
    pub fn fetch_update<F>(
        &self,
        set_order: Ordering,
        fetch_order: Ordering,
        mut f: F,
    ) -> Result<u32, u32>
    where
        F: FnMut(u32) -> Option<u32>,
    {
        let mut prev = self.load(fetch_order);
        while let Some(next) = f(prev) {
            match self.compare_exchange_weak(prev, next, set_order, fetch_order) {
                x @ Ok(_) => return x,
                Err(next_prev) => prev = next_prev,
            }
        }
        Err(prev)
    }
}
