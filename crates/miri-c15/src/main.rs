//! C15 under Miri: a sample of scripted readers that LOOK AT the buffer they are handed before
//! filling it.  A helper that exposes uninitialised spare capacity to the reader (e.g. an
//! `initialized` count carried over a reallocation) is undefined behaviour that an ordinary run
//! cannot observe and Miri reports.  Usage: miri-c15 <seed> <scripts>
use tiny_std::io::Read;
use tiny_std::{Errno, Error};

struct Rng(u64);
impl Rng {
    fn next(&mut self) -> u64 {
        self.0 = self.0.wrapping_add(0x9E37_79B9_7F4A_7C15);
        let mut z = self.0;
        z = (z ^ (z >> 30)).wrapping_mul(0xBF58_476D_1CE4_E5B9);
        z = (z ^ (z >> 27)).wrapping_mul(0x94D0_49BB_1331_11EB);
        z ^ (z >> 31)
    }
    fn below(&mut self, n: u64) -> u64 {
        self.next() % n.max(1)
    }
}

struct Peeking<'a> {
    data: &'a [u8],
    pos: usize,
    rng: &'a mut Rng,
    eintr_left: u32,
    checksum: u64,
}

impl Read for Peeking<'_> {
    fn read(&mut self, buf: &mut [u8]) -> tiny_std::Result<usize> {
        // reading what we were handed is legal for a reader: the slice claims to be initialised
        for b in buf.iter() {
            self.checksum = self.checksum.wrapping_mul(31).wrapping_add(u64::from(*b));
        }
        if self.eintr_left > 0 && self.rng.below(4) == 0 {
            self.eintr_left -= 1;
            return Err(Error::Os { msg: "scripted", code: Errno::new(4) });
        }
        let avail = self.data.len() - self.pos;
        if avail == 0 || buf.is_empty() {
            return Ok(0);
        }
        let k = match self.rng.below(4) {
            0 => 1,
            1 => buf.len().min(avail),
            _ => 1 + self.rng.below(buf.len().min(avail) as u64) as usize,
        };
        buf[..k].copy_from_slice(&self.data[self.pos..self.pos + k]);
        self.pos += k;
        Ok(k)
    }
}

fn main() {
    let args: Vec<String> = std::env::args().collect();
    let seed: u64 = args.get(1).and_then(|s| s.parse().ok()).unwrap_or(1);
    let n: u64 = args.get(2).and_then(|s| s.parse().ok()).unwrap_or(64);
    let mut rng = Rng(seed);
    let sizes = [0usize, 1, 31, 32, 33, 63, 64, 65, 100, 200, 500];
    let mut total = 0u64;
    for i in 0..n {
        let len = sizes[rng.below(sizes.len() as u64) as usize] + rng.below(3) as usize;
        let data: Vec<u8> = (0..len).map(|j| (j as u8).wrapping_mul(7).wrapping_add(i as u8)).collect();
        let old = rng.below(40) as usize;
        let cap = match rng.below(4) {
            0 => old + len,
            1 => old,
            2 => old + 1,
            _ => old + rng.below(70) as usize,
        };
        let mut v: Vec<u8> = Vec::with_capacity(cap);
        v.extend((0..old).map(|j| j as u8));
        let eintr = rng.below(4) as u32;
        let mut r = Peeking { data: &data, pos: 0, rng: &mut rng, eintr_left: eintr, checksum: 0 };
        if i % 2 == 0 {
            let got = r.read_to_end(&mut v).expect("read_to_end");
            assert_eq!(got, len);
            assert_eq!(&v[old..], &data[..]);
        } else {
            let mut s = String::from_utf8(v.iter().map(|b| b % 128).collect()).unwrap();
            let before = s.len();
            let ascii: Vec<u8> = data.iter().map(|b| b % 128).collect();
            let mut r2 = Peeking { data: &ascii, pos: 0, rng: r.rng, eintr_left: eintr, checksum: 0 };
            let got = r2.read_to_string(&mut s).expect("read_to_string");
            assert_eq!(got, len);
            assert_eq!(s.len(), before + len);
        }
        total += 1;
    }
    println!("MIRI-C15 ok scripts={total}");
}
