#!/usr/bin/env python3
"""Sensitivity helper: apply one textual edit to /repo, run a check, revert.
usage: mut.py <check id> <file under /repo> <old text> <new text> [extra vcheck args...]
Prints the check's last lines and whether it flagged.  Never leaves /repo modified."""
import subprocess, sys, os
cid, path, old, new = sys.argv[1:5]
extra = sys.argv[5:]
full = os.path.join('/repo', path)
src = open(full).read()
if src.count(old) != 1:
    print(f"MUT-ERROR: pattern occurs {src.count(old)} times"); sys.exit(3)
open(full, 'w').write(src.replace(old, new))
try:
    r = subprocess.run(['/verif/bin/check', cid] + extra, capture_output=True, text=True)
    out = (r.stdout + r.stderr).strip().splitlines()
    print('\n'.join(out[-8:]))
    print(f"MUT-RESULT exit={r.returncode} {'FLAGGED' if r.returncode==1 else ('SILENT' if r.returncode==0 else 'ERROR')}")
finally:
    open(full, 'w').write(src)
    subprocess.run(['git','-C','/repo','checkout','--','replays'], capture_output=True)
