#!/bin/bash
# verify_seeded.sh <ID> <X>: confirm a delivered change in its scratch worktree /tmp/mut/<ID>:
#  1. patch applies and the workspace test suite (baseline command) gives no new failures,
#  2. the demonstration fails with the change and passes without it.
# Writes /tmp/mut/out/<ID>/<X>/verify.log and verify.json.
ID=$1; X=$2; PATCH=${3:-patch.diff}
WT=/tmp/mut/$ID; OUT=/tmp/mut/out/$ID/$X; LOG=$OUT/verify.log
export CARGO_NET_OFFLINE=true CARGO_TARGET_DIR=/tmp/mv-target
: > $LOG
git -C $WT checkout -- . ; git -C $WT clean -fdq
if [ "$PATCH" != "patch.diff" ]; then git -C $WT checkout -q --detach main; fi
run_demo() {
  ( cd $OUT/demo && if [ -x ./run.sh ]; then CARGO_TARGET_DIR=/tmp/mv-demo-target timeout 600 ./run.sh; else CARGO_TARGET_DIR=/tmp/mv-demo-target timeout 600 cargo run --offline --release; fi ) >>$LOG 2>&1
  echo $?
}
echo "=== demo WITHOUT change" >>$LOG
D0=$(run_demo)
if ! git -C $WT apply $OUT/$PATCH 2>>$LOG; then echo '{"applies":false}' > $OUT/verify.json; exit 1; fi
echo "=== demo WITH change" >>$LOG
D1=$(run_demo)
echo "=== test suite WITH change" >>$LOG
( cd $WT && timeout 1500 cargo nextest run --workspace --no-fail-fast --tool-config-file pb:/w/lib/nextest.toml --profile pb --test-threads 8 --offline ) >$OUT/suite.log 2>&1
S=$?
FAILED=$(grep -E "^\s+(FAIL|SIGSEGV|SIGABRT|TIMEOUT|ABORT|SIGKILL)" $OUT/suite.log | awk '{print $NF}' | sort -u | tr '\n' ' ')
SUMMARY=$(grep -E "Summary" $OUT/suite.log | tail -1)
git -C $WT checkout -- . ; git -C $WT clean -fdq
echo "{\"applies\":true,\"demo_exit_without\":$D0,\"demo_exit_with\":$D1,\"suite_exit\":$S,\"suite_failed\":\"$FAILED\",\"suite_summary\":\"$SUMMARY\"}" > $OUT/verify.json
cat $OUT/verify.json
