#!/usr/bin/env python3
"""Run every kept seeded change against the check of its property (quick tier; thorough with
--thorough-on-miss if quick is silent) and write seeded/RESULTS.json.
usage: seeded_all.py [--only ID-prefix] [--prop C04,C05] [--thorough-on-miss]
/repo must be clean; every patch is reverted straight after its run; probes are rebuilt from the
clean tree at the end."""
import json, os, re, subprocess, sys, time
only = None
thorough_on_miss = '--thorough-on-miss' in sys.argv
if '--only' in sys.argv:
    only = sys.argv[sys.argv.index('--only') + 1]
props = sys.argv[sys.argv.index('--prop') + 1].split(',') if '--prop' in sys.argv else None
root = '/verif/seeded'
res = {}
if os.path.exists(root + '/RESULTS.json'):
    res = json.load(open(root + '/RESULTS.json'))
for d in sorted(os.listdir(root)):
    p = f'{root}/{d}/patch.diff'
    if not os.path.exists(p) or (only and not d.startswith(only)):
        continue
    meta = json.load(open(f'{root}/{d}/meta.json'))
    cid = meta.get('check', meta['property'])  # the check that is expected to catch it
    if props and cid not in props:
        continue
    t0 = time.time()
    entry = {'check': cid}
    for tier in ['quick'] + (['thorough'] if thorough_on_miss else []):
        r = subprocess.run(['python3', '/verif/tools/seeded.py', cid, p, '--tier', tier], capture_output=True, text=True)
        out = r.stdout + r.stderr
        m = re.search(r'SEEDED-RESULT \S+ \S+ exit=(\d+) (\w+)', out)
        sigs = sorted(set(re.findall(r'^VIOLATION property=\S+ replay=\S+', out, re.M)))
        entry[tier] = {'result': m.group(2) if m else 'ERROR', 'exit': int(m.group(1)) if m else -1, 'violation_lines': len(sigs)}
        if not m or m.group(2) != 'SILENT':
            if not m or m.group(2) == 'ERROR':
                entry[tier]['tail'] = out.strip().splitlines()[-6:]
            break
    entry['seconds'] = round(time.time() - t0)
    res[d] = entry
    print(d, json.dumps(entry), flush=True)
    json.dump(res, open(root + '/RESULTS.json', 'w'), indent=1, sort_keys=True)
subprocess.run(['/verif/bin/build-probes'], capture_output=True)
st = subprocess.run(['git', '-C', '/repo', 'status', '--porcelain'], capture_output=True, text=True).stdout.strip()
print('repo clean' if not st else 'REPO NOT CLEAN: ' + st)
