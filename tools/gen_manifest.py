#!/usr/bin/env python3
"""Regenerate MANIFEST.json from the table below (single source of truth for the interface)."""
import json, subprocess
CHECKS = {
 "C01": dict(cat="exploration", technique="deterministic simulation: seeded schedule + fault search over the real Mutex on a simulated futex/atomics seam, vector-clock race oracle",
   text="Seeded search over interleavings (2-4 simulated threads, every seam atomic op / futex call / protected-data access a scheduling point; random, sticky, PCT and starvation schedulers; wake-target choice; spurious futex returns and EINTR) of the real Mutex code. Oracles: guard counter, happens-before race detector plus sequential model of the protected data, deadlock/fair-progress detector, try_lock never parks and never fails without a holder. Evidence is sampling, not proof.",
   note="Sequentially consistent interleavings only; futex semantics are the simulator's model; weakened orderings are detected as missing happens-before edges on protected data.", ref="DESIGN.md §3 C01"),
 "C02": dict(cat="exploration", technique="deterministic simulation: seeded schedule + fault search over the real RwLock on a simulated futex/atomics seam, vector-clock race oracle",
   text="Seeded search over interleavings of 2-4 simulated threads running generated read/write/try_read/try_write programs against the real RwLock; every seam atomic op, futex call and protected-data access is a scheduling point; wake hand-off targets, spurious futex returns, EINTR and spurious weak-CAS failures are decisions. Oracles: reader/writer guard counters, happens-before race detector plus sequential model, deadlock/fair-progress detector, try_* never park. Sampling, not proof.",
   note="Sequentially consistent interleavings only; futex semantics are the simulator's model; a try_* returning None is never judged.", ref="DESIGN.md §3 C02"),
 "C09": dict(cat="fault_enumeration", technique="deterministic simulation: forced-return kernel at the sc seam, complete enumeration of return-register values per wrapper",
   text="Every exported rusl wrapper is called on a simulated kernel that never enters the real one: the return register is scripted with every errno 1..=4095 and every success-value class (0..=200 incl. 16, boundaries -4096/-4097, large unsigned), dup2/dup3 additionally with EBUSY-prefix scripts; oracle: Err iff value in [-4095,-1] with the positive errno, else Ok with the value unchanged, exactly one kernel entry. Exhaustive over the stated finite space.",
   note="exit, execve success, infallible getters and composites are excluded (listed in evidence); forced successes rely on out-parameter fixtures.", ref="DESIGN.md §3 C09"),
 "C15": dict(cat="exploration", technique="deterministic simulation: scripted reader/writer (short transfers, EINTR, EOF, terminal errors) behind the io::Read/io::Write seam, reference-model oracle",
   text="Seeded scripts drive read_to_end/read_to_string/read_exact/write_all/write_fmt through a reader/writer whose every call is answered by the decision stream (k bytes, EOF/0, EINTR, terminal errno), with sizes and capacities around the 32-byte thresholds and UTF-8 cut at every boundary; results are compared with a trivial reference (concatenation). Sampling, not proof.",
   note="After an error the buffer must be old ++ prefix(delivered); uninitialised-memory exposure is not observable in a normal run.", ref="DESIGN.md §3 C15"),
 "C03": dict(cat="exploration", technique="deterministic simulation: seeded allocation histories on a simulated address space (placement by decision) with mmap/mremap/munmap fault injection, shadow-map oracle",
   text="Seeded histories of malloc/calloc/realloc/free over all size classes and alignments drive the real Dlmalloc over a simulated address space whose every mapping is placed by decision (above/below an existing mapping or isolated) and whose mmap/mremap/munmap can be refused at decided positions. Oracle: shadow map (alignment, inside granted memory, disjointness, byte patterns, calloc zero, realloc prefix), unmap-of-live-block detection at the seam, null only on refusal, heap usable after faults stop; debug build in half of the workers (allocator self-checks), PROT_NONE arena turns stray accesses into crashes. 1/8 of the cases run 2-3 simulated threads through Mutex<Dlmalloc>. Sampling, not proof.",
   note="Blocks over 64 KiB are pattern-checked at head/tail/one byte per page; the provider models anonymous private mappings only.", ref="DESIGN.md §3 C03"),
 "C04": dict(cat="exploration", technique="deterministic simulation: repeated allocate-then-free-everything rounds on the simulated address space with exact mapped-byte accounting, growth oracle",
   text="A seeded workload round is repeated 200 (thorough: up to 5000) times on one Dlmalloc over the memory provider (placement by decision, sparse refusals); the provider's exact mapped-byte total is tracked per call. Violation only if window maxima keep strictly increasing, by at least 256 KiB, and the end footprint exceeds 3x peak live + 8 MiB: decides unbounded growth, not a tight bound. Single-threaded and 2-3 simulated threads through Mutex<Dlmalloc>.",
   note="The private GlobalDlMalloc wrapper is not linked into the harness (its composition Mutex<Dlmalloc> is); a defect confined to that wrapper is out of reach of this check.", ref="DESIGN.md §3 C04"),
 "C12": dict(cat="fault_enumeration", technique="deterministic simulation: single-fault enumeration at the sc seam over the system-call trace of each fd-creating operation (parent and forked child), descriptor-table model as oracle",
   text="Each of ~42 public descriptor-creating scenarios runs on the real kernel behind a pass-through kernel seam; pass 1 records its system-call trace, then every call index (parent side and the forked child's side for spawn) is failed - not executed - with every plausible errno; a seeded multi-fault part adds random combinations. Oracle: the process's real descriptor set after dropping the results equals the set before, and the model flags a close of a descriptor the operation neither opened nor was given, and a second close. Complete over (scenario, call index, errno table); the seeded part is sampling.",
   note="The errno table per call is a chosen subset; scenario set-up calls are part of the enumerated trace; a failed close still releases the descriptor.", ref="DESIGN.md §3 C12"),
 "C13": dict(cat="fault_enumeration", technique="deterministic simulation: single-fault enumeration on both sides of a real fork/exec at the sc seam, process-tree and exec-target dump as oracle",
   text="12 base commands plus seeded generated commands are spawned for real; every system call of spawn on the parent side and of the child between fork and exec is failed with every plausible errno (the plan crosses fork in the copied address space, child-side events come back through a shared page). Oracle: code right after spawn() detects execution in a second process; Ok => the exec target's dump (argv, raw env block, cwd, pgid, uid/gid, identity of fds 0-2) equals the configuration and wait yields its exit status; failing step => Err with that errno and no child left alive.",
   note="Built without the start feature (Environment::Inherit not exercised); close faults, EINTR on the sync-pipe read and child write/exit faults after a failed exec are treated as transparent/unjudged.", ref="DESIGN.md §3 C13"),
 "C14": dict(cat="exploration", technique="deterministic simulation: seeded operation histories on a real file system behind the sc seam with short-transfer/EINTR/getdents-window/hard-error injection, model tree + std::fs observer",
   text="Seeded histories of tiny_std::fs operations run in a fresh directory on the real kernel file system; paths cover relative/absolute/dot, repeated and trailing separators, names up to 255 bytes, non-UTF-8, depths past the 512-byte stack buffer up to ~4000 bytes, trees with files, directories, symlinks to outside/dangling and fifos. Half of the cases inject short read/write/copy_file_range, EINTR, a reduced getdents window and one hard EIO/ENOSPC at the sc seam. When an operation returns Ok, the tree observed through std::fs must equal the model after that operation, returned data must equal the model's, a sentinel tree outside must be unchanged and iteration must yield every entry exactly once; Ok after a hard error is a violation. Sampling, not proof.",
   note="No post-condition is demanded after Err; operations are only pointed at link-free paths (following a link legitimately acts outside the tree); rename/exists/metadata are not judged beyond simple agreement.", ref="DESIGN.md §3 C14"),
 "C19": dict(cat="exploration", technique="deterministic simulation: simulated clocks and nanosleep with EINTR/errno injection (sleep and monotonic clauses); seeded boundary-biased sampling against exact i128 arithmetic for the pure arithmetic clause",
   text="Sleep/clock clause: thread::sleep(d) runs on a simulated 128-bit nanosecond clock whose nanosleep is interrupted 0-20 times by decision (remainder written back), may fail once with another errno, and never completes when its end is beyond what the clock can show; Ok must not come before the clock advanced by d, other errnos must surface, unrepresentable durations must be errors, readings never decrease. Arithmetic clause (a pure function - simulation adds nothing to it beyond supplying values): Instants read from a clock set to boundary-biased values and boundary-biased Durations are added, subtracted, differenced and compared, checked against exact i128 arithmetic incl. round trips; SystemTime values down to i64::MIN seconds must not panic. Half of the workers run with overflow checks on. Sampling, not proof.",
   note="Built without the vdso feature (every clock reading passes the sc seam); the arithmetic clause gets seeded input sampling only.", ref="DESIGN.md §3 C19"),
 "C17": dict(cat="exploration", technique="deterministic simulation: the real ring code over ring memory owned by a simulated kernel actor (ring stub), seeded interleaving of application calls and kernel steps, ownership-map oracle",
   text="The unmodified setup_io_uring builds an IoUring over memory owned by a ring stub that plays the kernel (io_uring_setup, the three mmaps, consumption, posting). Seeded runs interleave application calls (get slot+stamp, flush, reap, re-read a returned completion) with kernel steps (consume k, post k incl. unsolicited completions) at call granularity, for SQ sizes 1-8, CQ 2-32, both mmap layouts, SQE128/CQE32, and head/tail counters starting at 0, mid-range and u32::MAX-k so that indices wrap. Oracle: per-slot ownership, exactly-once in-order consumption and reaping with the posted content, eventual return of posted completions, no panic (half of the workers with overflow checks on). Sampling, not proof.",
   note="Uses hook IoUring::verif_set_sq_position (cfg(tiny_std_verif)) to start the private SQ position at the preset counter; the kernel actor follows the documented ring protocol.", ref="DESIGN.md §3 C17"),
 "C18": dict(cat="exploration", technique="deterministic simulation at the system-call seam around the real kernel ring: seeded operation batches with direct-call twins, setup/teardown mapping and descriptor ledger with setup-fault injection (ring stub for the single-mmap layout)",
   text="Even cases drive one real io_uring (1-64 entries) with seeded batches of mutually independent entries (mkdirat, openat, writev, readv, statx, renameat, unlinkat, close, timeout, socket, incl. failing ones); completions are matched by user_data, each result is compared with the equivalent direct system call executed in a twin directory and the directories are compared; exactly one completion per submission. Odd cases run setup+drop under a mapping/descriptor ledger at the seam, on the real kernel and on the ring stub (single-mmap and two-mapping layouts), with io_uring_setup or any of the mmaps failing by decision: every ring mapping unmapped exactly once, nothing else unmapped, descriptor closed once, nothing left after a failed setup. Sampling, not proof.",
   note="Weaker control than the other checks: the kernel's completion order and worker threads are not decided by the simulator (normalised by user_data, independent entries only); fixed buffers, connect/accept, send/recvmsg, poll and linked chains are not generated.", ref="DESIGN.md §3 C18"),
 "C16": dict(cat="exploration", technique="deterministic simulation: server and client as simulated threads on real kernel sockets with simulator-managed ppoll blocking and simulated clock, short-transfer/EINTR injection, position-dependent byte-stream oracle",
   text="Server and client run as simulated threads (coroutines, seeded scheduler) on real unix and loopback-TCP sockets; the only blocking call of tiny-std's socket code, ppoll, is served by the simulator (zero-timeout real poll, park, re-poll when the peer acts, timeouts on the simulated clock, EINTR after part of the wait). Generated payloads (0..500 KB, thorough 4 MB) with small socket buffers so that buffers fill, generated write chunk / read buffer sequences, either side writing or closing first; timeouts 1 us..10 s with a peer acting before/after/never; try_* calls must not enter ppoll; SCM_RIGHTS with 0-16 descriptors and control buffers smaller/equal/larger than needed, flush against a PROT_NONE page in a forked receiver. Oracles: first wrong byte, totals, deadlock detector, Timeout only after the simulated limit, exact descriptor identity. Sampling, not proof.",
   note="Kernel sockets are real: unix-socket runs replay exactly; loopback TCP is delivered asynchronously (softirq, Nagle/delayed-ACK timers), so TCP runs are identified by scenario and outcome only and a state with parked pollers is called a deadlock only after 400 ms of real patience; TCP receive buffers are kept >=128 KB (zero-window probing runs on real kernel timers).", ref="DESIGN.md §3 C16"),
 "C05": dict(cat="exploration", engine="ptsim", technique="deterministic simulation of the real no-libc threaded binary under a ptrace scheduler (one runnable thread at a time, futex/clear-tid/sleep emulated, single-step preemption, clone/mmap fault injection)",
   text="A real no-libc probe (tiny-std executable+threaded, its own checking allocator) runs under a ptrace tracer that keeps exactly one thread running, takes every scheduling, futex-wake and fault decision from the decision stream, emulates futex wait/wake, the clear-tid wake-up and sleeps, preempts with single-step bursts inside the thread epilogue and the join/drop windows, and can fail the stack mmap and clone. Scenarios: 1-6 threads per batch, result types of 7 size/alignment classes, returning or panicking closures, handles joined now/later or dropped now/later. Oracles: exactly one START per successful spawn, join returns Some(tagged value)/None correctly and never before the closure's last record or the thread's exit, failed thread creation is reported as Err, no state with all threads parked, no crash. Sampling, not proof.",
   note="x86_64 only; spurious futex wake-ups are not injected (outside C05's quantifier, reported as NOTE only); the futex and sleep models are the tracer's; a run in which the wall-clock watchdog fired is discarded, never judged.", ref="DESIGN.md §2.3, §3 C05; crates/ptsim/NOTES.md"),
 "C06": dict(cat="exploration", engine="ptsim", technique="deterministic simulation of the real no-libc threaded binary under a ptrace scheduler, with stack-mapping ledger in the tracer and heap ledger/poisoned quarantine in the probe's allocator",
   text="Same engine and scenarios as C05 (no fault injection, more batches, long histories of hundreds of threads per process). Oracles: every thread's stack mapping is unmapped exactly once, completely, by the thread running on it as its last call before exit, and no stack stays mapped at a batch end (tracer ledger cross-checked with /proc/pid/maps); the probe allocator's live-allocation ledger is back at the baseline at every batch end except one closure box per panicked thread, no double or foreign free; freed join state is poisoned and quarantined so that a late write (the kernel's clear-tid 0 or either party) is detected; no crash under churn (debug build with allocator self-checks in a quarter of the runs). Sampling, not proof.",
   note="x86_64 only; the probe's allocator (counting/poisoning wrapper over Mutex<Dlmalloc>) is part of the trusted base.", ref="DESIGN.md §2.3, §3 C06; crates/ptsim/NOTES.md"),
}
NA = {
 "C07": "pure function of the initial process image (argv/env/aux on the start-up stack): no schedule, clock, fault or second party to simulate",
 "C08": "memcpy/memmove/memset/memcmp/bcmp are pure functions of (pointers, length, bytes): nothing for a simulator to schedule or fault",
 "C10": "UnixStr/UnixString constructors are pure functions of byte strings: no nondeterminism behind a seam",
 "C11": "UnixStr search/path operations are pure functions of byte-string pairs",
 "C20": "derived argument parsers are pure functions of the argument list",
}
PENDING = {}
def main():
    props=[json.loads(l) for l in open('/verif/properties.jsonl')]
    hooks_commits = subprocess.run(['git','-C','/repo','log','--format=%H','--grep=^verif hook'],capture_output=True,text=True).stdout.split()
    checks=[]
    for p in props:
        i=p['id']
        if i in CHECKS:
            c=CHECKS[i]
            checks.append({
              "property_id": i,
              "quick_cmd": f"bin/check {i} --tier quick",
              "thorough_cmd": f"bin/check {i} --tier thorough",
              "evidence_file": f"evidence/{i}.json",
              "replay_cmd_template": f"bin/check {i} --replay {{path}}",
              "engine": c.get("engine","simk"),
              "level_claimed": {"category": c["cat"], "text": c["text"], "design_ref": c["ref"]},
              "level_note": c["note"],
              "technique": c["technique"],
            })
    na=[]
    for p in props:
        i=p['id']
        if i in CHECKS: continue
        if i in NA: na.append({"property_id": i, "reason": NA[i]})
        else: na.append({"property_id": i, "reason": PENDING.get(i, "not claimed yet: the simulation check for this property is still being built (see DESIGN.md §3); no claim is made until it runs clean and is sensitivity-tested")})
    m={
     "version":1,
     "setup_cmd":"bin/setup",
     "hooks":{"guard":"cfg(tiny_std_verif)","enable":"RUSTFLAGS='--cfg tiny_std_verif' via /verif/.cargo/config.toml (applies to every build started in /verif); the sc crate is replaced by /verif/crates/sc-shim with [patch.crates-io]",
              "baseline_off_cmd":"cd /repo && cargo test --workspace --no-fail-fast --offline",
              "source_commits":hooks_commits,"add_only":True},
     "engines":[
       {"name":"ptsim","path":"crates/ptsim","serves_properties":["C05","C06"],"kind_free_text":"ptrace-based deterministic simulator for real no-libc multi-threaded binaries: one runnable thread at a time, futex/clear-tid/sleep emulated in the tracer, single-step preemption, syscall fault injection, decisions from the same decision stream (replay = decision list)"},
       {"name":"simk","path":"crates/simk","serves_properties":sorted(k for k in CHECKS.keys() if k not in ("C05","C06")),"kind_free_text":"in-process deterministic simulator: sc syscall shim + atomics seam, coroutine scheduler, futex/clock/memory/descriptor models, fault injector, one decision stream per run (replay = decision list)"},
     ],
     "checks":checks,
     "not_applicable":na,
     "notes":"All checks are deterministic simulation with fault injection (see DESIGN.md). VERIF_SEED seeds every batch (default 1). Exit 2 = harness error.",
    }
    json.dump(m,open('/verif/MANIFEST.json','w'),indent=1)
    print("checks:",[c['property_id'] for c in checks])
main()
