#!/usr/bin/env python3
"""keep_seeded.py <ID> <X> <detected: yes|no|partly> <needs...>: copy a confirmed seeded change into /verif/seeded/<ID>-<X>/"""
import sys, os, shutil, json, subprocess
ID, X, detected = sys.argv[1:4]
needs = ' '.join(sys.argv[4:])
src = f'/tmp/mut/out/{ID}/{X}'
dst = f'/verif/seeded/{ID}-{X}'
if os.path.exists(dst): shutil.rmtree(dst)
os.makedirs(dst)
shutil.copy(f'{src}/patch.diff', dst)
shutil.copytree(f'{src}/demo', f'{dst}/demo', ignore=shutil.ignore_patterns('target','*.log'))
if os.path.exists(f'{src}/notes.md'): shutil.copy(f'{src}/notes.md', dst)
ver = json.load(open(f'{src}/verify.json')) if os.path.exists(f'{src}/verify.json') else {}
if os.path.exists(f'{src}/verify.log'):
    lines = open(f'{src}/verify.log', errors='replace').read().splitlines()
    open(f'{dst}/verify.log','w').write('\n'.join(lines[:400]))
PROP = __import__("re").sub(r"^r\d-", "", ID)
meta = {
  "property": __import__("re").sub(r"^r\d-", "", ID), "change": f"{ID}-{X}",
  "needs_to_manifest": needs,
  "confirmed": {
     "patch_applies_and_compiles": ver.get("applies"),
     "existing_suite_with_change": ver.get("suite_summary","").strip(),
     "suite_failures_with_change (known-flaky tests under load)": ver.get("suite_failed","").strip(),
     "demo_exit_without_change": ver.get("demo_exit_without"),
     "demo_exit_with_change": ver.get("demo_exit_with"),
     "how": "tools/verify_seeded.sh in the scratch worktree /tmp/mut/%s (baseline nextest command, then the demo both ways); see verify.log" % ID,
  },
  "detected_by_check": detected,
  "ran": [f"tools/seeded.py {PROP} /verif/seeded/{ID}-{X}/patch.diff   # git -C /repo apply; bin/check {PROP}; git -C /repo checkout -- ."],
}
json.dump(meta, open(f'{dst}/meta.json','w'), indent=1)
print("kept", dst)
