#!/usr/bin/env python3
"""Run a check against a seeded change: apply patch to /repo, run, always revert.
usage: seeded.py <check id> <patch.diff> [vcheck args]"""
import subprocess, sys
cid, patch = sys.argv[1:3]
extra = sys.argv[3:]
st = subprocess.run(['git','-C','/repo','status','--porcelain'],capture_output=True,text=True).stdout.strip()
if st:
    print("SEEDED-ERROR: /repo not clean:", st); sys.exit(3)
r = subprocess.run(['git','-C','/repo','apply',patch],capture_output=True,text=True)
if r.returncode != 0:
    print("SEEDED-ERROR: patch does not apply:", r.stderr); sys.exit(3)
import os, shutil
ev = f'/verif/evidence/{cid}.json'
bak = ev + '.clean-tree.bak'
if os.path.exists(ev):
    shutil.copy(ev, bak)  # the run below is on a changed tree: its evidence file must not survive
try:
    r = subprocess.run(['/verif/bin/check', cid] + extra, capture_output=True, text=True)
    out = (r.stdout + r.stderr).strip().splitlines()
    print('\n'.join(out[-10:]))
    print(f"SEEDED-RESULT {cid} {patch} exit={r.returncode} {'FLAGGED' if r.returncode==1 else ('SILENT' if r.returncode==0 else 'ERROR')}")
finally:
    if os.path.exists(bak):
        shutil.move(bak, ev)
    subprocess.run(['git','-C','/repo','checkout','--','.'])
    subprocess.run(['git','-C','/repo','clean','-fdq'])
    # binaries built from the mutated tree must not survive it
    subprocess.run(['/verif/bin/check', cid, '--build-only'], capture_output=True)
