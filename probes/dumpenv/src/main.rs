//! exec target of the C13 check: reports what this process was started with on descriptor 200
//! (inherited from the harness), then exits with the code given by the argument `exit=N` (default 42).
use std::io::Write;
use std::os::unix::ffi::OsStrExt;

fn hex(b: &[u8]) -> String {
    b.iter().map(|x| format!("{x:02x}")).collect()
}

fn main() {
    let mut out = String::new();
    let mut code = 42;
    for a in std::env::args_os() {
        out.push_str(&format!("arg {}\n", hex(a.as_bytes())));
        if let Some(s) = a.to_str() {
            if let Some(n) = s.strip_prefix("exit=") {
                code = n.parse().unwrap_or(42);
            }
        }
    }
    // the raw environment block, in order (std's vars_os would de-duplicate)
    extern "C" {
        static environ: *const *const libc::c_char;
    }
    unsafe {
        let mut p = environ;
        while !p.is_null() && !(*p).is_null() {
            let s = std::ffi::CStr::from_ptr(*p);
            out.push_str(&format!("env {}\n", hex(s.to_bytes())));
            p = p.add(1);
        }
    }
    if let Ok(c) = std::env::current_dir() {
        out.push_str(&format!("cwd {}\n", hex(c.as_os_str().as_bytes())));
    }
    unsafe {
        out.push_str(&format!("pid {}\n", libc::getpid()));
        out.push_str(&format!("pgid {}\n", libc::getpgid(0)));
        out.push_str(&format!("uid {}\n", libc::getuid()));
        out.push_str(&format!("gid {}\n", libc::getgid()));
        let (mut r, mut e, mut sv) = (0, 0, 0);
        if libc::getresuid(&mut r, &mut e, &mut sv) == 0 {
            out.push_str(&format!("euid {e}\nsuid {sv}\n"));
        }
    }
    for fd in 0..3 {
        let mut st: libc::stat = unsafe { std::mem::zeroed() };
        let r = unsafe { libc::fstat(fd, &mut st) };
        if r == 0 {
            let fl = unsafe { libc::fcntl(fd, libc::F_GETFL) };
            out.push_str(&format!("fd{fd} dev={} ino={} acc={}\n", st.st_dev, st.st_ino, fl & 3));
        } else {
            out.push_str(&format!("fd{fd} closed\n"));
        }
    }
    out.push_str("end\n");
    let mut f = unsafe { <std::fs::File as std::os::fd::FromRawFd>::from_raw_fd(200) };
    let _ = f.write_all(out.as_bytes());
    std::mem::forget(f);
    std::process::exit(code);
}
