//! probes/spawnprobe — no-libc probe for the `start` build of C13.
//! tiny-std is built with its `start`/`executable` features here, so `Environment::Inherit`
//! (the default environment of a Command) exists and reads the environment tiny-std's own
//! `_start` saved.  The probe spawns the exec target given in argv[1] with the default (inherited)
//! environment and reports on descriptor 201; one of its own system calls (parent side or, after
//! fork, child side) can be failed from argv through the sc shim's dispatcher.
//!
//! argv: <exec target> <side: 0 none, 1 parent, 2 child> <call index> <errno> <stdio: 0 inherit, 1 null> <n provided env entries> [n entries KEY=VAL] [args for the target...]
//! With n = 0 the command keeps its default environment (inherit); with n > 0 the entries are set with Command::env (provided environment).
#![no_std]
#![no_main]

extern crate alloc;

use alloc::format;
use alloc::string::String;
use alloc::vec::Vec;
use core::sync::atomic::{AtomicU32, Ordering};
use rusl::platform::Fd;
use tiny_std::process::{Command, Stdio};

#[no_mangle]
pub unsafe extern "C" fn strlen(s: *const u8) -> usize {
    let mut n = 0;
    while s.add(n).read_volatile() != 0 {
        n += 1;
    }
    n
}

static PLAN_SIDE: AtomicU32 = AtomicU32::new(0);
static PLAN_INDEX: AtomicU32 = AtomicU32::new(0);
static PLAN_ERRNO: AtomicU32 = AtomicU32::new(0);
static PARENT_CALLS: AtomicU32 = AtomicU32::new(0);
static IN_CHILD: AtomicU32 = AtomicU32::new(0);
static ARMED: AtomicU32 = AtomicU32::new(0);
/// shared with the forked child: [child_calls, child_fault_fired, parent_fault_fired]
static mut SHARED: *mut u32 = core::ptr::null_mut();

unsafe fn hook(nr: usize, a: [usize; 6], _n: usize) -> usize {
    if ARMED.load(Ordering::Relaxed) == 0 {
        return sc::real_syscall(nr, a);
    }
    let sh = SHARED;
    if IN_CHILD.load(Ordering::Relaxed) != 0 {
        let idx = *sh;
        *sh = idx + 1;
        if PLAN_SIDE.load(Ordering::Relaxed) == 2 && PLAN_INDEX.load(Ordering::Relaxed) == idx && nr != sc::nr::EXIT {
            *sh.add(1) = nr as u32 + 1;
            return (0usize).wrapping_sub(PLAN_ERRNO.load(Ordering::Relaxed) as usize);
        }
        return sc::real_syscall(nr, a);
    }
    let idx = PARENT_CALLS.fetch_add(1, Ordering::Relaxed);
    if PLAN_SIDE.load(Ordering::Relaxed) == 1 && PLAN_INDEX.load(Ordering::Relaxed) == idx {
        *sh.add(2) = nr as u32 + 1;
        if nr == sc::nr::CLOSE {
            let _ = sc::real_syscall(nr, a);
        }
        return (0usize).wrapping_sub(PLAN_ERRNO.load(Ordering::Relaxed) as usize);
    }
    let r = sc::real_syscall(nr, a);
    if nr == sc::nr::FORK && r == 0 {
        IN_CHILD.store(1, Ordering::Relaxed);
    }
    r
}

fn report(s: &str) {
    let _ = rusl::unistd::write(Fd::comptime_checked_new(201), s.as_bytes());
}

fn strip(u: &tiny_std::UnixStr) -> &[u8] {
    let s = u.as_slice();
    if s.last() == Some(&0) {
        &s[..s.len() - 1]
    } else {
        s
    }
}

fn num(b: &[u8]) -> u32 {
    let mut v = 0u32;
    for c in b {
        if *c >= b'0' && *c <= b'9' {
            v = v * 10 + u32::from(c - b'0');
        }
    }
    v
}

#[no_mangle]
pub fn main() -> i32 {
    let args: Vec<&'static tiny_std::UnixStr> = tiny_std::env::args_os().collect();
    if args.len() < 7 {
        report("bad-args\n");
        return 3;
    }
    PLAN_SIDE.store(num(strip(args[2])), Ordering::Relaxed);
    PLAN_INDEX.store(num(strip(args[3])), Ordering::Relaxed);
    PLAN_ERRNO.store(num(strip(args[4])), Ordering::Relaxed);
    let stdio_null = num(strip(args[5])) == 1;
    unsafe {
        // one page shared with the child for its call counter
        let p = sc::real_syscall(sc::nr::MMAP, [0, 4096, 3, 0x01 | 0x20, usize::MAX, 0]);
        SHARED = p as *mut u32;
    }
    sc::set_syscall_hook(Some(hook));
    let my_pid = rusl::process::get_pid();
    let mut cmd = match Command::new(args[1]) {
        Ok(c) => c,
        Err(_) => {
            report("bad-command\n");
            return 3;
        }
    };
    let nenv = num(strip(args[6])) as usize;
    if args.len() < 7 + nenv {
        report("bad-args\n");
        return 3;
    }
    for e in &args[7..7 + nenv] {
        match tiny_std::UnixString::try_from_bytes(strip(e)) {
            Ok(u) => {
                cmd.env(u);
            }
            Err(_) => {
                report("bad-env\n");
                return 3;
            }
        }
    }
    for a in &args[7 + nenv..] {
        cmd.arg(a);
    }
    if stdio_null {
        cmd.stdin(Stdio::Null).stdout(Stdio::Null).stderr(Stdio::Null);
    }
    ARMED.store(1, Ordering::Relaxed);
    let r = cmd.spawn();
    ARMED.store(0, Ordering::Relaxed);
    // code placed right after spawn(): are we still the caller?
    let pid_now = unsafe { sc::real_syscall(sc::nr::GETPID, [0; 6]) } as i32;
    if pid_now != my_pid {
        report("returned-in-child\n");
        rusl::process::exit(78);
    }
    let mut out = String::new();
    match r {
        Ok(mut child) => {
            out.push_str(&format!("spawn ok pid={}\n", child.get_pid()));
            match child.wait() {
                Ok(st) => out.push_str(&format!("wait status={st}\n")),
                Err(_) => out.push_str("wait err\n"),
            }
        }
        Err(e) => {
            let code = match e {
                tiny_std::Error::Os { code, .. } => code.raw(),
                _ => -1,
            };
            out.push_str(&format!("spawn err code={code}\n"));
        }
    }
    unsafe {
        out.push_str(&format!(
            "calls parent={} child={} child_fired_nr={} parent_fired_nr={}\n",
            PARENT_CALLS.load(Ordering::Relaxed),
            *SHARED,
            *SHARED.add(1),
            *SHARED.add(2)
        ));
    }
    out.push_str("end\n");
    report(&out);
    0
}
