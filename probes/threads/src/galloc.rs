//! Counting / poisoning global allocator around the repository's Dlmalloc.
//!
//! * side table of live blocks: a free of a pointer that is not live is counted (double free when
//!   the block sits in the quarantine, foreign free otherwise) and NOT forwarded;
//! * a freed block is filled with POISON and parked in a bounded quarantine instead of going back
//!   to dlmalloc at once; the poison is verified when the block is evicted and on request;
//! * live allocations are counted per layout, relative to a baseline snapshot.
//! All state is static; the wrapper itself never allocates.

use core::alloc::{GlobalAlloc, Layout};
use tiny_std::allocator::dlmalloc::Dlmalloc;
use tiny_std::sync::Mutex;

pub const POISON: u8 = 0xDF;
const LIVE_CAP: usize = 4096;
const QUAR_CAP: usize = 48;
const LAYOUT_CAP: usize = 96;

const EMPTY: usize = 0;
const TOMB: usize = 1;

#[derive(Clone, Copy)]
struct Live {
    ptr: usize,
    size: usize,
    align: usize,
}

#[derive(Clone, Copy)]
struct LayoutEnt {
    size: usize,
    align: usize,
    count: i64,
    base: i64,
}

#[derive(Clone, Copy, Default)]
pub struct Ledger {
    pub live_count: u64,
    pub live_bytes: u64,
    pub double_free: u64,
    pub foreign_free: u64,
    pub layout_mismatch: u64,
    pub poison_broken: u64,
    pub broken_size: u64,
    pub broken_align: u64,
    pub broken_off: u64,
}

struct Inner {
    dl: Dlmalloc,
    live: [Live; LIVE_CAP],
    quar: [Live; QUAR_CAP],
    quar_head: usize,
    quar_len: usize,
    /// 0: no quarantine, a freed block is given back at once
    quar_cap: usize,
    layouts: [LayoutEnt; LAYOUT_CAP],
    nlayouts: usize,
    led: Ledger,
}

#[inline]
fn slot_of(ptr: usize) -> usize {
    ((ptr >> 4).wrapping_mul(0x9E37_79B9_7F4A_7C15) >> 40) & (LIVE_CAP - 1)
}

impl Inner {
    const fn new() -> Self {
        Inner {
            dl: Dlmalloc::new(),
            live: [Live { ptr: EMPTY, size: 0, align: 0 }; LIVE_CAP],
            quar: [Live { ptr: EMPTY, size: 0, align: 0 }; QUAR_CAP],
            quar_head: 0,
            quar_len: 0,
            quar_cap: QUAR_CAP,
            layouts: [LayoutEnt { size: 0, align: 0, count: 0, base: 0 }; LAYOUT_CAP],
            nlayouts: 0,
            led: Ledger {
                live_count: 0,
                live_bytes: 0,
                double_free: 0,
                foreign_free: 0,
                layout_mismatch: 0,
                poison_broken: 0,
                broken_size: 0,
                broken_align: 0,
                broken_off: 0,
            },
        }
    }

    fn layout_add(&mut self, size: usize, align: usize, d: i64) {
        for e in &mut self.layouts[..self.nlayouts] {
            if e.size == size && e.align == align {
                e.count += d;
                return;
            }
        }
        if self.nlayouts < LAYOUT_CAP {
            self.layouts[self.nlayouts] = LayoutEnt { size, align, count: d, base: 0 };
            self.nlayouts += 1;
        }
    }

    fn insert(&mut self, ptr: usize, size: usize, align: usize) {
        let mut i = slot_of(ptr);
        for _ in 0..LIVE_CAP {
            let p = self.live[i].ptr;
            if p == EMPTY || p == TOMB {
                self.live[i] = Live { ptr, size, align };
                return;
            }
            i = (i + 1) & (LIVE_CAP - 1);
        }
        // table full: the block stays untracked (its free will count as foreign)
    }

    fn remove(&mut self, ptr: usize) -> Option<Live> {
        let mut i = slot_of(ptr);
        for _ in 0..LIVE_CAP {
            let e = self.live[i];
            if e.ptr == EMPTY {
                return None;
            }
            if e.ptr == ptr {
                self.live[i].ptr = TOMB;
                return Some(e);
            }
            i = (i + 1) & (LIVE_CAP - 1);
        }
        None
    }

    /// offset of the first byte that is not POISON
    unsafe fn first_broken(b: &Live) -> Option<usize> {
        let p = b.ptr as *const u8;
        let mut i = 0;
        while i < b.size {
            if p.add(i).read_volatile() != POISON {
                return Some(i);
            }
            i += 1;
        }
        None
    }

    unsafe fn check_block(&mut self, b: Live) {
        if let Some(off) = Self::first_broken(&b) {
            if self.led.poison_broken == 0 {
                self.led.broken_size = b.size as u64;
                self.led.broken_align = b.align as u64;
                self.led.broken_off = off as u64;
            }
            self.led.poison_broken += 1;
            core::ptr::write_bytes(b.ptr as *mut u8, POISON, b.size);
        }
    }

    unsafe fn verify_quarantine(&mut self) {
        for k in 0..self.quar_len {
            let b = self.quar[(self.quar_head + k) % QUAR_CAP];
            self.check_block(b);
        }
    }

    unsafe fn alloc(&mut self, layout: Layout) -> *mut u8 {
        let p = self.dl.malloc(layout.size(), layout.align());
        if !p.is_null() {
            self.insert(p as usize, layout.size(), layout.align());
            self.layout_add(layout.size(), layout.align(), 1);
            self.led.live_count += 1;
            self.led.live_bytes += layout.size() as u64;
        }
        p
    }

    unsafe fn dealloc(&mut self, ptr: *mut u8, layout: Layout) {
        let Some(e) = self.remove(ptr as usize) else {
            let mut in_quar = false;
            for k in 0..self.quar_len {
                if self.quar[(self.quar_head + k) % QUAR_CAP].ptr == ptr as usize {
                    in_quar = true;
                }
            }
            if in_quar {
                self.led.double_free += 1;
            } else {
                self.led.foreign_free += 1;
            }
            return;
        };
        if e.size != layout.size() || e.align != layout.align() {
            self.led.layout_mismatch += 1;
        }
        self.layout_add(e.size, e.align, -1);
        self.led.live_count -= 1;
        self.led.live_bytes -= e.size as u64;
        core::ptr::write_bytes(ptr, POISON, e.size);
        if self.quar_cap == 0 {
            self.dl.free(ptr);
            return;
        }
        if self.quar_len == QUAR_CAP {
            let old = self.quar[self.quar_head];
            self.quar_head = (self.quar_head + 1) % QUAR_CAP;
            self.quar_len -= 1;
            self.check_block(old);
            self.dl.free(old.ptr as *mut u8);
        }
        self.quar[(self.quar_head + self.quar_len) % QUAR_CAP] = e;
        self.quar_len += 1;
    }
}

pub struct Galloc(Mutex<Inner>);

unsafe impl Sync for Galloc {}

impl Galloc {
    pub const fn new() -> Self {
        Galloc(Mutex::new(Inner::new()))
    }

    /// Switch the quarantine off: freed blocks are reused at once.
    pub fn no_quarantine(&self) {
        self.0.lock().quar_cap = 0;
    }

    /// Make the current per-layout counts the baseline.
    pub fn set_baseline(&self) {
        let mut g = self.0.lock();
        let n = g.nlayouts;
        for e in &mut g.layouts[..n] {
            e.base = e.count;
        }
    }

    /// Verify the quarantine and return the ledger.
    pub fn ledger(&self) -> Ledger {
        let mut g = self.0.lock();
        unsafe { g.verify_quarantine() };
        g.led
    }

    /// Layouts whose live count differs from the baseline: calls `f(size, align, delta)`.
    /// `f` must not allocate.
    pub fn deltas(&self, out: &mut [(usize, usize, i64); 16]) -> usize {
        let g = self.0.lock();
        let mut n = 0;
        for e in &g.layouts[..g.nlayouts] {
            if e.count != e.base && n < out.len() {
                out[n] = (e.size, e.align, e.count - e.base);
                n += 1;
            }
        }
        n
    }
}

unsafe impl GlobalAlloc for Galloc {
    unsafe fn alloc(&self, layout: Layout) -> *mut u8 {
        self.0.lock().alloc(layout)
    }

    unsafe fn dealloc(&self, ptr: *mut u8, layout: Layout) {
        self.0.lock().dealloc(ptr, layout);
    }
}
