//! probes/threads — no-libc probe for C05/C06.  Runs the scenario given in argv on the
//! repository's real `thread::spawn` / `JoinHandle` / `__clone` trampoline / panic handler and
//! reports with fixed-size records on descriptor 999 (intercepted by crates/ptsim).
//! Nothing in here looks at a clock, a tid or an address to decide what to do.
#![no_std]
#![no_main]

extern crate alloc;

mod galloc;
#[allow(dead_code)]
mod proto {
    include!("../../../crates/ptsim/src/proto.rs");
}

use alloc::boxed::Box;
use alloc::string::String;
use alloc::vec::Vec;
use core::sync::atomic::{AtomicU64, Ordering};
use core::time::Duration;
use proto::*;
use tiny_std::thread::JoinHandle;

/// The optimiser turns rusl's byte-counting loop into a call of `strlen`; without a libc the
/// probe has to bring its own (volatile reads keep this loop from becoming that call again).
#[no_mangle]
pub unsafe extern "C" fn strlen(s: *const u8) -> usize {
    let mut n = 0;
    while s.add(n).read_volatile() != 0 {
        n += 1;
    }
    n
}

#[global_allocator]
static ALLOC: galloc::Galloc = galloc::Galloc::new();

fn rec(kind: u32, tag: u32, v: [u64; 7]) {
    let mut b = [0u8; REC_SIZE];
    b[0..4].copy_from_slice(&kind.to_le_bytes());
    b[4..8].copy_from_slice(&tag.to_le_bytes());
    for (i, x) in v.iter().enumerate() {
        b[8 + 8 * i..16 + 8 * i].copy_from_slice(&x.to_le_bytes());
    }
    let fd = rusl::platform::Fd::comptime_checked_new(REPORT_FD);
    let _ = rusl::unistd::write(fd, &b);
}

#[derive(Clone, Copy)]
struct Spec {
    tag: u32,
    class: u32,
    panics: bool,
    /// the panic happens while the arguments of an `eprintln!` are being evaluated (the closure
    /// holds tiny-std's print lock at that moment)
    panic_in_print: bool,
    nrec: u32,
    sleep_ms: u32,
    alloc: u32,
    fate: u32,
}

#[repr(C)]
struct Slot {
    runs: AtomicU64,
    val: AtomicU64,
    /// set by main once the thread's handle has been dropped
    handle_gone: AtomicU64,
}

// ---- result types ------------------------------------------------------------------------

trait Val: Send + 'static {
    fn make(tag: u32) -> Self;
    fn vhash(&self) -> u64;
}

impl Val for () {
    fn make(_: u32) -> Self {}
    fn vhash(&self) -> u64 {
        vfold(VHASH_SEED, C_UNIT as u64)
    }
}

impl Val for u8 {
    fn make(tag: u32) -> Self {
        vword(tag, 0) as u8
    }
    fn vhash(&self) -> u64 {
        vfold(vfold(VHASH_SEED, C_U8 as u64), *self as u64)
    }
}

impl Val for u64 {
    fn make(tag: u32) -> Self {
        vword(tag, 0)
    }
    fn vhash(&self) -> u64 {
        vfold(vfold(VHASH_SEED, C_U64 as u64), *self)
    }
}

impl Val for [u8; 24] {
    fn make(tag: u32) -> Self {
        let mut a = [0u8; 24];
        for (i, x) in a.iter_mut().enumerate() {
            *x = vword(tag, i as u32) as u8;
        }
        a
    }
    fn vhash(&self) -> u64 {
        let mut h = vfold(VHASH_SEED, C_B24 as u64);
        for x in self {
            h = vfold(h, *x as u64);
        }
        h
    }
}

impl Val for [u64; 33] {
    fn make(tag: u32) -> Self {
        let mut a = [0u64; 33];
        for (i, x) in a.iter_mut().enumerate() {
            *x = vword(tag, i as u32);
        }
        a
    }
    fn vhash(&self) -> u64 {
        let mut h = vfold(VHASH_SEED, C_W33 as u64);
        for x in self {
            h = vfold(h, *x);
        }
        h
    }
}

impl Val for bool {
    fn make(tag: u32) -> Self {
        vword(tag, 0) & 1 == 1
    }
    fn vhash(&self) -> u64 {
        vfold(vfold(VHASH_SEED, C_BOOL as u64), *self as u64)
    }
}

impl Val for Option<u32> {
    fn make(tag: u32) -> Self {
        let w = vword(tag, 0);
        if w & 1 == 1 {
            Some((w >> 32) as u32)
        } else {
            None
        }
    }
    fn vhash(&self) -> u64 {
        let h = vfold(VHASH_SEED, C_OPT_U32 as u64);
        match self {
            Some(x) => vfold(vfold(h, 1), *x as u64),
            None => vfold(vfold(h, 0), 0),
        }
    }
}

impl Val for String {
    fn make(tag: u32) -> Self {
        let mut s = String::new();
        for i in 0..string_len(tag) {
            s.push(string_byte(tag, i) as char);
        }
        s
    }
    fn vhash(&self) -> u64 {
        let mut h = vfold(vfold(VHASH_SEED, C_STRING as u64), self.len() as u64);
        for b in self.bytes() {
            h = vfold(h, b as u64);
        }
        h
    }
}

impl Val for core::result::Result<u8, u8> {
    fn make(tag: u32) -> Self {
        let w = vword(tag, 0);
        if w & 1 == 1 {
            Ok((w >> 8) as u8)
        } else {
            Err((w >> 8) as u8)
        }
    }
    fn vhash(&self) -> u64 {
        let h = vfold(VHASH_SEED, C_RESULT_U8 as u64);
        match self {
            Ok(x) => vfold(vfold(h, 1), *x as u64),
            Err(x) => vfold(vfold(h, 0), *x as u64),
        }
    }
}

/// A result whose destructor panics.
struct PanicOnDrop(u64);

impl Drop for PanicOnDrop {
    fn drop(&mut self) {
        panic!("the result's destructor panics");
    }
}

impl Val for PanicOnDrop {
    fn make(tag: u32) -> Self {
        PanicOnDrop(vword(tag, 0))
    }
    fn vhash(&self) -> u64 {
        vfold(vfold(VHASH_SEED, C_DROP_PANICS as u64), self.0)
    }
}

#[repr(align(64))]
struct A64 {
    a: u64,
    b: [u8; 40],
}

impl Val for A64 {
    fn make(tag: u32) -> Self {
        let mut b = [0u8; 40];
        for (i, x) in b.iter_mut().enumerate() {
            *x = vword(tag, 1 + i as u32) as u8;
        }
        A64 { a: vword(tag, 0), b }
    }
    fn vhash(&self) -> u64 {
        let mut h = vfold(vfold(VHASH_SEED, C_A64 as u64), self.a);
        for x in &self.b {
            h = vfold(h, *x as u64);
        }
        // a misplaced value is as wrong as a wrong one
        if (self as *const A64 as usize) % 64 != 0 {
            h = !h;
        }
        h
    }
}

#[repr(align(4096))]
struct A4096 {
    a: u64,
    b: u64,
}

impl Val for A4096 {
    fn make(tag: u32) -> Self {
        A4096 { a: vword(tag, 0), b: vword(tag, 1) }
    }
    fn vhash(&self) -> u64 {
        let mut h = vfold(vfold(vfold(VHASH_SEED, C_A4096 as u64), self.a), self.b);
        if (self as *const A4096 as usize) % 4096 != 0 {
            h = !h;
        }
        h
    }
}

// ---- the closure ---------------------------------------------------------------------------

fn body<T: Val>(s: Spec, slot: usize) -> T {
    let slot = unsafe { &*(slot as *const Slot) };
    rec(R_START, s.tag, [0, 0, 0, 0, 0, 0, (s.nrec == 0) as u64]);
    slot.runs.fetch_add(1, Ordering::SeqCst);
    let mut scratch: Option<Vec<u64>> = None;
    if s.alloc > 0 {
        let mut v = Vec::with_capacity(s.alloc as usize);
        for i in 0..s.alloc {
            v.push(vword(s.tag, 2000 + i));
        }
        scratch = Some(core::hint::black_box(v));
    }
    if s.sleep_ms > 0 {
        let _ = tiny_std::thread::sleep(Duration::from_millis(s.sleep_ms as u64));
    }
    for i in 0..s.nrec {
        let mut x = 0;
        if let Some(v) = &scratch {
            x = v[(i as usize) % v.len()];
        }
        rec(R_WORK, s.tag, [i as u64, x, 0, 0, 0, 0, (i + 1 == s.nrec) as u64]);
    }
    // the scratch allocation is released before the closure ends either way: the only thing a
    // panicking closure leaves behind is the closure itself
    drop(scratch);
    slot.val.store(slot_value(s.tag), Ordering::SeqCst);
    if s.class == C_DROP_PANICS {
        // the handle goes first: the thread is the one that has to dispose of the result
        while slot.handle_gone.load(Ordering::SeqCst) == 0 {
            let _ = tiny_std::thread::sleep(Duration::from_millis(1));
        }
    }
    if s.panics {
        if s.panic_in_print {
            let nothing: Option<u32> = None;
            tiny_std::eprintln!("about to report {}", nothing.unwrap());
        }
        panic!("scenario panic");
    }
    T::make(s.tag)
}

enum Handle {
    Unit(JoinHandle<()>),
    U8(JoinHandle<u8>),
    U64(JoinHandle<u64>),
    B24(JoinHandle<[u8; 24]>),
    W33(JoinHandle<[u64; 33]>),
    A64(JoinHandle<A64>),
    A4096(JoinHandle<A4096>),
    Bool(JoinHandle<bool>),
    OptU32(JoinHandle<Option<u32>>),
    Str(JoinHandle<String>),
    ResU8(JoinHandle<core::result::Result<u8, u8>>),
    DropPanics(JoinHandle<PanicOnDrop>),
}

fn spawn_one<T: Val>(s: Spec, slot: usize) -> tiny_std::Result<JoinHandle<T>> {
    tiny_std::thread::spawn(move || body::<T>(s, slot))
}

fn spawn_class(s: Spec, slot: usize) -> tiny_std::Result<Handle> {
    Ok(match s.class {
        C_UNIT => Handle::Unit(spawn_one(s, slot)?),
        C_U8 => Handle::U8(spawn_one(s, slot)?),
        C_U64 => Handle::U64(spawn_one(s, slot)?),
        C_B24 => Handle::B24(spawn_one(s, slot)?),
        C_W33 => Handle::W33(spawn_one(s, slot)?),
        C_A64 => Handle::A64(spawn_one(s, slot)?),
        C_BOOL => Handle::Bool(spawn_one(s, slot)?),
        C_OPT_U32 => Handle::OptU32(spawn_one(s, slot)?),
        C_STRING => Handle::Str(spawn_one(s, slot)?),
        C_RESULT_U8 => Handle::ResU8(spawn_one(s, slot)?),
        C_DROP_PANICS => Handle::DropPanics(spawn_one(s, slot)?),
        _ => Handle::A4096(spawn_one(s, slot)?),
    })
}

fn join_typed<T: Val>(h: JoinHandle<T>, tag: u32, slot: &Slot) {
    rec(R_JOINING, tag, [0; 7]);
    let r = h.join();
    rec(R_JOINED, tag, [0; 7]);
    let (some, hash) = match &r {
        Some(v) => (1, v.vhash()),
        None => (0, 0),
    };
    rec(R_JOIN, tag, [some, hash, slot.runs.load(Ordering::SeqCst), slot.val.load(Ordering::SeqCst), 0, 0, 0]);
}

fn join_handle(h: Handle, tag: u32, slot: &Slot) {
    match h {
        Handle::Unit(h) => join_typed(h, tag, slot),
        Handle::U8(h) => join_typed(h, tag, slot),
        Handle::U64(h) => join_typed(h, tag, slot),
        Handle::B24(h) => join_typed(h, tag, slot),
        Handle::W33(h) => join_typed(h, tag, slot),
        Handle::A64(h) => join_typed(h, tag, slot),
        Handle::A4096(h) => join_typed(h, tag, slot),
        Handle::Bool(h) => join_typed(h, tag, slot),
        Handle::OptU32(h) => join_typed(h, tag, slot),
        Handle::Str(h) => join_typed(h, tag, slot),
        Handle::ResU8(h) => join_typed(h, tag, slot),
        Handle::DropPanics(h) => join_typed(h, tag, slot),
    }
}

fn drop_handle(h: Handle, tag: u32, slot: &Slot) {
    rec(R_DROPPING, tag, [0; 7]);
    drop(h);
    rec(R_DROPPED, tag, [0; 7]);
    slot.handle_gone.store(1, Ordering::SeqCst);
}

// ---- scenario ------------------------------------------------------------------------------

fn parse_num(b: &[u8]) -> Option<u64> {
    if b.is_empty() {
        return None;
    }
    let mut v: u64 = 0;
    for c in b {
        if !c.is_ascii_digit() {
            return None;
        }
        v = v.checked_mul(10)?.checked_add((c - b'0') as u64)?;
    }
    Some(v)
}

fn parse_args() -> Option<(u64, Vec<Vec<Spec>>)> {
    let mut nums: Vec<u64> = Vec::new();
    for a in tiny_std::env::args_os().skip(1) {
        let s = a.as_slice();
        // as_slice includes the terminating NUL
        let s = if s.last() == Some(&0) { &s[..s.len() - 1] } else { s };
        nums.push(parse_num(s)?);
    }
    let mut it = nums.into_iter();
    let mode = it.next()?;
    let nb = it.next()? as usize;
    let mut batches = Vec::with_capacity(nb);
    let mut tag = 0u32;
    for _ in 0..nb {
        let nt = it.next()? as usize;
        if nt == 0 || nt > MAX_THREADS_PER_BATCH {
            return None;
        }
        let mut b = Vec::with_capacity(nt);
        for _ in 0..nt {
            tag += 1;
            let class = it.next()? as u32;
            let pk = it.next()?;
            let (panics, panic_in_print) = (pk != 0, pk == 2);
            let nrec = it.next()? as u32;
            let sleep_ms = it.next()? as u32;
            let alloc = it.next()? as u32;
            let fate = it.next()? as u32;
            if class >= CLASSES || fate > FATE_DROP_LATER || nrec > 8 || alloc > 4096 {
                return None;
            }
            b.push(Spec { tag, class, panics, panic_in_print, nrec, sleep_ms, alloc, fate });
        }
        batches.push(b);
    }
    Some((mode, batches))
}

fn run_batch(mode: u64, bi: usize, specs: &[Spec]) {
    let slots: *mut [Slot; MAX_THREADS_PER_BATCH] = Box::into_raw(Box::new(core::array::from_fn(|_| Slot {
        runs: AtomicU64::new(0),
        val: AtomicU64::new(0),
        handle_gone: AtomicU64::new(0),
    })));
    let slot_ref = |i: usize| -> &'static Slot { unsafe { &(*slots)[i] } };
    let mut later: Vec<(usize, Handle)> = Vec::with_capacity(specs.len());
    for (i, s) in specs.iter().enumerate() {
        rec(R_SPAWNING, s.tag, [s.class as u64, s.panics as u64, s.fate as u64, 0, 0, 0, 0]);
        let r = spawn_class(*s, slot_ref(i) as *const Slot as usize);
        match r {
            Ok(h) => {
                rec(R_SPAWNED, s.tag, [1, 0, 0, 0, 0, 0, 0]);
                match s.fate {
                    FATE_JOIN_NOW => join_handle(h, s.tag, slot_ref(i)),
                    FATE_DROP_NOW => drop_handle(h, s.tag, slot_ref(i)),
                    _ => later.push((i, h)),
                }
            }
            Err(e) => {
                let code = match e {
                    tiny_std::Error::Os { code, .. } => code.raw() as u64,
                    _ => 0,
                };
                rec(R_SPAWNED, s.tag, [0, code, 0, 0, 0, 0, 0]);
            }
        }
    }
    for (i, h) in later {
        let s = &specs[i];
        if s.fate == FATE_JOIN_LATER {
            join_handle(h, s.tag, slot_ref(i));
        } else {
            drop_handle(h, s.tag, slot_ref(i));
        }
    }
    rec(R_QUIESCE, bi as u32, [0; 7]);
    if mode & MODE_TRACED == 0 {
        // native run: no barrier available, give detached threads time to finish
        let _ = tiny_std::thread::sleep(Duration::from_millis(50));
    }
    for (i, s) in specs.iter().enumerate() {
        let sl = slot_ref(i);
        rec(R_SLOT, s.tag, [sl.runs.load(Ordering::SeqCst), sl.val.load(Ordering::SeqCst), 0, 0, 0, 0, 0]);
    }
    drop(unsafe { Box::from_raw(slots) });
    let l = ALLOC.ledger();
    rec(
        R_BATCH_END,
        bi as u32,
        [
            l.live_count,
            l.live_bytes,
            l.double_free | l.foreign_free << 16 | l.layout_mismatch << 32,
            l.poison_broken,
            l.broken_size,
            l.broken_align,
            l.broken_off,
        ],
    );
    let mut d = [(0usize, 0usize, 0i64); 16];
    let n = ALLOC.deltas(&mut d);
    for e in &d[..n] {
        rec(R_LEDGER, bi as u32, [e.0 as u64, e.1 as u64, e.2 as u64, 0, 0, 0, 0]);
    }
}

#[no_mangle]
pub fn main() -> i32 {
    let Some((mode, batches)) = parse_args() else {
        rec(R_BAD_ARGS, 0, [0; 7]);
        return 3;
    };
    if mode & MODE_NO_QUARANTINE != 0 {
        ALLOC.no_quarantine();
    }
    ALLOC.set_baseline();
    let l = ALLOC.ledger();
    rec(R_BASELINE, 0, [l.live_count, l.live_bytes, 0, 0, 0, 0, 0]);
    for (bi, b) in batches.iter().enumerate() {
        run_batch(mode, bi, b);
    }
    rec(R_DONE, 0, [0; 7]);
    0
}
