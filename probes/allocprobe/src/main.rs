//! probes/allocprobe — no-libc probe for the engine-B cases of C04.  The global allocator is
//! tiny-std's own (private) `GlobalDlMalloc` (features `global-allocator` + `threaded`); this
//! crate defines none.  Runs the churn scenario given in argv and reports ROUND_END records on
//! descriptor 999 (intercepted by crates/ptsim, whose mapping ledger is the measurement).
//!
//! argv: mode R T I B { size*B order*B } * max(T,1)
//!   R rounds; per round T worker threads (T = 0: main does the churn itself), each runs I times
//!   "allocate its B blocks, touch one byte of each, free them in its order"; all are joined;
//!   main does one uncontended alloc/free; ROUND_END.
#![no_std]
#![no_main]

extern crate alloc;

#[allow(dead_code)]
mod proto {
    include!("../../../crates/ptsim/src/proto.rs");
}

use alloc::vec::Vec;
use proto::*;

/// see probes/threads: rustc turns rusl's byte loop into a call of `strlen`
#[no_mangle]
pub unsafe extern "C" fn strlen(s: *const u8) -> usize {
    let mut n = 0;
    while s.add(n).read_volatile() != 0 {
        n += 1;
    }
    n
}

fn rec(kind: u32, tag: u32, v: [u64; 7]) {
    let mut b = [0u8; REC_SIZE];
    b[0..4].copy_from_slice(&kind.to_le_bytes());
    b[4..8].copy_from_slice(&tag.to_le_bytes());
    for (i, x) in v.iter().enumerate() {
        b[8 + 8 * i..16 + 8 * i].copy_from_slice(&x.to_le_bytes());
    }
    let fd = rusl::platform::Fd::comptime_checked_new(REPORT_FD);
    let _ = rusl::unistd::write(fd, &b);
}

#[derive(Clone)]
struct Plan {
    sizes: Vec<usize>,
    order: Vec<usize>,
}

fn churn(p: &Plan, inner: usize) -> u64 {
    let mut sum = 0u64;
    for it in 0..inner {
        let mut blocks: Vec<Option<Vec<u8>>> = Vec::with_capacity(p.sizes.len());
        for (i, &sz) in p.sizes.iter().enumerate() {
            let mut v: Vec<u8> = Vec::with_capacity(sz);
            v.push((i + it) as u8);
            sum += u64::from(v[0]);
            blocks.push(Some(core::hint::black_box(v)));
        }
        for &i in &p.order {
            drop(blocks[i].take());
        }
    }
    sum
}

fn parse_num(b: &[u8]) -> Option<u64> {
    if b.is_empty() {
        return None;
    }
    let mut v: u64 = 0;
    for c in b {
        if !c.is_ascii_digit() {
            return None;
        }
        v = v.checked_mul(10)?.checked_add((c - b'0') as u64)?;
    }
    Some(v)
}

struct Scn {
    rounds: usize,
    threads: usize,
    inner: usize,
    plans: Vec<Plan>,
}

fn parse_args() -> Option<Scn> {
    let mut nums: Vec<u64> = Vec::new();
    for a in tiny_std::env::args_os().skip(1) {
        let s = a.as_slice();
        let s = if s.last() == Some(&0) { &s[..s.len() - 1] } else { s };
        nums.push(parse_num(s)?);
    }
    let mut it = nums.into_iter();
    let _mode = it.next()?;
    let rounds = it.next()? as usize;
    let threads = it.next()? as usize;
    let inner = it.next()? as usize;
    let b = it.next()? as usize;
    if threads > 8 || b == 0 || b > 64 || inner == 0 || rounds > 100_000 {
        return None;
    }
    let mut plans = Vec::new();
    for _ in 0..threads.max(1) {
        let mut sizes = Vec::with_capacity(b);
        for _ in 0..b {
            let s = it.next()? as usize;
            if s == 0 || s > (64 << 20) {
                return None;
            }
            sizes.push(s);
        }
        let mut order = Vec::with_capacity(b);
        let mut seen = [false; 64];
        for _ in 0..b {
            let o = it.next()? as usize;
            if o >= b || seen[o] {
                return None;
            }
            seen[o] = true;
            order.push(o);
        }
        plans.push(Plan { sizes, order });
    }
    Some(Scn { rounds, threads, inner, plans })
}

#[no_mangle]
pub fn main() -> i32 {
    let Some(scn) = parse_args() else {
        rec(R_BAD_ARGS, 0, [0; 7]);
        return 3;
    };
    let plans: Vec<&'static Plan> = scn.plans.iter().map(|p| &*alloc::boxed::Box::leak(alloc::boxed::Box::new(p.clone()))).collect();
    rec(R_BASELINE, 0, [0; 7]);
    for r in 0..scn.rounds {
        let mut sum = 0u64;
        if scn.threads == 0 {
            sum += churn(plans[0], scn.inner);
        } else {
            let mut hs = Vec::with_capacity(scn.threads);
            for t in 0..scn.threads {
                // the plans live for the whole run: the closure borrows, nothing is cloned per round
                let p: &'static Plan = plans[t];
                let inner = scn.inner;
                match tiny_std::thread::spawn(move || churn(p, inner)) {
                    Ok(h) => hs.push(h),
                    Err(_) => return 4,
                }
            }
            for h in hs {
                match h.join() {
                    Some(s) => sum += s,
                    None => return 5,
                }
            }
        }
        // one uncontended alloc/free on the main thread: whatever the allocator still had queued
        // is processed before the footprint is sampled
        let v: Vec<u8> = Vec::with_capacity(64);
        drop(core::hint::black_box(v));
        rec(R_ROUND_END, r as u32, [sum, 0, 0, 0, 0, 0, 0]);
    }
    rec(R_DONE, 0, [0; 7]);
    0
}
